#!/usr/bin/env python3
"""Translator slice E3: character classes of /repo/src/parser/macros.rs -> Lean.

Reads every one-argument `macro_rules!` character-class macro, parses its body with a small
recursive-descent parser and emits `lean/ScryerModel/Extracted/CharClass.lean`: one Lean `def`
per macro (same name, same boolean structure) over a structure `UC` whose fields are the Unicode
predicates of Rust's `char` that the macros call (`is_alphabetic`, `is_numeric`, …).  ASCII-only
methods (`is_ascii_digit`) are translated to their definition.

Body grammar accepted (anything else is reported as "cannot parse"):

    or      := and ('||' and)*
    and     := unary ('&&' unary)*
    unary   := '!' unary | primary
    primary := '(' or ')' | '(' CHAR '..=' CHAR ')' '.contains(&$c)'
             | '$c' '==' CHAR | '$c' '.' IDENT '()' | IDENT '!($c)' | 'char_class!($c, [CHAR,*])'

usage: charclass.py [macros.rs [out.lean]]   (exit 0 = written / unchanged, 2 = cannot parse)
"""
import os
import re
import sys

ROOT = os.path.dirname(os.path.dirname(os.path.abspath(__file__)))
SRC = "/repo/src/parser/macros.rs"
OUT = os.path.join(ROOT, "lean", "ScryerModel", "Extracted", "CharClass.lean")

UNICODE_METHODS = ["is_alphabetic", "is_numeric", "is_uppercase", "is_lowercase", "is_whitespace",
                   "is_control", "is_alphanumeric"]
ASCII_METHODS = {"is_ascii_digit": "c.isDigit"}


class ParseError(Exception):
    pass


TOKEN_RE = re.compile(r"""
    (?P<ws>\s+|//[^\n]*)
  | (?P<char>'(?:\\u\{[0-9A-Fa-f]+\}|\\.|[^'\\])')
  | (?P<var>\$\w+)
  | (?P<id>[A-Za-z_]\w*)
  | (?P<op>\.\.=|=>|\|\||&&|==|[!()\[\],.&;{}:])
""", re.X)


def tokenize(text):
    pos, out = 0, []
    while pos < len(text):
        m = TOKEN_RE.match(text, pos)
        if not m:
            raise ParseError("unexpected text at %r" % text[pos:pos + 30])
        pos = m.end()
        if m.lastgroup == "ws":
            continue
        out.append((m.lastgroup, m.group(m.lastgroup)))
    return out


def char_value(lit):
    s = lit[1:-1]
    if s.startswith("\\u{"):
        return int(s[3:-1], 16)
    if s.startswith("\\"):
        table = {"n": 10, "r": 13, "t": 9, "\\": 92, "'": 39, '"': 34, "0": 0}
        if s[1] not in table:
            raise ParseError("unknown char escape " + lit)
        return table[s[1]]
    if len(s) != 1:
        raise ParseError("bad char literal " + lit)
    return ord(s)


def lean_char(n):
    if n == 92:
        return "'\\\\'"
    if n == 39:
        return "'\\''"
    if 33 <= n < 127:
        return "'%s'" % chr(n)
    return "(Char.ofNat %d)" % n


class P:
    def __init__(self, toks, var):
        self.t, self.i, self.var = toks, 0, var
        self.uses, self.methods = set(), set()

    def peek(self, k=0):
        return self.t[self.i + k] if self.i + k < len(self.t) else (None, None)

    def eat(self, val=None, kind=None):
        k, v = self.peek()
        if (val is not None and v != val) or (kind is not None and k != kind):
            raise ParseError("expected %r, found %r" % (val or kind, v))
        self.i += 1
        return v

    def p_or(self):
        xs = [self.p_and()]
        while self.peek()[1] == "||":
            self.eat("||")
            xs.append(self.p_and())
        return xs[0] if len(xs) == 1 else ("or", xs)

    def p_and(self):
        xs = [self.p_unary()]
        while self.peek()[1] == "&&":
            self.eat("&&")
            xs.append(self.p_unary())
        return xs[0] if len(xs) == 1 else ("and", xs)

    def p_unary(self):
        if self.peek()[1] == "!":
            self.eat("!")
            return ("not", self.p_unary())
        return self.p_primary()

    def p_primary(self):
        k, v = self.peek()
        if v == "(":
            if self.peek(1)[0] == "char" and self.peek(2)[1] == "..=":
                self.eat("(")
                lo = char_value(self.eat(kind="char"))
                self.eat("..=")
                hi = char_value(self.eat(kind="char"))
                for x in [")", ".", "contains", "(", "&", self.var, ")"]:
                    self.eat(x)
                return ("range", lo, hi)
            self.eat("(")
            e = self.p_or()
            self.eat(")")
            return ("paren", e)
        if k == "var":
            self.eat(self.var)
            if self.peek()[1] == "==":
                self.eat("==")
                return ("eq", char_value(self.eat(kind="char")))
            self.eat(".")
            meth = self.eat(kind="id")
            self.eat("(")
            self.eat(")")
            self.methods.add(meth)
            return ("method", meth)
        if k == "id":
            name = self.eat(kind="id")
            self.eat("!")
            self.eat("(")
            self.eat(self.var)
            if name == "char_class":
                self.eat(",")
                self.eat("[")
                cs = [char_value(self.eat(kind="char"))]
                while self.peek()[1] == ",":
                    self.eat(",")
                    cs.append(char_value(self.eat(kind="char")))
                self.eat("]")
                self.eat(")")
                return ("class", cs)
            self.eat(")")
            self.uses.add(name)
            return ("macro", name)
        raise ParseError("unexpected token %r" % (v,))


def emit(e):
    k = e[0]
    if k == "or":
        return " || ".join(emit(x) for x in e[1])
    if k == "and":
        return " && ".join(emit_tight(x) for x in e[1])
    if k == "not":
        return "!" + emit_atom(e[1])
    if k == "paren":
        return "(" + emit(e[1]) + ")"
    if k == "eq":
        return "c == " + lean_char(e[1])
    if k == "range":
        return "(%s ≤ c && c ≤ %s)" % (lean_char(e[1]), lean_char(e[2]))
    if k == "method":
        if e[1] in ASCII_METHODS:
            return ASCII_METHODS[e[1]]
        return "u.%s c" % e[1]
    if k == "macro":
        return "%s u c" % e[1]
    if k == "class":
        # char_class! expands to a right-nested chain of `$c == x ||`
        return "(" + " || ".join("c == " + lean_char(x) for x in e[1]) + ")"
    raise ParseError("emit " + k)


def emit_tight(e):
    return "(" + emit(e) + ")" if e[0] == "or" else emit(e)


def emit_atom(e):
    return "(" + emit(e) + ")" if e[0] in ("or", "and", "eq") else emit(e)


MACRO_RE = re.compile(r"macro_rules!\s*(\w+)\s*\{(.*?)\n\}", re.S)


def extract(src_path=SRC):
    text = open(src_path).read()
    macros, order = {}, []
    for m in MACRO_RE.finditer(text):
        name, body = m.group(1), m.group(2)
        if name == "char_class":
            continue
        toks = tokenize(body)
        # header: ( $c : expr ) =>
        if not (len(toks) > 6 and toks[0][1] == "(" and toks[1][0] == "var" and toks[2][1] == ":"
                and toks[3][1] == "expr" and toks[4][1] == ")" and toks[5][1] == "=>"):
            raise ParseError("macro %s: unexpected header" % name)
        var = toks[1][1]
        rest = toks[6:]
        while rest and rest[-1][1] == ";":
            rest = rest[:-1]
        if not rest or rest[0][1] not in "({" or rest[-1][1] not in ")}":
            raise ParseError("macro %s: unexpected body delimiters" % name)
        p = P(rest[1:-1], var)
        e = p.p_or()
        if p.i != len(p.t):
            raise ParseError("macro %s: trailing tokens %r" % (name, p.t[p.i:p.i + 4]))
        macros[name] = (e, p.uses, p.methods)
        order.append(name)
    # topological order
    done, out = set(), []

    def visit(n, stack=()):
        if n in done:
            return
        if n in stack:
            raise ParseError("recursive macro " + n)
        if n not in macros:
            raise ParseError("unknown macro " + n)
        for d in sorted(macros[n][1]):
            visit(d, stack + (n,))
        done.add(n)
        out.append(n)

    for n in order:
        visit(n)
    methods = set()
    for n in out:
        methods |= macros[n][2]
    unknown = methods - set(UNICODE_METHODS) - set(ASCII_METHODS)
    if unknown:
        raise ParseError("unknown char methods: %s" % sorted(unknown))
    fields = [m for m in UNICODE_METHODS if m in methods]
    lines = ["/- GENERATED by extract/charclass.py from src/parser/macros.rs — do not edit.",
             "   One `def` per `macro_rules!` character class, same name and boolean structure.",
             "   `UC` = the Unicode predicates of Rust's `char` the macros call (parameters of the model). -/",
             "set_option linter.unusedVariables false",
             "namespace Scryer.CharClass", "",
             "structure UC where"]
    for f in fields:
        lines.append("  %s : Char → Bool" % f)
    lines.append("")
    for n in out:
        lines.append("def %s (u : UC) (c : Char) : Bool :=\n  %s\n" % (n, emit(macros[n][0])))
    lines.append("/-- names of the extracted macros (in dependency order) -/")
    lines.append("def extractedMacros : List String := [%s]" % ", ".join('"%s"' % n for n in out))
    lines.append("")
    lines.append("end Scryer.CharClass")
    return "\n".join(lines) + "\n"


def write(src_path=SRC, out_path=OUT):
    """Regenerate the Lean file; returns (changed: bool, error: str|None)."""
    try:
        new = extract(src_path)
    except (ParseError, OSError) as ex:
        return False, str(ex)
    os.makedirs(os.path.dirname(out_path), exist_ok=True)
    old = open(out_path).read() if os.path.exists(out_path) else None
    if old != new:
        tmp = out_path + ".tmp%d" % os.getpid()
        with open(tmp, "w") as fh:
            fh.write(new)
        os.replace(tmp, out_path)
        return True, None
    return False, None


if __name__ == "__main__":
    a = sys.argv[1:]
    changed, err = write(a[0] if a else SRC, a[1] if len(a) > 1 else OUT)
    if err:
        print("charclass.py: cannot parse: " + err)
        sys.exit(2)
    print("charclass.py: %s" % ("updated" if changed else "unchanged"))
