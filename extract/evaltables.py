#!/usr/bin/env python3
"""Translator slice E2 (DESIGN §8): the evaluable-functor dispatch tables of scryer-prolog's two
arithmetic evaluators, extracted from the CURRENT source text and written as Lean data.

compiled evaluator :  src/arithmetic.rs  push_literal / get_unary_instr / get_binary_instr
                        (functor, arity) -> Instruction::Variant(operands…)
                      src/machine/dispatch.rs  `&Instruction::Variant(ref a1, …) => self.machine_st.f_instr(a1, …)`
                        and `fn f_instr(…)`: operand fetch (get_number / get_rational) and the arithmetic_ops
                        function that is called, with the order of its arguments
run-time evaluator :  src/machine/arithmetic_ops.rs  arith_eval_by_metacall: the `match name` arms for arity 2, 1, 0

A row is  (functor, arity, function, argument order, operand fetch kinds).  `function` is the name of the
function of arithmetic_ops.rs that computes the result (`id` when the operand is passed through,
`Number::sign` for the method call, `const:NAME` for the three constants).

usage: evaltables.py [REPO] [OUT.lean]   (prints a JSON summary on stdout)
"""
import json
import os
import re
import sys

HERE = os.path.dirname(os.path.abspath(__file__))
DEFAULT_OUT = os.path.join(os.path.dirname(HERE), "lean", "ScryerModel", "Extracted", "EvalTables.lean")


class ExtractError(Exception):
    pass


def read(repo, rel):
    return open(os.path.join(repo, rel), encoding="utf-8").read()


def fn_body(src, header_rx):
    """text of the brace-balanced body following the first match of header_rx."""
    m = re.search(header_rx, src)
    if not m:
        raise ExtractError("cannot find %s" % header_rx)
    i = src.index("{", m.end() - 1)
    depth, j = 0, i
    while j < len(src):
        c = src[j]
        if c == "{":
            depth += 1
        elif c == "}":
            depth -= 1
            if depth == 0:
                return src[i + 1:j]
        j += 1
    raise ExtractError("unbalanced braces after %s" % header_rx)


def ops_functions(ops_src):
    """names of the free functions of arithmetic_ops.rs (candidates for `function`)."""
    names = set(re.findall(r"^pub(?:\(crate\))? fn (\w+)\s*[(<]", ops_src, flags=re.M))
    names -= {"rational_from_number"}
    return names


def atom_unescape(s):
    return s.replace("\\\\", "\\")


# ---------------------------------------------------------------- compiled evaluator

def compiled_functor_table(arith_src):
    rows = {}
    for arity, fname in ((1, "get_unary_instr"), (2, "get_binary_instr")):
        body = fn_body(arith_src, r"fn %s\s*\(" % fname)
        for m in re.finditer(r'atom!\("((?:[^"\\]|\\.)*)"\)\s*=>\s*Ok\(Instruction::(\w+)\(([^)]*)\)\)', body):
            name, variant, args = atom_unescape(m.group(1)), m.group(2), [a.strip() for a in m.group(3).split(",")]
            want = ["a1", "t"] if arity == 1 else ["a1", "a2", "t"]
            order = [int(a[1:]) for a in args if re.fullmatch(r"a\d", a)]
            if len(args) != len(want) or args[-1] != "t":
                raise ExtractError("unexpected operand list for %s/%d: %s" % (name, arity, args))
            if (name, arity) in rows:
                raise ExtractError("duplicate arm %s/%d" % (name, arity))
            rows[(name, arity)] = (variant, order)
    # operands are popped from the compile-time stack last-first: `let a2 = pop; let a1 = pop`
    body = fn_body(arith_src, r"fn instr_from_clause\s*\(")
    pops = re.findall(r"let (a\d) = self\.interm\.pop\(\)", body)
    if pops != ["a1", "a2", "a1"]:
        raise ExtractError("instr_from_clause pops its operands in an unexpected order: %s" % pops)
    calls = re.findall(r"self\.get_(unary|binary)_instr\(name, ([^)]*)\)", body)
    if calls != [("unary", "a1, arg"), ("binary", "a1, a2, arg")]:
        raise ExtractError("instr_from_clause passes unexpected operands: %s" % calls)
    consts = {}
    body = fn_body(arith_src, r"fn push_literal\s*\(")
    for m in re.finditer(r'Literal::Atom\(name\) if name == &atom!\("(\w+)"\)\s*=>\s*interm\.push\(ArithmeticTerm::Number\(\s*Number::Float\(OrderedFloat\(([\w:]+)\)\)', body):
        consts[m.group(1)] = m.group(2).split("::")[-1]
    return rows, consts


def instr_dispatch(dispatch_src):
    """Instruction variant -> (fn name, operand order) from every `&Instruction::V(ref a1…) => self.machine_st.f(…)`."""
    out = {}
    rx = re.compile(r"&?Instruction::(\w+)\(ref a1(, ref a2)?, t\)\s*=>\s*\{?\s*self\.machine_st\.(\w+_instr)\(([^)]*)\)")
    for m in rx.finditer(dispatch_src):
        variant, fn, args = m.group(1), m.group(3), [a.strip() for a in m.group(4).split(",")]
        order = [int(a[1:]) for a in args if re.fullmatch(r"a\d", a)]
        val = (fn, order)
        if variant in out and out[variant] != val:
            raise ExtractError("instruction %s dispatched inconsistently: %s vs %s" % (variant, out[variant], val))
        out[variant] = val
    return out


def analyse_instr_fn(dispatch_src, fn, opsf):
    """(function, argument order as operand indices, fetch kinds) of `fn X_instr`."""
    body = fn_body(dispatch_src, r"fn %s\s*\(" % fn)
    bind = {}     # local variable -> (operand index, fetch kind)
    for m in re.finditer(r"let (\w+) = try_or_throw!\(\s*self,\s*self\.get_(number|rational)\((a\d)[,)]", body):
        bind[m.group(1)] = (int(m.group(3)[1:]), m.group(2))
    if not bind:
        raise ExtractError("%s: no operand fetch found" % fn)
    calls = []
    for m in re.finditer(r"\b(\w+)\(\s*(\w+)\s*(?:,\s*(\w+)\s*)?[,)]", body):
        f, x, y = m.group(1), m.group(2), m.group(3)
        if f in opsf and x in bind:
            args = [x] + ([y] if y in bind else [])
            calls.append((f, [bind[a][0] for a in args]))
    for m in re.finditer(r"\b(\w+)\.sign\(\)", body):
        if m.group(1) in bind:
            calls.append(("Number::sign", [bind[m.group(1)][0]]))
    if not calls:
        # pass-through: the fetched number itself is stored
        m = re.search(r"HeapCellValue::from\(\((\w+), &mut self\.arena\)\)", body)
        if m and m.group(1) in bind:
            calls.append(("id", [bind[m.group(1)][0]]))
    if len(calls) != 1:
        raise ExtractError("%s: expected exactly one arithmetic call, found %s" % (fn, calls))
    fetch = [k for _, k in sorted(bind.values())]
    return calls[0][0], calls[0][1], fetch


def compiled_table(repo):
    arith = read(repo, "src/arithmetic.rs")
    disp = read(repo, "src/machine/dispatch.rs")
    opsf = ops_functions(read(repo, "src/machine/arithmetic_ops.rs"))
    functors, consts = compiled_functor_table(arith)
    idisp = instr_dispatch(disp)
    rows = []
    for (name, arity), (variant, order1) in functors.items():
        if variant not in idisp:
            raise ExtractError("Instruction::%s (for %s/%d) is not dispatched" % (variant, name, arity))
        fn, order2 = idisp[variant]
        f, order3, fetch = analyse_instr_fn(disp, fn, opsf)
        # compose the three operand permutations: functor args -> instruction operands -> fn params -> call args
        def through(k):
            return order1[order2[k - 1] - 1]
        rows.append((name, arity, f, [through(k) for k in order3], [fetch[order2.index(order1.index(i + 1) + 1)] if True else None for i in range(arity)]))
    for name, c in consts.items():
        rows.append((name, 0, "const:" + c, [], []))
    return sorted(rows)


# ---------------------------------------------------------------- run-time evaluator

def split_arms(body):
    """[(atom, text of the arm)] of a `match name { atom!("…") => …, }` body."""
    ms = list(re.finditer(r'atom!\("((?:[^"\\]|\\.)*)"\)\s*=>', body))
    arms = []
    for k, m in enumerate(ms):
        end = ms[k + 1].start() if k + 1 < len(ms) else len(body)
        text = body[m.end():end]
        # cut at the default arm
        d = re.search(r"\n\s*_\s*=>", text)
        if d:
            text = text[:d.start()]
        arms.append((atom_unescape(m.group(1)), text))
    return arms


def meta_table(repo):
    ops = read(repo, "src/machine/arithmetic_ops.rs")
    opsf = ops_functions(ops)
    body = fn_body(ops, r"fn arith_eval_by_metacall\s*\(")
    rows = []
    for arity, rx in ((2, r"if arity == 2\s*"), (1, r"else if arity == 1\s*"), (0, r"else if arity == 0\s*")):
        blk = fn_body(body, rx)
        # operands popped from the stack: `let a2 = interms.pop()…; let a1 = interms.pop()…` (a1 is the FIRST argument)
        pops = re.findall(r"let (a\d) = interms\.pop\(\)", blk)
        if arity == 2 and pops != ["a2", "a1"]:
            raise ExtractError("arity-2 operands are popped in an unexpected order: %s" % pops)
        if arity == 1 and pops != ["a1"]:
            raise ExtractError("arity-1 operand pop not found: %s" % pops)
        mbody = fn_body(blk, r"match name\s*")
        for name, text in split_arms(mbody):
            if arity == 0:
                m = re.search(r"Number::Float\(OrderedFloat\(([\w:]+)\)\)", text)
                if not m:
                    raise ExtractError("constant %s: value not found" % name)
                rows.append((name, 0, "const:" + m.group(1).split("::")[-1], [], []))
                continue
            bind = {"a1": (1, "number"), "a2": (2, "number")}
            fetch = {1: "number", 2: "number"}
            for m in re.finditer(r"let (\w+) = drop_iter_on_err!\(\s*self,\s*iter,\s*rational_from_number\((a\d),", text):
                k = int(m.group(2)[1:])
                bind[m.group(1)] = (k, "rational")
                fetch[k] = "rational"
            calls = []
            for m in re.finditer(r"\b(\w+)\(\s*(\w+)\s*(?:,\s*(\w+)\s*)?[,)]", text):
                f, x, y = m.group(1), m.group(2), m.group(3)
                if f in opsf and x in bind:
                    calls.append((f, [bind[x][0]] + ([bind[y][0]] if y in bind else [])))
            for m in re.finditer(r"\b(a\d)\.sign\(\)", text):
                calls.append(("Number::sign", [bind[m.group(1)][0]]))
            if not calls and re.search(r"interms\.push\(\s*a1\s*\)", text):
                calls.append(("id", [1]))
            if len(calls) != 1:
                raise ExtractError("run-time arm %s/%d: expected exactly one arithmetic call, found %s" % (name, arity, calls))
            rows.append((name, arity, calls[0][0], calls[0][1], [fetch[i + 1] for i in range(arity)]))
    keys = [(r[0], r[1]) for r in rows]
    if len(keys) != len(set(keys)):
        raise ExtractError("duplicate run-time arm")
    return sorted(rows)


# ---------------------------------------------------------------- comparison instructions (C04)

def cmp_instr_table(repo):
    """{instruction name: sorted list of accepted Orderings} for the 24 number-comparison instructions."""
    disp = read(repo, "src/machine/dispatch.rs")
    out = {}
    rx = re.compile(r"Instruction::((?:Default)?(?:Call|Execute)Number\w+)\(at_1, at_2\)\s*=>\s*\{")
    for m in rx.finditer(disp):
        name = m.group(1)
        i = disp.index("{", m.end() - 1)
        depth, j = 0, i
        while True:
            if disp[j] == "{":
                depth += 1
            elif disp[j] == "}":
                depth -= 1
                if depth == 0:
                    break
            j += 1
        body = disp[i:j]
        if "n1.cmp(&n2)" not in body or body.count("get_number(at_1)") != 1 or body.count("get_number(at_2)") != 1:
            raise ExtractError("%s: unexpected body" % name)
        arms = re.findall(r"((?:Ordering::\w+\s*\|?\s*)+|_)\s*=>\s*\{([^}]*)\}", body[body.index("n1.cmp(&n2)"):])
        acc, seen = set(), set()
        for pat, act in arms:
            ords = set(re.findall(r"Ordering::(\w+)", pat)) if pat.strip() != "_" else {"Less", "Equal", "Greater"} - seen
            seen |= ords
            succeed = "backtrack" not in act
            if succeed and not ("self.machine_st.p += 1" in act or "self.machine_st.p = self.machine_st.cp" in act):
                raise ExtractError("%s: success arm without continuation" % name)
            if succeed:
                acc |= ords
        if name in out and out[name] != sorted(acc):
            raise ExtractError("%s defined twice differently" % name)
        out[name] = sorted(acc)
    return out


# ---------------------------------------------------------------- Lean output

def lean_str(s):
    return '"' + s.replace("\\", "\\\\").replace('"', '\\"') + '"'


def lean_rows(rows):
    return "[\n" + ",\n".join(
        "  ⟨%s, %d, %s, [%s], [%s]⟩" % (lean_str(n), a, lean_str(f), ", ".join(map(str, o)), ", ".join(lean_str(x) for x in k))
        for n, a, f, o, k in rows) + "]"


def render(ct, mt):
    return """import ScryerModel.Model.ArithEval
/- GENERATED by extract/evaltables.py from /repo's current source — do not edit.
   compiledTable: src/arithmetic.rs (push_literal, get_unary_instr, get_binary_instr) composed with
                  src/machine/dispatch.rs (instruction dispatch, *_instr functions)
   metaTable:     src/machine/arithmetic_ops.rs arith_eval_by_metacall
   row = functor, arity, arithmetic_ops function, argument order, operand fetch kinds -/
namespace Scryer.Extracted
open Scryer.ArithEval

def compiledTable : Table := %s

def metaTable : Table := %s

end Scryer.Extracted
""" % (lean_rows(ct), lean_rows(mt))


CMP_OPS = {"LessThan": "lt", "LessThanOrEqual": "le", "GreaterThan": "gt", "GreaterThanOrEqual": "ge",
           "Equal": "eq", "NotEqual": "ne"}
CMP_VARIANTS = {"Call": "call", "Execute": "execute", "DefaultCall": "defaultCall", "DefaultExecute": "defaultExecute"}
ORD = {"Less": ".lt", "Equal": ".eq", "Greater": ".gt"}


def render_cmp(tbl):
    rows = []
    for name, accepted in sorted(tbl.items()):
        m = re.fullmatch(r"(Default)?(Call|Execute)Number(\w+)", name)
        if not m or m.group(3) not in CMP_OPS:
            raise ExtractError("unknown comparison instruction " + name)
        rows.append("  (.%s, .%s, [%s])  -- %s" % (CMP_VARIANTS[(m.group(1) or "") + m.group(2)], CMP_OPS[m.group(3)],
                                                ", ".join(ORD[o] for o in accepted), name))
    body = "\n".join(r.replace(")  --", "),  --", 1) if i + 1 < len(rows) else r for i, r in enumerate(rows))
    return """import ScryerModel.Model.NumCmp
/- GENERATED by extract/evaltables.py from /repo's current source — do not edit.
   the number-comparison instructions of src/machine/dispatch.rs (instruction variant, operator) and the
   `Ordering`s of `n1.cmp(&n2)` on which each of them succeeds -/
namespace Scryer.Extracted
open Scryer.NumCmp

def cmpInstrTable : List (Variant × CmpOp × List Ordering) := [
%s
  ]

end Scryer.Extracted
""" % body


def write_if_changed(path, text):
    os.makedirs(os.path.dirname(path), exist_ok=True)
    old = open(path).read() if os.path.exists(path) else None
    if old != text:
        with open(path, "w") as fh:
            fh.write(text)
        return True
    return False


def main():
    repo = sys.argv[1] if len(sys.argv) > 1 else "/repo"
    out = sys.argv[2] if len(sys.argv) > 2 else DEFAULT_OUT
    ct, mt = compiled_table(repo), meta_table(repo)
    changed = write_if_changed(out, render(ct, mt))
    print(json.dumps({"compiled_rows": len(ct), "meta_rows": len(mt), "equal": ct == mt, "changed": changed,
                      "only_compiled": [r for r in ct if r not in mt], "only_meta": [r for r in mt if r not in ct]}, indent=1))


if __name__ == "__main__":
    main()
