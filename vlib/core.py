"""Orchestration shared by every property check.

./check Cxx [--tier quick|thorough] [--replay FILE] [--seed N]

Steps (DESIGN.md section 2): build harness from /repo's working tree, build the Lean
property module + model driver, audit axioms, replay corpus, generate cases, run them
on the implementation (sv-harness) and on the model (modeldriver), judge, triage against
known_findings.json, write evidence/Cxx.json, print VIOLATION / KNOWN-FINDING lines.
"""
import fcntl
import hashlib
import importlib
import json
import os
import random
import re
import subprocess
import sys
import time

ROOT = os.path.dirname(os.path.dirname(os.path.abspath(__file__)))
BUILD = os.path.join(ROOT, "build")
LEAN = os.path.join(ROOT, "lean")
HARNESS = os.path.join(ROOT, "harness")
HARNESS_BIN = os.environ.get("SV_HARNESS_BIN") or os.path.join(BUILD, "target", "release", "sv-harness")
OUT_DIR = os.environ.get("SV_OUT_DIR") or ROOT   # evidence/ and replays/ go below this directory
DRIVER_BIN = None  # set per property by run_check (lean/.lake/build/bin/drv_<prop>)


def driver_bin(prop):
    return os.path.join(LEAN, ".lake", "build", "bin", "drv_" + prop)
ALLOWED_AXIOMS = {"propext", "Classical.choice", "Quot.sound"}
NCPU = os.cpu_count() or 4

TRUSTED_BASE_COMMON = [
    "Lean 4.33 kernel (lake build; leanchecker in thorough tier)",
    "axioms allowed: propext, Classical.choice, Quot.sound (audited with #print axioms on every property theorem)",
    "hand-written Lean model of the anchored code (ScryerModel/Model/*.lean)",
    "correspondence check: vlib generators + sv-harness (Rust, links /repo's current working tree) + modeldriver (compiled Lean model) + canonicalisation",
]


def log(*a):
    print(*a, file=sys.stderr, flush=True)


class Lock:
    def __init__(self, name):
        os.makedirs(BUILD, exist_ok=True)
        self.path = os.path.join(BUILD, name)

    def __enter__(self):
        self.f = open(self.path, "w")
        fcntl.flock(self.f, fcntl.LOCK_EX)
        return self

    def __exit__(self, *a):
        fcntl.flock(self.f, fcntl.LOCK_UN)
        self.f.close()


def env_offline():
    e = dict(os.environ)
    e["CARGO_NET_OFFLINE"] = "true"
    e["CARGO_TARGET_DIR"] = os.path.join(BUILD, "target")
    return e


def build_harness():
    """(Re)build sv-harness against /repo's current working tree. Returns (ok, seconds, msg)."""
    t0 = time.time()
    if os.environ.get("SV_HARNESS_BIN"):
        return True, 0.0, "using prebuilt harness " + HARNESS_BIN
    with Lock(".cargo.lock"):
        lockfile = os.path.join(HARNESS, "Cargo.lock")
        if not os.path.exists(lockfile):
            import shutil
            shutil.copy("/repo/Cargo.lock", lockfile)
        p = subprocess.run(
            [os.path.join(ROOT, "tools", "slot.py"), "cargo", "3", "--", "cargo", "build", "--release", "--offline"],
            cwd=HARNESS, env=env_offline(), stdout=subprocess.PIPE, stderr=subprocess.STDOUT, text=True,
        )
    return p.returncode == 0, time.time() - t0, p.stdout[-4000:]


def build_lean(targets):
    t0 = time.time()
    m = re.search(r"C\d\d", " ".join(targets))
    with Lock(".lake.lock." + (m.group(0) if m else "shared")):
        p = subprocess.run(["lake", "build"] + targets, cwd=LEAN, stdout=subprocess.PIPE,
                           stderr=subprocess.STDOUT, text=True)
    return p.returncode == 0, time.time() - t0, p.stdout[-6000:]


THEOREM_RE = re.compile(r"^\s*(?:@\[[^\]]*\]\s*)?theorem\s+([A-Za-z_][\w'.]*)", re.M)


def property_theorems(prop):
    path = os.path.join(LEAN, "ScryerModel", "Props", prop + ".lean")
    src = open(path).read()
    # strip block comments
    src_nc = re.sub(r"/-.*?-/", "", src, flags=re.S)
    src_nc = re.sub(r"--.*", "", src_nc)
    # follow `namespace X` / `end X` so that a file with several namespaces is audited correctly
    stack, out = [], []
    for line in src_nc.split("\n"):
        m = re.match(r"^namespace\s+(\S+)", line)
        if m:
            stack.append(m.group(1))
            continue
        m = re.match(r"^end\s+(\S+)", line)
        if m and stack and stack[-1] == m.group(1):
            stack.pop()
            continue
        m = THEOREM_RE.match(line)
        if m:
            out.append(".".join(stack + [m.group(1)]))
    return out, src


def forbidden_tokens(prop):
    """grep the property file's import closure (inside ScryerModel) for forbidden constructs."""
    seen, todo, hits = set(), ["ScryerModel.Props." + prop], []
    while todo:
        m = todo.pop()
        if m in seen:
            continue
        seen.add(m)
        path = os.path.join(LEAN, *m.split(".")) + ".lean"
        if not os.path.exists(path):
            continue
        src = open(path).read()
        for imp in re.findall(r"^import\s+(ScryerModel\.\S+)", src, flags=re.M):
            todo.append(imp)
        nc = re.sub(r"/-.*?-/", "", src, flags=re.S)
        nc = re.sub(r"--.*", "", nc)
        for pat in [r"\bsorry\b", r"\badmit\b", r"^\s*axiom\s", r"native_decide", r"bv_decide",
                    r"implemented_by", r"\bunsafe\s", r"maxHeartbeats\s+0\b"]:
            if re.search(pat, nc, flags=re.M):
                hits.append((m, pat))
    return sorted(seen), hits


def audit_axioms(prop, theorems):
    """Runs #print axioms on every property theorem. Returns dict name -> list of axioms (or None)."""
    os.makedirs(os.path.join(BUILD, "audit"), exist_ok=True)
    f = os.path.join(BUILD, "audit", prop + "_axioms.lean")
    with open(f, "w") as fh:
        fh.write("import ScryerModel.Props.%s\n" % prop)
        for t in theorems:
            fh.write("#print axioms %s\n" % t)
    p = subprocess.run(["lake", "env", "lean", f], cwd=LEAN, stdout=subprocess.PIPE,
                       stderr=subprocess.STDOUT, text=True)
    out = p.stdout
    res = {}
    # messages: "'name' depends on axioms: [a, b]" or "'name' does not depend on any axioms"
    for m in re.finditer(r"'([^']+)' depends on axioms: \[([^\]]*)\]", out, flags=re.S):
        res[m.group(1)] = [a.strip() for a in m.group(2).replace("\n", " ").split(",") if a.strip()]
    for m in re.finditer(r"'([^']+)' does not depend on any axioms", out):
        res[m.group(1)] = []
    return res, out, p.returncode


def run_lines(binary, lines, env=None, timeout=3600):
    """Feeds lines to a line-protocol process; returns (dict id->result, crashed_after_id or None)."""
    data = "\n".join(lines) + "\n"
    e = dict(os.environ)
    if env:
        e.update(env)
    p = subprocess.run([binary], input=data, stdout=subprocess.PIPE, stderr=subprocess.PIPE,
                       text=True, env=e, timeout=timeout, errors="replace")
    out = {}
    order = []
    for l in p.stdout.split("\n"):
        if not l:
            continue
        i, _, r = l.partition("\t")
        out[i] = r
        order.append(i)
    return out, p.returncode, p.stderr[-2000:]


def line_id(line):
    f = line.split("\t")
    return f[1] if len(f) > 1 else "?"


def run_impl(lines, env=None):
    """Runs implementation lines; if the harness dies (abort / stack overflow), marks the line that
    killed it as `abort(<signal>)` and continues with the rest on a fresh process."""
    results = {}
    rest = list(lines)
    guard = 0
    while rest:
        out, rc, err = run_lines(HARNESS_BIN, rest, env=env)
        results.update(out)
        if rc == 0:
            break
        # find first line without output
        idx = None
        for k, l in enumerate(rest):
            if line_id(l) not in out:
                idx = k
                break
        if idx is None:
            break
        results[line_id(rest[idx])] = "abort(rc=%d)" % rc
        rest = rest[idx + 1:]
        guard += 1
        if guard > 50:
            for l in rest:
                results[line_id(l)] = "skipped(too many aborts)"
            break
    return results


def run_impl_parallel(cases, env=None, jobs=None):
    """cases: list of lists of lines (each case is run contiguously on one process)."""
    jobs = jobs or int(os.environ.get("SV_JOBS") or min(NCPU, 12))
    if len(cases) < 4 * jobs:
        jobs = max(1, len(cases) // 4)
    chunks = [[] for _ in range(jobs)]
    for i, c in enumerate(cases):
        chunks[i % jobs].extend(c)
    from concurrent.futures import ThreadPoolExecutor
    res = {}
    with ThreadPoolExecutor(max_workers=jobs) as ex:
        for r in ex.map(lambda ch: run_impl(ch, env=env) if ch else {}, chunks):
            res.update(r)
    return res


def run_model(lines, prop=None):
    out, rc, err = run_lines(driver_bin(prop) if prop else DRIVER_BIN, lines)
    if rc != 0:
        raise RuntimeError("modeldriver failed rc=%s: %s" % (rc, err))
    return out


# ---------------------------------------------------------------- findings

def load_known():
    p = os.path.join(ROOT, "known_findings.json")
    if not os.path.exists(p):
        return []
    return json.load(open(p)).get("findings", [])


def match_known(prop, sig, known):
    """sig: dict of str->str describing the failing case. A known entry matches when every key of
    its `signature` is present in sig and the regex fullmatches."""
    for k in known:
        if k.get("property") != prop or k.get("status") != "open":
            continue
        ok = True
        for key, rx in k.get("signature", {}).items():
            v = sig.get(key)
            if v is None or re.fullmatch(rx, str(v)) is None:
                ok = False
                break
        if ok:
            return k
    return None


class Finding:
    """A failing case. kind: 'violation' (implementation breaks the property's oracle on a concrete
    input), 'disagreement' (model and implementation differ but the oracle is not broken: the
    correspondence no longer checks), 'obligation' (a theorem no longer checks)."""

    def __init__(self, kind, sig, detail, case=None):
        self.kind = kind
        self.sig = sig
        self.detail = detail
        self.case = case


def write_replay(prop, n, payload):
    d = os.path.join(OUT_DIR, "replays", prop)
    os.makedirs(d, exist_ok=True)
    p = os.path.join(d, "%03d.json" % n)
    with open(p, "w") as fh:
        json.dump(payload, fh, indent=1, sort_keys=True)
    return p


# ---------------------------------------------------------------- main

def load_prop(prop):
    return importlib.import_module("vlib.props." + prop)


def main(argv=None):
    argv = list(sys.argv[1:] if argv is None else argv)
    if not argv:
        print("usage: check Cxx [--tier quick|thorough] [--seed N] [--replay FILE]")
        sys.exit(2)
    prop = argv.pop(0)
    tier = os.environ.get("VERIF_TIER", "quick")
    seed = int(os.environ.get("VERIF_SEED", "1") or 1)
    replay = None
    while argv:
        a = argv.pop(0)
        if a == "--tier":
            tier = argv.pop(0)
        elif a == "--seed":
            seed = int(argv.pop(0))
        elif a == "--replay":
            replay = argv.pop(0)
    if tier not in ("quick", "thorough"):
        tier = "quick"
    sys.exit(run_check(prop, tier, seed, replay))


def run_check(prop, tier, seed, replay=None):
    t0 = time.time()
    mod = load_prop(prop)
    rng = random.Random((seed * 1000003) ^ int(hashlib.sha1(prop.encode()).hexdigest()[:8], 16))
    global DRIVER_BIN
    DRIVER_BIN = driver_bin(prop)
    os.makedirs(os.path.join(OUT_DIR, "evidence"), exist_ok=True)
    evidence_path = os.path.join(OUT_DIR, "evidence", prop + ".json")
    if os.path.exists(evidence_path) and not replay:
        os.remove(evidence_path)
    if not replay:
        import glob
        for old in glob.glob(os.path.join(OUT_DIR, "replays", prop, "*.json")):
            os.remove(old)

    findings = []
    notes = []

    # 1. build implementation harness from /repo's working tree
    ok, secs, msg = build_harness()
    log("[%s] cargo build: %s in %.1fs" % (prop, "ok" if ok else "FAILED", secs))
    if not ok:
        log(msg)
        print("BUILD-FAILED property=%s (the tree under /repo does not compile with the harness)" % prop)
        return 2

    # 2. extractors (translator slices), if the property has them
    if hasattr(mod, "extract"):
        for f in mod.extract():
            if f:
                findings.append(f)

    # 3. Lean: property theorems + driver
    lean_ok, lsecs, lmsg = build_lean(["ScryerModel.Props." + prop, "drv_" + prop])
    log("[%s] lake build: %s in %.1fs" % (prop, "ok" if lean_ok else "FAILED", lsecs))
    theorems, _src = property_theorems(prop)
    closure, hits = forbidden_tokens(prop)
    obligations = len(theorems)
    discharged = 0
    axioms_seen = set()
    bad_theorems = []
    if lean_ok:
        ax, axout, axrc = audit_axioms(prop, theorems)
        for t in theorems:
            a = ax.get(t)
            if a is None:
                bad_theorems.append((t, "not found by #print axioms"))
            elif not set(a) <= ALLOWED_AXIOMS:
                bad_theorems.append((t, "axioms " + ",".join(sorted(set(a) - ALLOWED_AXIOMS))))
            else:
                discharged += 1
                axioms_seen |= set(a)
        if hits:
            bad_theorems.append(("closure", "forbidden constructs: %r" % (hits,)))
    else:
        log(lmsg)
        # which theorems fail? report the build log tail
        bad_theorems.append(("lake build ScryerModel.Props." + prop, lmsg[-1500:]))
        # the driver may still be buildable for the failing-input search
        d_ok, _, _ = build_lean(["drv_" + prop])
        if not d_ok and not os.path.exists(DRIVER_BIN):
            print("VIOLATION property=%s replay=%s no-failing-input-found" % (
                prop, write_replay(prop, 0, {"broken_obligation": bad_theorems, "note": "model driver does not build"})))
            return 1
    if thorough_leanchecker(tier) and lean_ok:
        p = subprocess.run(["lake", "env", "leanchecker", "ScryerModel.Props." + prop], cwd=LEAN,
                           stdout=subprocess.PIPE, stderr=subprocess.STDOUT, text=True)
        notes.append("leanchecker rc=%d" % p.returncode)
        if p.returncode != 0:
            bad_theorems.append(("leanchecker", p.stdout[-1000:]))

    # 4. correspondence: corpus first, then generated
    ctx = {"tier": tier, "seed": seed, "rng": rng, "prop": prop, "replay": replay}
    stats = mod.run(ctx)  # returns dict with evaluations, distinct_nontrivial, samples, findings, ...
    run_findings = stats.pop("findings", [])
    # Confirmation pass (flake filter): a finding is reported only if the same signature shows up
    # again when the whole run is repeated with the same seed in calm mode (few parallel workers,
    # long watchdog). A genuine failing input is deterministic for a given seed; a time-out or a
    # lost worker caused by machine load is not. Findings already listed as known are not affected.
    known0 = load_known()
    fresh = [f for f in run_findings
             if not (f.kind == "violation" and match_known(prop, f.sig, known0) is not None)]
    if fresh and not replay and os.environ.get("SV_NO_CONFIRM") is None:
        log("[%s] %d finding(s) in the first pass; confirmation pass (calm mode) ..." % (prop, len(fresh)))
        saved_env = {k: os.environ.get(k) for k in ("SV_JOBS", "SV_TIMEOUT_MS")}
        os.environ["SV_JOBS"] = "4"
        os.environ["SV_TIMEOUT_MS"] = str(max(60000, int(os.environ.get("SV_TIMEOUT_MS") or 0)))
        try:
            ctx2 = dict(ctx)
            ctx2["rng"] = random.Random((seed * 1000003) ^ int(hashlib.sha1(prop.encode()).hexdigest()[:8], 16))
            stats2 = mod.run(ctx2)
            again = stats2.pop("findings", [])
        finally:
            for k, v in saved_env.items():
                if v is None:
                    os.environ.pop(k, None)
                else:
                    os.environ[k] = v
        keys2 = {json.dumps(f.sig, sort_keys=True) for f in again}
        confirmed = [f for f in run_findings if json.dumps(f.sig, sort_keys=True) in keys2
                     or (f.kind == "violation" and match_known(prop, f.sig, known0) is not None)]
        dropped = len(run_findings) - len(confirmed)
        notes.append("confirmation pass: %d finding(s) in pass 1, %d in pass 2, %d not reproduced (dropped as load flakes)"
                     % (len(run_findings), len(again), dropped))
        stats["unconfirmed_findings_dropped"] = dropped
        run_findings = confirmed
    findings.extend(run_findings)

    # 5. a broken obligation with no failing input found by the correspondence
    known = load_known()
    exit_code = 0
    nrep = 0
    violations = 0
    lines_out = []
    have_concrete = any(f.kind == "violation" for f in findings)
    if bad_theorems:
        payload = {"property": prop, "broken_obligations": bad_theorems,
                   "note": "theorem(s) or axiom audit no longer check; see replay for names"}
        nrep += 1
        path = write_replay(prop, nrep, payload)
        if not have_concrete:
            lines_out.append("VIOLATION property=%s replay=%s no-failing-input-found" % (prop, path))
            exit_code = 1
            violations += 1
    seen_sigs = set()
    for f in findings:
        key = json.dumps(f.sig, sort_keys=True)
        k = match_known(prop, f.sig, known) if f.kind == "violation" else None
        if k is not None:
            if ("K", k["id"]) not in seen_sigs:
                seen_sigs.add(("K", k["id"]))
                lines_out.append("KNOWN-FINDING: property=%s %s" % (prop, k["what"]))
            continue
        if key in seen_sigs:
            continue
        seen_sigs.add(key)
        if len(seen_sigs) > 12:
            continue
        nrep += 1
        path = write_replay(prop, nrep, {"property": prop, "kind": f.kind, "signature": f.sig,
                                         "detail": f.detail, "case": f.case, "seed": seed, "tier": tier})
        violations += 1
        exit_code = 1
        if f.kind == "violation":
            lines_out.append("VIOLATION property=%s replay=%s" % (prop, path))
        else:
            lines_out.append("VIOLATION property=%s replay=%s no-failing-input-found" % (prop, path))

    wall = time.time() - t0
    cov = {
        "obligations": obligations,
        "discharged": discharged,
        "checker_cmd": "cd lean && lake build ScryerModel.Props.%s && lake env lean build/audit/%s_axioms.lean (#print axioms)" % (prop, prop),
        "trusted_base": TRUSTED_BASE_COMMON + getattr(mod, "TRUSTED_BASE", []) + ["axioms used: " + ", ".join(sorted(axioms_seen)) if axioms_seen else "axioms used: none"],
        "theorems": theorems,
        "lean_modules_in_closure": closure,
        "notes": notes,
    }
    cov.update(stats)
    # keep the schema-typed keys well-typed whatever a property module returned
    if not isinstance(cov.get("exhaustive", False), bool):
        cov["exhaustive_note"] = cov.pop("exhaustive")
    for k in ("evaluations", "distinct_nontrivial", "traces_validated_against_impl", "disagreements_checked",
              "states", "transitions", "programs"):
        if k in cov and not isinstance(cov[k], int):
            try:
                cov[k] = int(cov[k])
            except Exception:
                cov[k + "_note"] = cov.pop(k)
    if isinstance(cov.get("evaluations"), int) and isinstance(cov.get("distinct_nontrivial"), int) \
            and cov["distinct_nontrivial"] > cov["evaluations"]:
        # the module counted cases in `evaluations` and finer-grained items (pairs, routes, goals) in
        # `distinct_nontrivial`; every distinct item was evaluated, so the finer count is the honest floor
        cov["cases"] = cov["evaluations"]
        cov["evaluations"] = cov["distinct_nontrivial"]
    if not isinstance(cov.get("samples", []), list):
        cov["samples"] = [cov["samples"]]
    if not isinstance(cov.get("rule", ""), str):
        cov["rule"] = json.dumps(cov["rule"])
    ev = {
        "property_id": prop,
        "tier": tier,
        "seed": seed,
        # the evidence level must be the category claimed in MANIFEST.json (always "proof" for this
        # framework); a builder's "partial" qualifier is recorded separately
        "level": "proof",
        "level_qualifier": getattr(mod, "LEVEL", "proof"),
        "coverage": cov,
        "assumptions": getattr(mod, "ASSUMPTIONS", []),
        "wall_s": round(wall, 2),
        "violations": violations,
    }
    if not replay:
        with open(evidence_path, "w") as fh:
            json.dump(ev, fh, indent=1)
    for l in lines_out:
        print(l)
    log("[%s] %s tier=%s evaluations=%s distinct_nontrivial=%s obligations=%d/%d wall=%.1fs" % (
        prop, "OK" if exit_code == 0 else "VIOLATION", tier, cov.get("evaluations"), cov.get("distinct_nontrivial"),
        discharged, obligations, wall))
    return exit_code


def thorough_leanchecker(tier):
    return tier == "thorough" and os.environ.get("SV_NO_LEANCHECKER") is None
