"""Integer expression trees shared by C01/C03/C05: generation, Prolog rendering, model
(prefix) rendering, and a Python big-int reference used ONLY to bound result sizes (so the
implementation is never asked to build a 2^64-bit number) and as a third opinion."""
import math

FIX_MIN, FIX_MAX = -(2 ** 55), 2 ** 55 - 1
BOUND = [0, 1, -1, 2, -2, 3, -3, 7, -8, 10, 255,
         2 ** 31 - 1, 2 ** 31, -(2 ** 31), -(2 ** 31) - 1, 2 ** 32, 2 ** 32 + 1,
         2 ** 55 - 1, 2 ** 55, 2 ** 55 + 1, -(2 ** 55) + 1, -(2 ** 55), -(2 ** 55) - 1,
         2 ** 56, -(2 ** 56), 2 ** 62, -(2 ** 62), 2 ** 63 - 1, 2 ** 63, 2 ** 63 + 1,
         -(2 ** 63) + 1, -(2 ** 63), -(2 ** 63) - 1, 2 ** 64 - 1, 2 ** 64, 2 ** 64 + 1,
         -(2 ** 64), -(2 ** 64) - 1, 2 ** 70, -(2 ** 70), 10 ** 20, -(10 ** 20)]
SHIFTS = [0, 1, 2, 7, 8, 31, 32, 54, 55, 56, 62, 63, 64, 65, 70, 127, 128, 200,
          2 ** 31, 2 ** 32 - 1, 2 ** 32, 2 ** 63, 2 ** 64 - 1, 2 ** 64, 2 ** 64 + 5]
UN = ["neg", "abs", "sign", "bnot", "plus"]
BIN = ["add", "sub", "mul", "idiv", "div", "mod", "rem", "gcd", "min", "max", "pow", "shl",
       "shr", "band", "bor", "bxor"]
PL_BIN = {"add": "+", "sub": "-", "mul": "*", "idiv": "//", "div": "div", "mod": "mod",
          "rem": "rem", "pow": "^", "shl": "<<", "shr": ">>", "band": "/\\", "bor": "\\/"}
PL_FUN = {"gcd": "gcd", "min": "min", "max": "max", "bxor": "xor"}
PL_UN = {"neg": "-", "abs": "abs", "sign": "sign", "bnot": "\\", "plus": "+"}
MAXBITS = 1500


class TooBig(Exception):
    pass


class EvalErr(Exception):
    def __init__(self, kind):
        self.kind = kind


def tdiv(a, b):
    q = abs(a) // abs(b)
    return q if (a >= 0) == (b >= 0) else -q


def ref_eval(e, trace=None):
    """Python reference (exact). Raises TooBig when a value would exceed MAXBITS."""
    if isinstance(e, int):
        v = e
    elif len(e) == 2:
        op, x = e
        a = ref_eval(x, trace)
        v = {"neg": -a, "abs": abs(a), "sign": (a > 0) - (a < 0), "bnot": -a - 1, "plus": a}[op]
    else:
        op, x, y = e
        a = ref_eval(x, trace)
        b = ref_eval(y, trace)
        if op == "add":
            v = a + b
        elif op == "sub":
            v = a - b
        elif op == "mul":
            v = a * b
        elif op in ("idiv", "div", "mod", "rem"):
            if b == 0:
                raise EvalErr("err zero_divisor")
            if op == "idiv":
                v = tdiv(a, b)
            elif op == "div":
                v = a // b
            elif op == "mod":
                v = a % b
            else:
                v = a - b * tdiv(a, b)
        elif op == "gcd":
            v = math.gcd(a, b)
        elif op == "min":
            v = min(a, b)
        elif op == "max":
            v = max(a, b)
        elif op == "pow":
            if a == 0 and b < 0:
                raise EvalErr("err undefined")
            if b < 0 and a not in (1, -1):
                raise EvalErr("err type_float %d" % a)
            n = abs(b)
            if a in (0, 1, -1):
                v = a ** (n % 2 + 2) if n > 0 else 1
            else:
                if n * a.bit_length() > MAXBITS:
                    raise TooBig()
                v = a ** n
        elif op in ("shl", "shr"):
            left = (op == "shl") == (b >= 0)
            n = abs(b)
            if left:
                if a != 0 and n + a.bit_length() > MAXBITS:
                    raise TooBig()
                v = 0 if a == 0 else a << n
            else:
                v = (a >> n) if n < 100000 else (-1 if a < 0 else 0)
        elif op == "band":
            v = a & b
        elif op == "bor":
            v = a | b
        elif op == "bxor":
            v = a ^ b
        else:
            raise ValueError(op)
    if v.bit_length() > MAXBITS:
        raise TooBig()
    if trace is not None:
        trace.append(v)
    return v


def to_prolog(e):
    if isinstance(e, int):
        return str(e) if e >= 0 else "(%d)" % e
    if len(e) == 2:
        op, x = e
        f = PL_UN[op]
        if op in ("neg", "plus", "bnot"):
            return "%s(%s)" % (f, to_prolog(x)) if not isinstance(x, int) else "%s(%s)" % (f, to_prolog(x))
        return "%s(%s)" % (f, to_prolog(x))
    op, x, y = e
    if op in PL_FUN:
        return "%s(%s,%s)" % (PL_FUN[op], to_prolog(x), to_prolog(y))
    return "(%s %s %s)" % (to_prolog(x), PL_BIN[op], to_prolog(y))


def to_model(e):
    if isinstance(e, int):
        return str(e)
    if len(e) == 2:
        return "( %s %s )" % (e[0], to_model(e[1]))
    return "( %s %s %s )" % (e[0], to_model(e[1]), to_model(e[2]))


def rand_leaf(rng):
    r = rng.random()
    if r < 0.55:
        v = rng.choice(BOUND)
        if rng.random() < 0.3:
            v += rng.choice([-2, -1, 1, 2])
        return v
    if r < 0.75:
        return rng.randint(-20, 20)
    if r < 0.9:
        bits = rng.choice([30, 54, 55, 56, 60, 63, 64, 65, 100, 200, 300])
        v = rng.getrandbits(bits)
        return -v if rng.random() < 0.5 else v
    k = rng.choice([31, 32, 54, 55, 56, 62, 63, 64, 65, 70, 128])
    v = 2 ** k + rng.choice([-1, 0, 0, 1])
    return -v if rng.random() < 0.5 else v


def rand_expr(rng, depth):
    if depth == 0 or rng.random() < 0.15:
        return rand_leaf(rng)
    if rng.random() < 0.18:
        return (rng.choice(UN), rand_expr(rng, depth - 1))
    op = rng.choice(BIN)
    l = rand_expr(rng, depth - 1)
    if op in ("shl", "shr"):
        if rng.random() < 0.8:
            r = rng.choice(SHIFTS) + rng.choice([0, 0, 0, 1, -1])
            if rng.random() < 0.3:
                r = -r
        else:
            r = rand_expr(rng, depth - 1)
    elif op == "pow":
        if rng.random() < 0.8:
            r = rng.choice([0, 1, 2, 3, 5, 10, 31, 32, 54, 55, 56, 62, 63, 64, 65, -1, -2, 2 ** 32, 2 ** 64, -(2 ** 64) - 1])
        else:
            r = rand_expr(rng, depth - 1)
    else:
        r = rand_expr(rng, depth - 1)
    return (op, l, r)


def size(e):
    if isinstance(e, int):
        return 1
    return 1 + sum(size(x) for x in e[1:])


def gen_bounded(rng, depth):
    """Returns (expr, ref_result_text, trace) with every intermediate within MAXBITS."""
    for _ in range(200):
        e = rand_expr(rng, depth)
        if isinstance(e, int):
            continue
        tr = []
        try:
            v = ref_eval(e, tr)
            return e, "ok %d" % v, tr
        except EvalErr as x:
            return e, x.kind, tr
        except TooBig:
            continue
    return ("add", 1, 1), "ok 2", [1, 1, 2]


def nontrivial(e, ref, trace):
    """an expression is non-trivial when some leaf/intermediate leaves the 56-bit fixnum range or
    the evaluation ends in an error."""
    if ref.startswith("err"):
        return True
    return any(v < FIX_MIN or v > FIX_MAX for v in trace)


def canon_impl_answer(res):
    """maps the harness result of `catch(X is E, error(Err,_), true)` to `ok N` / `err kind`."""
    import re
    m = re.fullmatch(r"\{X=(-?\d+)\}", res)
    if m:
        return "ok " + m.group(1)
    m = re.fullmatch(r"\{Err='evaluation_error'\('(\w+)'\)\}", res)
    if m:
        return "err " + m.group(1)
    m = re.fullmatch(r"\{Err='type_error'\('float',(-?\d+)\)\}", res)
    if m:
        return "err type_float " + m.group(1)
    return "other " + res
