"""Generic differential runner: cases with implementation lines and model lines."""
import glob
import json
import os

from . import core


def load_corpus(prop):
    d = os.path.join(core.ROOT, "corpus", prop)
    cases = []
    for p in sorted(glob.glob(os.path.join(d, "*.json"))):
        try:
            c = json.load(open(p))
        except Exception:
            continue
        if isinstance(c, dict) and "case" in c:
            c = c["case"]
        if isinstance(c, dict):
            c["corpus"] = os.path.basename(p)
            cases.append(c)
        elif isinstance(c, list):
            for x in c:
                x["corpus"] = os.path.basename(p)
                cases.append(x)
    return cases


def run_cases(cases, impl_env=None, parallel=True):
    """cases: list of dicts with 'impl' (list of lines) and optional 'model' (list of lines).
    Returns (impl_results, model_results): dict id -> result text."""
    impl_cases = [c["impl"] for c in cases if c.get("impl")]
    model_lines = [l for c in cases for l in c.get("model", [])]
    if parallel:
        impl = core.run_impl_parallel(impl_cases, env=impl_env)
    else:
        impl = core.run_impl([l for c in impl_cases for l in c], env=impl_env)
    model = core.run_model(model_lines) if model_lines else {}
    return impl, model


def replay_case(ctx):
    """If ctx['replay'] is set, load the case(s) stored in the replay file."""
    p = ctx.get("replay")
    if not p:
        return None
    d = json.load(open(p))
    c = d.get("case")
    if c is None:
        return []
    return c if isinstance(c, list) else [c]
