"""C13 — compare/3 implements the standard order of terms.

Abstract terms are generated in Python together with a *representation* for every list-like
node (string literal / partial string / run-time built list cells / a `'.'/2` structure cell /
a misaligned string tail / a multi-segment string).  Each case is rendered twice: as Prolog
text that builds the terms on the heap of the real system and runs compare/3, ==, \\==, @<,
@=<, @>, @>= (call and execute forms, counted and Default* instruction variants), sort/2, keysort/2 on them; and in the harness' canonical
term syntax for the Lean model driver (drv_C13), where all representations collapse into the
one term they denote.  Variables are ordered as the implementation itself orders them in the
same query (their pairwise compare/3 answers are read back and must form a strict total order);
everything else is fixed by the property statement, so any difference is a violation.
"""
import json
import struct

from .. import core, diff

LEVEL = "proof"
TRUSTED_BASE = [
    "vlib/props/C13.py renders one abstract term twice (Prolog text / canonical text for the model); a per-term render check compares the term the implementation printed back with the model's reading of the canonical text and discards (and counts) cases where they differ",
    "helper predicates c13_* consulted into module user (plain Prolog wrappers around compare/3, ==, \\==, @<, @=<, @>, @>=, sort/2, keysort/2)",
    "Drv/TermIO.lean reader/printer of the canonical term syntax; Drv/C13.lean insertion sort used for the sort/keysort oracle (sorting itself is C14's subject; here it only turns termCompare into an expected list)",
    "the order of distinct variables is taken from the implementation's own answers in the same query (the statement leaves it open); only its being a strict total order and its use inside compound terms is checked",
]
ASSUMPTIONS = [
    "terms are finite trees (no cyclic terms), no attributed variables",
    "-0.0, NaN and the infinities cannot be constructed through read/is in this system, so the float caveats of the model are not exercised",
    "multi-segment / offset partial strings are generated in a dedicated, budgeted family (pstrseg) because the open finding C13-2 crashes the process on them",
]

# ------------------------------------------------------------------ pools

ATOMS = ["a", "b", "c", "z", "aa", "ab", "abc", "abd", "b0", "A", "Z", "_x", "", "[]", "{}", ".", "'", "\\",
         " ", "a b", "\t", "\x7f", "0", "9", "é", "è", "ÿ", "\u0100", "\u07ff", "\u0800", "€", "\u20ad", "\ufffd",
         "\U00010000", "\U0001f600", "\U0001f601", "\U0010ffff", "aé", "az", "a\U00010000", "a\ufffd", "éa", "zz",
         "foo", "fop", "fo", "f", "g", "-", "+", "point", "[a]"]
CHARS = list("abcdxyz019 AZ_") + ["é", "è", "ÿ", "\u0100", "\u07ff", "\u0800", "€", "\u20ad", "\ufffd", "\U00010000",
                                  "\U0001f600", "\U0001f601", "'", '"', "\\", "."]
FUNCTORS = ["f", "g", "foo", "fop", "a", "b", "-", "+", "é", "\U00010000", "\ufffd", "[]", "{}", "point", "F"]
INTS = [0, 1, -1, 2, -2, 3, 7, 10, 255, 2 ** 31, 2 ** 55 - 1, 2 ** 55, 2 ** 55 + 1, -(2 ** 55), -(2 ** 55) - 1,
        2 ** 62, 2 ** 63 - 1, 2 ** 63, -(2 ** 63), -(2 ** 63) - 1, 2 ** 64, 2 ** 64 + 1, -(2 ** 64), 2 ** 70,
        10 ** 20, -(10 ** 20), 2 ** 128, 2 ** 200 + 1, -(2 ** 200)]
RATS = [(1, 2), (-1, 2), (1, 3), (2, 3), (7, 2), (-7, 2), (22, 7), (355, 113), (1, 2 ** 64), (2 ** 70 + 1, 2),
        (-(2 ** 70) - 1, 2), (10 ** 20 + 1, 10 ** 20), (2 ** 55 * 2 + 1, 2), (3, 2), (5, 2), (1, 10 ** 30)]


def f2b(x):
    return struct.unpack(">Q", struct.pack(">d", x))[0]


def b2f(b):
    return struct.unpack(">d", struct.pack(">Q", b))[0]


FLTS = [f2b(x) for x in [0.0, 1.0, -1.0, 2.0, 0.5, 0.1, 0.2, 0.30000000000000004, 0.3, 1e22, -1e22, 1e-5, 5e-324,
                         -5e-324, 2.2250738585072014e-308, 1.7976931348623157e308, -1.7976931348623157e308,
                         3.0, 2 ** 53 + 0.0, 2 ** 63 + 0.0, 1.0000000000000002, 0.9999999999999999, 1e100, 255.0]]

# ------------------------------------------------------------------ abstract terms
# ('var', i) ('int', v) ('rat', n, d) ('flt', bits) ('atom', s) ('cmp', f, [args])
# ('lst', [elems], tail, mode)     mode: lit | lis | dot
# ('chs', text, tail, mode)        mode: pstr | lit | lis | dot
# ('seg', [texts], tail, prefix)   multi-segment partial string, `prefix` chars dropped from the
#                                  front at run time (misaligned PStrLoc); pstrseg family only
NIL = ("atom", "[]")


def qatom(s):
    """canonical quoted atom text (harness/canon.rs)"""
    if s == "[]":
        return "[]"
    out = ["'"]
    for c in s:
        o = ord(c)
        if c == "\\":
            out.append("\\\\")
        elif c == "'":
            out.append("\\'")
        elif o < 0x20 or o == 0x7f:
            out.append("\\x%x\\" % o)
        else:
            out.append(c)
    out.append("'")
    return "".join(out)


def patom(s):
    """Prolog source text of an atom (always quoted; [] as the empty-list token)."""
    if s == "[]":
        return "[]"
    return qatom(s)


def to_model(t, rank):
    k = t[0]
    if k == "var":
        return "V%d" % rank[t[1]]
    if k == "int":
        return str(t[1])
    if k == "rat":
        return "r(%d,%d)" % (t[1], t[2])
    if k == "flt":
        return "f(%016x)" % t[1]
    if k == "atom":
        return qatom(t[1])
    if k == "cmp":
        return "'%s'(%s)" % (qatom(t[1])[1:-1] if t[1] != "[]" else "[]", ",".join(to_model(a, rank) for a in t[2]))
    if k == "lst":
        r = to_model(t[2], rank)
        for e in reversed(t[1]):
            r = "'.'(%s,%s)" % (to_model(e, rank), r)
        return r
    if k == "chs":
        r = to_model(t[2], rank)
        for c in reversed(t[1]):
            r = "'.'(%s,%s)" % (qatom(c), r)
        return r
    if k == "seg":
        r = to_model(t[2], rank)
        for c in reversed("".join(t[1])):
            r = "'.'(%s,%s)" % (qatom(c), r)
        return r
    if k == "share":
        return to_model(t[2], rank)
    raise ValueError(k)


def pfloat(bits):
    x = b2f(bits)
    s = repr(x)
    if "e" in s:
        m, e = s.split("e")
        if "." not in m:
            m += ".0"
        s = m + "e" + e
    elif "." not in s:
        s += ".0"
    return s


def pstring(text):
    out = ['"']
    for c in text:
        o = ord(c)
        if c == "\\":
            out.append("\\\\")
        elif c == '"':
            out.append('\\"')
        elif o < 0x20 or o == 0x7f:
            out.append("\\x%x\\" % o)
        else:
            out.append(c)
    out.append('"')
    return "".join(out)


class Builder:
    """collects the goals that build run-time constructed subterms."""

    def __init__(self):
        self.goals = []
        self.n = 0
        self.need_dot = False
        self.shared = {}

    def fresh(self):
        self.n += 1
        return "B%d" % self.n

    def expr(self, t):
        k = t[0]
        if k == "share":
            # one physical subterm used in several places (also across the compared terms)
            if t[1] not in self.shared:
                e = self.expr(t[2])
                v = "S%d" % t[1]
                self.goals.append("%s = %s" % (v, e))
                self.shared[t[1]] = v
            return self.shared[t[1]]
        if k == "var":
            return "V%d" % t[1]
        if k == "int":
            return str(t[1]) if t[1] >= 0 else "(%d)" % t[1]
        if k == "rat":
            v = self.fresh()
            self.goals.append("%s is (%d) rdiv (%d)" % (v, t[1], t[2]))
            return v
        if k == "flt":
            s = pfloat(t[1])
            return s if not s.startswith("-") else "(%s)" % s
        if k == "atom":
            a = patom(t[1])
            if t[1] != "[]" and not (t[1].isascii() and t[1].isalnum()):
                a = "(%s)" % a          # operator atoms as operands must be bracketed
            return a
        if k == "cmp":
            f = t[1]
            name = "'[]'" if f == "[]" else qatom(f)
            return "%s(%s)" % (name, ",".join(self.expr(a) for a in t[2]))
        if k == "lst":
            elems, tail, mode = t[1], t[2], t[3]
            if not elems:
                return self.expr(tail)
            if mode == "lit":
                return "[%s|%s]" % (",".join(self.expr(e) for e in elems), self.expr(tail))
            if mode == "lis":
                v = self.fresh()
                self.goals.append("c13_lis([%s],%s,%s)" % (",".join(self.expr(e) for e in elems), self.expr(tail), v))
                return v
            if mode == "dot":
                self.need_dot = True
                r = self.expr(tail)
                if tail[0] == "atom" and not r.startswith("("):
                    r = "(%s)" % r
                for e in reversed(elems):
                    x = self.expr(e)
                    if e[0] == "atom" and not x.startswith("("):
                        x = "(%s)" % x
                    r = "(%s '.' %s)" % (x, r)
                return r
        if k == "chs":
            text, tail, mode = t[1], t[2], t[3]
            if not text:
                return self.expr(tail)
            if mode == "pstr":
                if tail == NIL:
                    return pstring(text)
                return "[%s|%s]" % (",".join(patom(c) for c in text), self.expr(tail))
            return self.expr(("lst", [("atom", c) for c in text], tail, mode))
        if k == "seg":
            segs, tail, prefix = t[1], t[2], t[3]
            # last segment first: S_n = "seg_n" with the final tail, S_i = [chars_i | S_{i+1}]
            cur = self.expr(tail)
            for i in range(len(segs) - 1, -1, -1):
                txt = segs[i] if i > 0 else prefix + segs[0]
                v = self.fresh()
                if cur == "[]":
                    self.goals.append("%s = %s" % (v, pstring(txt)))
                else:
                    self.goals.append("%s = [%s|%s]" % (v, ",".join(patom(c) for c in txt), cur))
                cur = v
            if prefix:
                v = self.fresh()
                self.goals.append("c13_drop(%d,%s,%s)" % (len(prefix), cur, v))
                cur = v
            return cur
        raise ValueError(k)


HELPERS = r"""
:- use_module(library(charsio)).
c13_go(Chars, R) :- read_term_from_chars(Chars, G, [variable_names(Vs)]), call(G), c13_pick(Vs, R).
c13_pick(Vs, R) :- c13_get('R', Vs, R).
c13_get(N, [M=V|Vs], R) :- ( N == M -> R = V ; c13_get(N, Vs, R) ).
c13_lis([], T, T).
c13_lis([E|Es], T, [X|L]) :- X = E, c13_lis(Es, T, L).
c13_drop(0, T, T).
c13_drop(K, [_|S], T) :- K > 0, K1 is K-1, c13_drop(K1, S, T).
c13_eq(A,B) :- A == B.
c13_ne(A,B) :- A \== B.
c13_lt(A,B) :- A @< B.
c13_le(A,B) :- A @=< B.
c13_gt(A,B) :- A @> B.
c13_ge(A,B) :- A @>= B.
c13_t(G,R) :- ( call(G) -> R = t ; R = f ).
c13_x(A,B,x(E,N,L,LE,G,GE)) :- c13_t(c13_eq(A,B),E), c13_t(c13_ne(A,B),N), c13_t(c13_lt(A,B),L),
    c13_t(c13_le(A,B),LE), c13_t(c13_gt(A,B),G), c13_t(c13_ge(A,B),GE).
c13_c(A,B,c(E,N,L,LE,G,GE)) :- ( A == B -> E = t ; E = f ), ( A \== B -> N = t ; N = f ),
    ( A @< B -> L = t ; L = f ), ( A @=< B -> LE = t ; LE = f ), ( A @> B -> G = t ; G = f ),
    ( A @>= B -> GE = t ; GE = f ).
c13_r(A,B,r(O,X,C,DX,DC)) :- compare(O,A,B), c13_x(A,B,X), c13_c(A,B,C), c13_dx(A,B,DX), c13_dc(A,B,DC).
:- non_counted_backtracking c13_deq/2.
:- non_counted_backtracking c13_dne/2.
:- non_counted_backtracking c13_dlt/2.
:- non_counted_backtracking c13_dle/2.
:- non_counted_backtracking c13_dgt/2.
:- non_counted_backtracking c13_dge/2.
:- non_counted_backtracking c13_dc/3.
c13_deq(A,B) :- A == B.
c13_dne(A,B) :- A \== B.
c13_dlt(A,B) :- A @< B.
c13_dle(A,B) :- A @=< B.
c13_dgt(A,B) :- A @> B.
c13_dge(A,B) :- A @>= B.
c13_dx(A,B,x(E,N,L,LE,G,GE)) :- c13_t(c13_deq(A,B),E), c13_t(c13_dne(A,B),N), c13_t(c13_dlt(A,B),L),
    c13_t(c13_dle(A,B),LE), c13_t(c13_dgt(A,B),G), c13_t(c13_dge(A,B),GE).
c13_dc(A,B,c(E,N,L,LE,G,GE)) :- ( A == B -> E = t ; E = f ), ( A \== B -> N = t ; N = f ),
    ( A @< B -> L = t ; L = f ), ( A @=< B -> LE = t ; LE = f ), ( A @> B -> G = t ; G = f ),
    ( A @>= B -> GE = t ; GE = f ).
c13_all([], _, []).
c13_all([A|As], Ts, Rs) :- c13_row(Ts, A, Rs, Rs1), c13_all(As, Ts, Rs1).
c13_row([], _, Rs, Rs).
c13_row([B|Bs], A, [R|Rs0], Rs) :- c13_r(A,B,R), c13_row(Bs, A, Rs0, Rs).
c13_vars([], []).
c13_vars([V|Vs], Os) :- c13_vrow(Vs, V, Os, Os1), c13_vars(Vs, Os1).
c13_vrow([], _, Os, Os).
c13_vrow([W|Ws], V, [O|Os0], Os) :- compare(O,V,W), c13_vrow(Ws, V, Os0, Os).
c13_f3(S1, r([], [R1, R2], [skip,skip], [])) :-
    c13_lis(S1, [], L2), c13_lis(S1, [z], L1), A = f(S1,L1), B = f(L2,L2),
    c13_r(A,B,R1), c13_r(B,A,R2).
c13_scan(Ns, R) :- ( c13_mem(N, Ns), c13_t3(N) -> R = found(N) ; R = none ).
c13_mem(X, [X|_]).
c13_mem(X, [_|Xs]) :- c13_mem(X, Xs).
c13_t3(N) :- X is 10^N-1, number_chars(X, S), c13_lis(S, [], L2), c13_lis(S, [z], L1), f(S,L1) == f(L2,L2).
c13_vals([], []).
c13_vals([_-V|Ps], [V|Vs]) :- c13_vals(Ps, Vs).
"""


def pesc(s):
    return s.replace("\\", "\\\\").replace("\n", "\\n").replace("\t", "\\t").replace("\r", "\\r")


LOAD_LINE_BODY = pesc(HELPERS.strip() + "\n")


def vars_of(t, acc):
    k = t[0]
    if k == "var":
        acc.add(t[1])
    elif k == "cmp":
        for a in t[2]:
            vars_of(a, acc)
    elif k == "lst":
        for a in t[1]:
            vars_of(a, acc)
        vars_of(t[2], acc)
    elif k in ("chs", "seg"):
        vars_of(t[2], acc)
    elif k == "share":
        vars_of(t[2], acc)
    return acc


def uses_mode(t, mode):
    k = t[0]
    if k == "share":
        return uses_mode(t[2], mode)
    if k == "cmp":
        return any(uses_mode(a, mode) for a in t[2])
    if k == "lst":
        return (t[3] == mode and bool(t[1])) or any(uses_mode(a, mode) for a in t[1]) or uses_mode(t[2], mode)
    if k == "chs":
        return (t[3] == mode and bool(t[1])) or uses_mode(t[2], mode)
    if k == "seg":
        return mode == "seg" or uses_mode(t[2], mode)
    return False


def unshare(t):
    while t[0] == "share":
        t = t[2]
    return t


def bad_tail(t):
    """the tail of a list cell is an atom other than [] (also through a shared subterm, and when
    an empty list-like node stands for its own tail)"""
    t = unshare(t)
    while t[0] in ("lst", "chs", "seg") and not (t[1] if t[0] != "seg" else "".join(t[1])):
        t = unshare(t[2])
    return t[0] == "atom" and t != NIL


def printable(t):
    """False if printing the term back through the library API would hit the (unrelated) panic
    on partial strings whose tail is an atom other than []."""
    k = t[0]
    if k == "cmp":
        if t[1] == "." and len(t[2]) == 2 and bad_tail(t[2][1]):
            return False          # '.'(H, atom) in functional notation is the same list cell
        return all(printable(a) for a in t[2])
    if k == "lst":
        return all(printable(a) for a in t[1]) and printable(t[2]) and not (t[1] and bad_tail(t[2]))
    if k in ("chs", "seg"):
        return printable(t[2]) and not bad_tail(t[2])
    if k == "share":
        return printable(t[2])
    return True


def make_case(cid, kind, terms, rng, extra=None):
    """kind: 'cmp' (all ordered pairs of `terms`), 'sort', 'ksort'.
    The goal is passed as text and read inside Prolog (read_term_from_chars), so only R is a
    query variable: R = r(VarOrders, Results, PrintedTerms)."""
    b = Builder()
    vs = sorted(set().union(*[vars_of(t, set()) for t in terms])) if terms else []
    hold = list(vs)
    rng.shuffle(hold)
    goals = []
    if hold:
        goals.append("H = h(%s)" % ",".join("V%d" % i for i in hold))
    exprs = [b.expr(t) for t in terms]
    goals.extend(b.goals)
    names = []
    for i, e in enumerate(exprs):
        names.append("T%d" % i)
        goals.append("T%d = %s" % (i, e))
    goals.append("c13_vars([%s], VO)" % ",".join("V%d" % i for i in vs))
    tl = "[%s]" % ",".join(names)
    if kind == "cmp":
        goals.append("c13_all(%s, %s, RS)" % (tl, tl))
    elif kind == "sort":
        goals.append("sort(%s, RS)" % tl)
    elif kind == "ksort":
        goals.append("keysort([%s], KS), c13_vals(KS, RS)" % ",".join("T%d-%d" % (i, i) for i in range(len(terms))))
    shown = [("T%d" % i if printable(t) else "skip") for i, t in enumerate(terms)]
    if kind == "sort" and not all(printable(t) for t in terms):
        return None
    goals.append("R = r(VO, RS, [%s], [%s])" % (",".join(shown), ",".join("V%d" % i for i in vs)))
    g = ", ".join(goals) + "."
    q = "c13_go(\"%s\", R)." % g.replace("\\", "\\\\").replace('"', '\\"')
    lines = []
    if b.need_dot:
        lines.append("Q\t%s.o\t1\top(200, xfy, '.')." % cid)
    lines.append("Q\t%s\t2\t%s" % (cid, pesc(q)))
    if b.need_dot:
        lines.append("Q\t%s.u\t1\top(0, xfy, '.')." % cid)
    c = {"id": cid, "kind": kind, "terms": terms, "vars": vs, "impl": lines, "prolog": g}
    if extra:
        c.update(extra)
    return c


# ------------------------------------------------------------------ generation

def gen_leaf(rng, nvars):
    r = rng.random()
    if r < 0.12 and nvars:
        return ("var", rng.randrange(nvars))
    if r < 0.32:
        if rng.random() < 0.6:
            return ("int", rng.choice(INTS) + rng.choice([0, 0, 1, -1]))
        return ("int", rng.randrange(-2 ** 80, 2 ** 80))
    if r < 0.42:
        n, d = rng.choice(RATS)
        return ("rat", n, d)
    if r < 0.57:
        if rng.random() < 0.7:
            return ("flt", rng.choice(FLTS))
        while True:
            bts = rng.getrandbits(64)
            if (bts >> 52) & 0x7ff != 0x7ff and bts != 1 << 63:
                return ("flt", bts)
    return ("atom", rng.choice(ATOMS))


def gen_text(rng, maxlen=9):
    n = rng.choice([0, 1, 1, 2, 2, 3, 3, 4, 5, 7, 8, 9, maxlen])
    return "".join(rng.choice(CHARS) for _ in range(min(n, maxlen)))


def gen_tail(rng, nvars):
    r = rng.random()
    if r < 0.6:
        return NIL
    if r < 0.75 and nvars:
        return ("var", rng.randrange(nvars))
    if r < 0.85:
        return ("atom", rng.choice(ATOMS))
    if r < 0.93:
        return ("int", rng.choice(INTS))
    return ("cmp", rng.choice(FUNCTORS), [gen_leaf(rng, nvars)])


LMODES = ["lit", "lit", "lis", "lis", "dot"]
CMODES = ["pstr", "pstr", "lit", "lis", "lis", "dot"]


def gen_term(rng, depth, nvars):
    r = rng.random()
    if depth > 0 and rng.random() < 0.08:
        SHARE_ID[0] += 1
        return ("share", SHARE_ID[0], gen_term(rng, depth - 1, nvars))
    if depth <= 0 or r < 0.35:
        return gen_leaf(rng, nvars)
    if r < 0.6:
        n = rng.choice([1, 1, 2, 2, 2, 3, 4])
        return ("cmp", rng.choice(FUNCTORS), [gen_term(rng, depth - 1, nvars) for _ in range(n)])
    if r < 0.8:
        n = rng.choice([1, 1, 2, 2, 3, 4])
        return ("lst", [gen_term(rng, depth - 1, nvars) for _ in range(n)], gen_tail(rng, nvars), rng.choice(LMODES))
    return ("chs", gen_text(rng), gen_tail(rng, nvars), rng.choice(CMODES))


def neighbour_leaf(rng, t, nvars):
    k = t[0]
    if k == "int":
        return rng.choice([("int", t[1] + 1), ("int", t[1] - 1), ("int", -t[1]), ("rat", 2 * t[1] + 1, 2),
                           ("flt", f2b(float(t[1]))) if abs(t[1]) < 2 ** 60 else ("int", t[1] * 2)])
    if k == "rat":
        return rng.choice([("rat", t[1] + t[2], t[2]) if t[2] > 1 else ("int", t[1] + 1),
                           ("int", t[1] // t[2]), ("int", t[1] // t[2] + 1), ("rat", -t[1], t[2])])
    if k == "flt":
        b = t[1]
        cands = [b + 1, b - 1 if b & ((1 << 63) - 1) else b + 2, b ^ (1 << 63)]
        cands = [c for c in cands if 0 <= c < 2 ** 64 and (c >> 52) & 0x7ff != 0x7ff and c != 1 << 63]
        x = b2f(b)
        if x == int(x) and abs(x) < 2 ** 62:
            cands.append(None)
        c = rng.choice(cands)
        return ("int", int(x)) if c is None else ("flt", c)
    if k == "atom":
        s = t[1]
        opts = [s + rng.choice(CHARS), rng.choice(ATOMS)]
        if s and s != "[]":
            opts += [s[:-1], s[:-1] + rng.choice(CHARS), rng.choice(CHARS) + s[1:]]
        s2 = rng.choice(opts)
        return ("atom", s2)
    if k == "var" and nvars:
        return ("var", rng.randrange(nvars))
    return gen_leaf(rng, nvars)


SHARE_ID = [0]


def mutate(rng, t, nvars, depth=0):
    """a term close to t (often equal up to representation)."""
    k = t[0]
    r = rng.random()
    if k == "share":
        if r < 0.6:
            return t                      # the very same physical subterm in the other term
        return mutate(rng, t[2], nvars, depth)
    if k in ("var", "int", "rat", "flt", "atom"):
        if r < 0.75:
            return neighbour_leaf(rng, t, nvars)
        return gen_term(rng, 1, nvars)
    if k == "cmp":
        f, args = t[1], list(t[2])
        if r < 0.5:
            i = rng.randrange(len(args))
            args[i] = mutate(rng, args[i], nvars, depth + 1)
            return ("cmp", f, args)
        if r < 0.62:
            return ("cmp", rng.choice(FUNCTORS), args)
        if r < 0.72:
            return ("cmp", f, args + [gen_leaf(rng, nvars)])
        if r < 0.8 and len(args) > 1:
            return ("cmp", f, args[:-1])
        if r < 0.9 and len(args) > 1:
            i, j = rng.sample(range(len(args)), 2)
            args[i], args[j] = args[j], args[i]
            return ("cmp", f, args)
        if len(args) == 2 and f == ".":
            return ("lst", [args[0]], args[1], rng.choice(LMODES))
        return ("cmp", f, args)
    if k == "lst":
        elems, tail, mode = list(t[1]), t[2], t[3]
        if r < 0.3:
            return ("lst", elems, tail, rng.choice(LMODES))
        if r < 0.6 and elems:
            i = rng.randrange(len(elems))
            elems[i] = mutate(rng, elems[i], nvars, depth + 1)
            return ("lst", elems, tail, rng.choice([mode] + LMODES))
        if r < 0.7:
            return ("lst", elems + [gen_leaf(rng, nvars)], tail, mode)
        if r < 0.8 and len(elems) > 1:
            return ("lst", elems[:-1], tail, rng.choice(LMODES))
        if r < 0.9:
            return ("lst", elems, gen_tail(rng, nvars), rng.choice(LMODES))
        if len(elems) == 1:
            return ("cmp", ".", [elems[0], tail])
        return ("lst", elems, tail, mode)
    if k == "chs":
        text, tail, mode = t[1], t[2], t[3]
        if r < 0.35:
            return ("chs", text, tail, rng.choice(CMODES))
        if r < 0.6 and text:
            i = rng.randrange(len(text))
            return ("chs", text[:i] + rng.choice(CHARS) + text[i + 1:], tail, rng.choice(CMODES))
        if r < 0.7:
            return ("chs", text + rng.choice(CHARS), tail, rng.choice(CMODES))
        if r < 0.8 and text:
            return ("chs", text[:-1], tail, rng.choice(CMODES))
        if r < 0.9:
            return ("chs", text, gen_tail(rng, nvars), rng.choice(CMODES))
        return ("lst", [("atom", c) for c in text], tail, rng.choice(LMODES))
    return t


NUM_V = [0, 1, 2, 3, 10, 2 ** 31, 2 ** 52, 2 ** 53 - 1, 2 ** 53, 2 ** 53 + 1, 2 ** 54, 2 ** 54 + 1, 2 ** 55 - 2,
         2 ** 55 - 1, 2 ** 55, 2 ** 55 + 1, 2 ** 56, 2 ** 62, 2 ** 63 - 1, 2 ** 63, 2 ** 64, 2 ** 64 + 1, 10 ** 20,
         2 ** 100, 2 ** 200 + 1]


def mk_rat(n, d):
    """the term for n/d as the system holds it: lowest terms, an integer when d divides n"""
    from math import gcd
    g = gcd(n, d)
    n, d = n // g, d // g
    return ("int", n) if d == 1 else ("rat", n, d)


def gen_group(rng, n, nvars):
    a = gen_term(rng, rng.choice([1, 2, 2, 3]), nvars)
    ts = [a]
    while len(ts) < n:
        r = rng.random()
        if r < 0.7:
            ts.append(mutate(rng, rng.choice(ts), nvars))
        else:
            ts.append(gen_term(rng, rng.choice([0, 1, 2]), nvars))
    rng.shuffle(ts)
    return ts


# --- the pstrseg family: flat string-like values with several segments and misaligned starts

def utf8len(s):
    return len(s.encode("utf-8"))


def gen_seg(rng, base=None):
    """a multi-segment / offset partial string; with `base` a variation of that text."""
    if base is None:
        base = "".join(rng.choice("abcdefgh") if rng.random() < 0.85 else rng.choice(CHARS)
                       for _ in range(rng.choice([3, 5, 7, 8, 9, 12, 15, 16, 17, 20])))
    text = base
    r = rng.random()
    if r < 0.3 and text:
        text = text[:rng.randrange(len(text) + 1)]
    elif r < 0.5:
        text = text + "".join(rng.choice("abcxyz") for _ in range(rng.choice([1, 2, 3, 8])))
    elif r < 0.6 and text:
        i = rng.randrange(len(text))
        text = text[:i] + rng.choice(CHARS) + text[i + 1:]
    # cut into segments
    nseg = rng.choice([1, 1, 2, 2, 3])
    cuts = sorted(rng.sample(range(1, len(text)), min(nseg - 1, max(0, len(text) - 1)))) if len(text) > 1 else []
    segs, p = [], 0
    for c in cuts + [len(text)]:
        segs.append(text[p:c])
        p = c
    segs = [s for s in segs if s] or [""]
    prefix = "".join(rng.choice("pqrs") for _ in range(rng.choice([0, 0, 1, 2, 3, 5, 7, 8, 9])))
    tail = rng.choice([NIL, NIL, NIL, ("atom", "t"), ("int", 0), ("var", 0)])
    if segs == [""]:
        return ("seg", [""], tail, "") if False else ("chs", "", tail, "pstr")
    return ("seg", segs, tail, prefix)


def seg_layout(t):
    """list of (segment bytes, start offset inside the segment's first cell) + has pstr tail"""
    if t[0] != "seg":
        return None
    segs, prefix = t[1], t[3]
    out = []
    for i, s in enumerate(segs):
        out.append([s.encode("utf-8"), utf8len(prefix) if i == 0 else 0])
    return out


def f2_shape(a, b):
    """does comparing the flat strings a (left) and b (right) reach `compare_pstr_slices` with a
    misaligned left slice that ends first while its end crosses a cell boundary (finding C13-2)?
    Simulates the PStrLoc/PStrLoc arm on the byte layout."""
    la, lb = seg_layout(a), seg_layout(b)
    if la is None or lb is None:
        return False
    ia = ib = 0
    # current position: (segment index, byte offset in that segment incl. dropped prefix)
    pa, pb = la[0][1], lb[0][1]
    ba = (("p" * la[0][1]).encode() + la[0][0])
    bb = (("p" * lb[0][1]).encode() + lb[0][0])
    guard = 0
    while guard < 100:
        guard += 1
        ra, rb = ba[pa:], bb[pb:]
        n = 0
        while n < len(ra) and n < len(rb) and ra[n] == rb[n]:
            n += 1
        a_end, b_end = n == len(ra), n == len(rb)
        if not a_end and not b_end:
            return False          # decided by a character
        if a_end and not b_end:
            if pa % 8 != 0 and (n % 8) + (pa % 8) >= 8:
                return True
            ia += 1
            if ia >= len(la):
                return False      # left tail is not a pstr: other arms
            ba, pa = la[ia][0], 0
            pb += n
            continue
        if b_end and not a_end:
            ib += 1
            if ib >= len(lb):
                return False
            bb, pb = lb[ib][0], 0
            pa += n
            continue
        ia += 1
        ib += 1
        if ia >= len(la) or ib >= len(lb):
            return False
        ba, pa, bb, pb = la[ia][0], 0, lb[ib][0], 0
    return False


# ------------------------------------------------------------------ shapes for signatures

def listlike(t):
    return t[0] in ("lst", "chs", "seg") and bool(t[1]) and (t[0] != "seg" or any(t[1]))


def head_tail(t):
    """(head, tail, representation) of a list cell, None for anything else"""
    k = t[0]
    if k == "share":
        return head_tail(t[2])
    if k == "lst":
        if not t[1]:
            return head_tail(t[2])
        mode = t[3]
        if mode == "lit":
            # the reader builds a list literal as a partial string iff ALL its elements are
            # one-char atoms (whatever the tail), otherwise as Lis cells all the way
            allchars = all(e[0] == "atom" and len(e[1]) == 1 for e in t[1])
            mode = "pstr" if allchars else "lis"
        rest = ("lst", t[1][1:], t[2], mode) if len(t[1]) > 1 else t[2]
        return t[1][0], rest, mode
    if k == "chs":
        if not t[1]:
            return head_tail(t[2])
        rest = ("chs", t[1][1:], t[2], t[3]) if len(t[1]) > 1 else t[2]
        mode = t[3]
        if mode == "lit":
            mode = "pstr"
        return ("atom", t[1][0]), rest, mode
    if k == "seg":
        txt = "".join(t[1])
        if not txt:
            return head_tail(t[2])
        rest = ("seg", [txt[1:]], t[2], "") if len(txt) > 1 else t[2]
        return ("atom", txt[0]), rest, "pstr"
    if k == "cmp" and t[1] == "." and len(t[2]) == 2:
        h = t[2][0]        # functional notation '.'(H,T) is read as an ordinary list cell
        return h, t[2][1], ("pstr" if (h[0] == "atom" and len(h[1]) == 1) else "lis")
    return None


def repr_pairs(a, b, acc):
    """representation pairings met by a parallel walk (as far as both sides are list cells)."""
    # iterative (explicit work list): the tabu family has lists of 10^5 cells
    work = [(a, b)]
    while work:
        a, b = work.pop()
        ha, hb = head_tail(a), head_tail(b)
        if ha and hb:
            acc.add("%s/%s" % (ha[2], hb[2]))
            work.append((ha[1], hb[1]))
            work.append((ha[0], hb[0]))
            continue
        while a[0] == "share":
            a = a[2]
        while b[0] == "share":
            b = b[2]
        if not ha and not hb and a[0] == "cmp" and b[0] == "cmp" and len(a[2]) == len(b[2]):
            for x, y in zip(a[2], b[2]):
                work.append((x, y))
    return acc


def _num_key(t):
    from fractions import Fraction
    return Fraction(t[1]) if t[0] == "int" else Fraction(t[1], t[2])


def py_compare(a, b, rank, quirk):
    """reference comparator used ONLY to classify a violation for its signature (the oracle is the
    Lean model): the standard order on abstract terms; with quirk=True the pinned behaviour of
    finding C13-1 is simulated (a '.'/2 structure cell on the left against a Lis cell on the right
    compares the tails before the heads). Returns -1/0/1."""
    work = [(a, b)]
    while work:
        a, b = work.pop()
        while a[0] == "share":
            a = a[2]
        while b[0] == "share":
            b = b[2]
        ha, hb = head_tail(a), head_tail(b)
        if ha is None and a[0] in ("lst", "chs", "seg"):
            a = a[2]
            work.append((a, b))
            continue
        if hb is None and b[0] in ("lst", "chs", "seg"):
            b = b[2]
            work.append((a, b))
            continue
        ca = 4 if (ha or a[0] == "cmp") else {"var": 0, "flt": 1, "int": 2, "rat": 2, "atom": 3}[a[0]]
        cb = 4 if (hb or b[0] == "cmp") else {"var": 0, "flt": 1, "int": 2, "rat": 2, "atom": 3}[b[0]]
        if ca != cb:
            return -1 if ca < cb else 1
        if ca == 0:
            x, y = rank[a[1]], rank[b[1]]
        elif ca == 1:
            x, y = b2f(a[1]), b2f(b[1])
        elif ca == 2:
            x, y = _num_key(a), _num_key(b)
        elif ca == 3:
            x, y = a[1], b[1]          # Python compares str by code points
        else:
            na, aa = (".", [ha[0], ha[1]]) if ha else (a[1], a[2])
            nb, ab = (".", [hb[0], hb[1]]) if hb else (b[1], b[2])
            if (len(aa), na) != (len(ab), nb):
                return -1 if (len(aa), na) < (len(ab), nb) else 1
            prs = list(zip(aa, ab))
            if quirk and ha and hb and ha[2] == "dot" and hb[2] == "lis":
                prs.reverse()
            for pr in reversed(prs):
                work.append(pr)
            continue
        if x != y:
            return -1 if x < y else 1
    return 0


def py_ord(a, b, rank, quirk):
    return {-1: "lt", 0: "eq", 1: "gt"}[py_compare(a, b, rank, quirk)]


def quirk_ord(c, i, j):
    """the answer the simulation of finding C13-1 predicts for compare(Ti, Tj); None where the
    simulation does not apply (tabu family: terms too long, never contain '.'/2 structures)."""
    if c.get("family") == "tabu" or c.get("rank") is None:
        return None
    try:
        return py_ord(c["terms"][i], c["terms"][j], c["rank"], True)
    except Exception:
        return None


def model_ord_py(c, i, j):
    return py_ord(c["terms"][i], c["terms"][j], c["rank"], False)


def case_pairs(c, a, b, acc):
    """repr_pairs, except for the tabu family whose (very long, fixed-shape) terms would make the
    cell-by-cell walk quadratic: their pairings are known by construction."""
    if c.get("family") == "tabu":
        acc.update(("pstr/lis", "lis/lis", "lis/pstr"))
        return acc
    return repr_pairs(a, b, acc)


def kind_of(t):
    k = t[0]
    if k == "share":
        return kind_of(t[2])
    if k in ("lst", "chs"):
        return "list" if t[1] else kind_of(t[2])
    if k == "seg":
        return "list" if "".join(t[1]) else kind_of(t[2])
    return {"cmp": "compound"}.get(k, k)


# ------------------------------------------------------------------ judge helpers

def split_top(s):
    """splits 'a,b,c' at top-level commas (canonical syntax: quotes, brackets)."""
    out, depth, cur, i, q = [], 0, [], 0, None
    while i < len(s):
        c = s[i]
        if q:
            cur.append(c)
            if c == "\\":
                if s[i + 1] == "x":
                    j = s.index("\\", i + 2)
                    cur.append(s[i + 1:j + 1])
                    i = j
                else:
                    i += 1
                    cur.append(s[i])
            elif c == q:
                q = None
        elif c in "'\"":
            q = c
            cur.append(c)
        elif c in "([":
            depth += 1
            cur.append(c)
        elif c in ")]":
            depth -= 1
            cur.append(c)
        elif c == "," and depth == 0:
            out.append("".join(cur))
            cur = []
        else:
            cur.append(c)
        i += 1
    if cur or out:
        out.append("".join(cur))
    return out


def parse_bindings(ans):
    """'{A=..,B=..}' -> dict (first answer only)"""
    a = ans.split(" ;; ")[0]
    if not (a.startswith("{") and a.endswith("}")):
        return None
    d = {}
    for item in split_top(a[1:-1]):
        k, _, v = item.partition("=")
        d[k] = v
    return d


def parse_answer(ans):
    """'{R='r'(VO,RS,[T0,..])}' -> {'VO':..,'RS':..,'T0':..}; None if there is no such answer"""
    d = parse_bindings(ans)
    if not d or "R" not in d:
        return None
    r = d["R"]
    if not (r.startswith("'r'(") and r.endswith(")")):
        return None
    parts = split_top(r[4:-1])
    if len(parts) != 4:
        return None
    b = {"VO": parts[0], "RS": parts[1]}
    ts = parse_list(parts[2])
    vn = parse_list(parts[3])
    if ts is None or vn is None:
        return None
    for i, t in enumerate(ts):
        b["T%d" % i] = t
    b["VN"] = vn
    return b


def parse_list(s):
    if s == "[]":
        return []
    if s.startswith('"') and s.endswith('"'):
        out, i, body = [], 0, s[1:-1]
        while i < len(body):
            c = body[i]
            if c == "\\":
                if body[i + 1] == "x":
                    j = body.index("\\", i + 2)
                    out.append(qatom(chr(int(body[i + 2:j], 16))))
                    i = j + 1
                    continue
                out.append(qatom(body[i + 1]))
                i += 2
                continue
            out.append(qatom(c))
            i += 1
        return out
    if s.startswith("[") and s.endswith("]"):
        return split_top(s[1:-1])
    return None


ORD = {"'<'": "lt", "'='": "eq", "'>'": "gt"}
FLAGS = {"lt": "fftfft"[0:0] or None}


def flags_for(o):
    # == \== @< @=< @> @>=
    return {"lt": "ftttff", "eq": "tfftft", "gt": "ftfftt"}[o]


def parse_r(s):
    """'r'('<','x'(..6..),'c'(..6..),'x'(..6..),'c'(..6..)) -> (ord, xflags, cflags): the six
    operators in execute / call form, inference-counted instructions; then the same through the
    Default* instruction variants (predicates declared non_counted_backtracking). The two execute
    answers and the two call answers are returned joined by '|' when they differ."""
    if not s.startswith("'r'(") or not s.endswith(")"):
        return None
    parts = split_top(s[4:-1])
    if len(parts) != 5 or parts[0] not in ORD:
        return None
    fl = []
    for p, tag in ((parts[1], "'x'("), (parts[2], "'c'("), (parts[3], "'x'("), (parts[4], "'c'(")):
        if not p.startswith(tag):
            return None
        xs = split_top(p[len(tag):-1])
        if len(xs) != 6 or any(x not in ("'t'", "'f'") for x in xs):
            return None
        fl.append("".join(x[1] for x in xs))
    ex = fl[0] if fl[0] == fl[2] else fl[0] + "|default:" + fl[2]
    ca = fl[1] if fl[1] == fl[3] else fl[1] + "|default:" + fl[3]
    return ORD[parts[0]], ex, ca


def swap(o):
    return {"lt": "gt", "gt": "lt", "eq": "eq"}[o]


def var_ranks(vs, vo_text):
    """from the upper-triangle compare answers among the variables `vs`: rank dict or None."""
    n = len(vs)
    if n == 0:
        return {}
    items = parse_list(vo_text)
    if items is None or len(items) != n * (n - 1) // 2 or any(x not in ORD for x in items):
        return None
    less = {v: 0 for v in vs}
    k = 0
    for i in range(n):
        for j in range(i + 1, n):
            o = ORD[items[k]]
            k += 1
            if o == "eq":
                return None
            if o == "lt":
                less[vs[j]] += 1
            else:
                less[vs[i]] += 1
    if sorted(less.values()) != list(range(n)):
        return None
    return less


def term_text(t):
    return to_model(t, {i: i for i in range(16)})


def finding(kind, sig, detail, c, extra=None):
    if sig.get("shape") in ("strdot-left-vs-lis-right", "misaligned-left-pstr-ends-first"):
        # a known shape is reported once per kind of symptom, not once per generator family
        # (the framework lists at most 12 distinct signatures per run)
        sig = {k: v for k, v in sig.items() if k != "family"}
    case = {k: c[k] for k in ("id", "kind", "terms", "vars", "impl", "prolog") if k in c}
    if extra:
        case.update(extra)
    return core.Finding(kind, sig, detail, case)


def rebuild_case(c):
    """JSON round trip turns tuples into lists; restore."""
    def fix(t):
        if isinstance(t, list):
            if t and isinstance(t[0], str) and t[0] in ("var", "int", "rat", "flt", "atom", "cmp", "lst", "chs", "seg", "share"):
                k = t[0]
                if k == "share":
                    return ("share", t[1], fix(t[2]))
                if k == "cmp":
                    return ("cmp", t[1], [fix(a) for a in t[2]])
                if k == "lst":
                    return ("lst", [fix(a) for a in t[1]], fix(t[2]), t[3])
                if k == "chs":
                    return ("chs", t[1], fix(t[2]), t[3])
                if k == "seg":
                    return ("seg", list(t[1]), fix(t[2]), t[3])
                return tuple(t)
            return [fix(a) for a in t]
        return t
    c = dict(c)
    c["terms"] = [fix(t) for t in c["terms"]]
    return c


# ------------------------------------------------------------------ run

def make_tabu_case(cid, n):
    """fresh machine; A = f(S,L1), B = f(L2,L2) with S a string literal of n chars, L2 the same
    chars as run-time list cells (one physical list used twice) and L1 = L2's chars followed by z.
    The walk S/L2 records (byte offset of S + j, cell of L2's j-th cons); the walk L1/L2 then asks
    for (cell of L1's j-th cons, the same L2 cell): for the right n the two coincide."""
    text = "a" * n
    chars = ("chs", text, NIL, "lis")
    a = ("cmp", "f", [("chs", text, NIL, "pstr"), ("lst", [("atom", "a")] * n + [("atom", "z")], NIL, "lis")])
    b = ("cmp", "f", [("share", 1, chars), ("share", 1, chars)])
    lines = ["R\t%s.r" % cid,
             "L\t%s.l\tuser\t%s" % (cid, LOAD_LINE_BODY),
             "Q\t%s\t2\tc13_f3(%s, R)." % (cid, pstring(text))]
    return {"id": cid, "kind": "cmp2", "terms": [a, b], "vars": [], "impl": lines, "family": "tabu",
            "prolog": "c13_f3(\"a…\"(%d chars), R)" % n, "n": n}


def make_scan_case(cid, ns):
    """fresh machine; for every N of `ns` (ascending; backtracking resets the heap between them):
    S = a string of N nines made by number_chars/2 (allocated first, low in the heap), L2 = the
    same characters as run-time list cells, L1 = those characters followed by z; reports the first
    N for which f(S,L1) == f(L2,L2) succeeds. C13_longer_list_gt: it must fail for every N."""
    lines = ["R\t%s.r" % cid,
             "L\t%s.l\tuser\t%s" % (cid, LOAD_LINE_BODY),
             "Q\t%s\t1\tc13_scan([%s], R)." % (cid, ",".join(str(n) for n in ns))]
    return {"id": cid, "kind": "scan", "terms": [], "vars": [], "impl": lines, "family": "tabu", "ns": ns,
            "prolog": "c13_scan([%d..%d: %d lengths], R)" % (ns[0], ns[-1], len(ns))}


def generate(ctx):
    rng, tier = ctx["rng"], ctx["tier"]
    quick = tier == "quick"
    cases = []
    n_pair = 1200 if quick else 30000
    n_triple = 500 if quick else 9000
    n_sort = 150 if quick else 2500
    n_seg = 250 if quick else 4000
    f2_budget = 6 if quick else 20
    n_num = 150 if quick else 3000
    k = 0
    for _ in range(n_pair):
        nv = rng.choice([0, 0, 0, 1, 2, 3])
        cases.append(make_case("p%d" % k, "cmp", gen_group(rng, 2, nv), rng, {"family": "pair"}))
        k += 1
    for _ in range(n_triple):
        nv = rng.choice([0, 0, 1, 2, 3, 4])
        cases.append(make_case("t%d" % k, "cmp", gen_group(rng, 3, nv), rng, {"family": "triple"}))
        k += 1
    for _ in range(n_sort):
        nv = rng.choice([0, 0, 0, 2])
        n = rng.choice([2, 3, 5, 8, 12])
        ts = gen_group(rng, n, nv)
        ts = ts + [rng.choice(ts) for _ in range(rng.choice([0, 1, 2]))]
        rng.shuffle(ts)
        sc = make_case("s%d" % k, rng.choice(["sort", "ksort"]), ts, rng, {"family": "sort"})
        if sc is not None:
            cases.append(sc)
        k += 1
    # numeric boundaries: an integer v (small, around 2^53..2^56 where doubles stop being exact and
    # where fixnums end, bignums) against rationals within 1/d of it and against v-1, v+1; a
    # comparison that goes through floating point or truncation fails exactly here
    for _ in range(n_num):
        v = rng.choice(NUM_V) + rng.choice([0, 0, 1, -1])
        if rng.random() < 0.5:
            v = -v
        d = rng.choice([2, 2, 3, 7, 10 ** 20, 2 ** 64])
        e = rng.choice([1, -1])
        ts = [("int", v), mk_rat(v * d + e, d), rng.choice([("int", v + e), mk_rat(v * d + 2 * e, d), mk_rat(v * d - e, d)])]
        rng.shuffle(ts)
        if rng.random() < 0.3:
            ts = [("cmp", "f", [t]) for t in ts]
        cases.append(make_case("n%d" % k, "cmp", ts, rng, {"family": "num"}))
        k += 1
    f2_used = 0
    made = 0
    tries = 0
    while made < n_seg and tries < n_seg * 20:
        tries += 1
        a = gen_seg(rng)
        base = "".join(a[1]) if a[0] == "seg" else a[1]
        b = gen_seg(rng, base)
        ts = [a, b]
        if rng.random() < 0.3:
            ts.append(gen_seg(rng, base))
        if rng.random() < 0.3:
            ts = [("cmp", "f", [("int", 1), x]) for x in ts]
            flat = [x[2][1] for x in ts]
        else:
            flat = ts
        hit = any(f2_shape(x, y) for x in flat for y in flat)
        if hit:
            if f2_used >= f2_budget:
                continue
            f2_used += 1
        cases.append(make_case("g%d" % k, "cmp", ts, rng, {"family": "pstrseg", "f2": hit}))
        k += 1
        made += 1
    # visited-pair key collisions: scan the length over the window where list cell indices meet
    # string byte offsets (the heap top of a fresh machine is a few hundred cells)
    n = 150.0
    while n < (12000 if quick else 120000):
        cases.append(make_tabu_case("u%d" % k, int(n)))
        k += 1
        n *= 1.22
    # the same search done inside Prolog, densely: three consecutive lengths, then +8 %; the window
    # of colliding lengths is [~1.4, ~2.3] x (heap top of the fresh machine in cells: 14700..24500
    # with this helper program, 1970..3250 with a 6-line program) and nearly every length inside it
    # collides; a case costs about sum(N) x 10..25 microseconds
    ns, n = [], 20.0
    while n < (30000 if quick else 130000):
        ns.extend([int(n), int(n) + 1, int(n) + 2])
        n = n * 1.08 + 3
    chunk, cost = [], 0
    for v in ns + [None]:
        if v is None or (chunk and cost + v > 100000):
            cases.append(make_scan_case("w%d" % k, chunk))
            k += 1
            chunk, cost = [], 0
        if v is not None:
            chunk.append(v)
            cost += v
    # cases expected to crash the process (open finding C13-2) go last in their worker
    return [c for c in cases if not c.get("f2")] + [c for c in cases if c.get("f2")]


def needs_retry(ans):
    """the answer says nothing about the case: the helper program was lost (a panic or crash
    earlier in the worker discards the machine) or the watchdog fired (loaded host)."""
    # a panic / abort is re-run in isolation too: only one that happens again on a fresh process
    # with nothing but this case is attributed to the case's input
    return ans in ("missing", "timeout") or ans.startswith(("skipped(", "panic(", "abort(")) or \
        ("existence_error" in ans and "c13_" in ans) or "file_load_error" in ans


RETRY_STATS = {}


def run_impl(cases):
    """the helper program is consulted once per worker process; cases that lost it (a panic or a
    crash earlier in the same worker discards the machine) are re-run one by one with their own
    consult line."""
    from concurrent.futures import ThreadPoolExecutor
    jobs = max(1, min(core.NCPU, 12, len(cases) // 4 or 1))
    chunks = [[] for _ in range(jobs)]
    for i, c in enumerate(cases):
        chunks[i % jobs].extend(c["impl"])
    load = lambda tag: "L\t%s\tuser\t%s" % (tag, LOAD_LINE_BODY)
    res = {}
    with ThreadPoolExecutor(max_workers=jobs) as ex:
        for r in ex.map(lambda ch: core.run_impl([load("load%d" % ch[0])] + ch[1]) if ch[1] else {},
                        list(enumerate(chunks))):
            res.update(r)
    again = [c for c in cases if needs_retry(res.get(c["id"], "missing"))]
    import os as _os
    if _os.environ.get("C13_DEBUG"):
        bad = {}
        for c in cases:
            a = res.get(c["id"], "missing")
            if not a.startswith("{"):
                bad[a[:60]] = bad.get(a[:60], 0) + 1
        print("first pass: %d to retry; non-answers: %r" % (len(again), bad))
    # a panic / crash / watchdog early in a worker costs all later cases of that worker their
    # helper program: those are first re-run in bulk, exactly like the first pass
    for bulk in (1, 2):
        if len(again) < 40:
            break
        chunks = [[] for _ in range(jobs)]
        # cases that did not answer for a reason of their own go last in their chunk
        lost = [c for c in again if "existence_error" in res.get(c["id"], "missing") or res.get(c["id"], "missing") == "missing"]
        lost_ids = set(c["id"] for c in lost)
        own = [c for c in again if c["id"] not in lost_ids]
        for i, c in enumerate(lost + own):
            chunks[i % jobs].extend(c["impl"])
        with ThreadPoolExecutor(max_workers=jobs) as ex:
            for r in ex.map(lambda ch: core.run_impl([load("bulk%d.%d" % (bulk, ch[0]))] + ch[1]) if ch[1] else {},
                            list(enumerate(chunks))):
                res.update(r)
        RETRY_STATS["bulk_rerun%d" % bulk] = len(again)
        again = [c for c in again if needs_retry(res.get(c["id"], "missing"))]
    # retries: 2 workers with a 30 s watchdog, then one by one with a 60 s watchdog (a loaded host
    # makes trivial goals hit the default 10 s watchdog); the last stage is budgeted, what is
    # left over is counted as infrastructure_skipped, never as a finding
    for attempt, workers, ms, budget in ((1, 2, 30000, 400), (2, 1, 60000, 12)):
        if not again:
            break
        todo, over = again[:budget], again[budget:]
        for c in over:
            res[c["id"]] = "skipped(load)"
        with ThreadPoolExecutor(max_workers=workers) as ex:
            for r in ex.map(lambda c: core.run_impl([load("%s.l%d" % (c["id"], attempt))] + c["impl"],
                                                    env={"SV_TIMEOUT_MS": str(ms)}), todo):
                res.update(r)
        again = [c for c in todo if needs_retry(res.get(c["id"], "missing"))]
        RETRY_STATS["retried_stage%d" % attempt] = len(todo)
    return res


def run(ctx):
    rep = diff.replay_case(ctx)
    if rep is not None:
        cases = [rebuild_case(c) for c in rep]
    else:
        cases = [rebuild_case(c) for c in diff.load_corpus("C13")] + generate(ctx)
    import random as _r
    seen = set()
    for n, c in enumerate(cases):
        if rep is None and c.get("corpus"):
            # corpus cases are stored abstractly; render them with the current helpers
            cc = make_case("k%d" % n, c["kind"], c["terms"], _r.Random(1), None)
            c.update({"id": cc["id"], "impl": cc["impl"], "prolog": cc["prolog"], "vars": cc["vars"]})
            c.setdefault("family", "corpus")
        assert c["id"] not in seen
        seen.add(c["id"])
    import time as _t, os as _os
    _t0 = _t.time()
    impl = run_impl(cases)
    if _os.environ.get("C13_DEBUG"):
        print("impl phase %.1fs" % (_t.time() - _t0))

    findings = []
    stats = {"render_mismatch": 0, "impl_not_ok": 0, "infrastructure_skipped": 0, "var_cases": 0}
    # phase 1: read the implementation's answers, fix the variable ranks, build model lines
    model_lines = []
    for c in cases:
        ans = impl.get(c["id"], "missing")
        c["ans"] = ans
        b = parse_answer(ans)
        c["b"] = b
        c["rank"] = None
        if b is None or "RS" not in b or "VO" not in b:
            continue
        rank = var_ranks(c["vars"], b["VO"])
        c["rank"] = rank
        if rank is None:
            continue
        n = len(c["terms"])
        texts = [to_model(t, rank) for t in c["terms"]]
        c["texts"] = texts
        vn = b.get("VN") or []
        if len(vn) != len(c["vars"]) or len(set(vn)) != len(vn):
            c["rank"] = None
            continue
        c["vmap"] = {name: "V%d" % rank[v] for name, v in zip(vn, c["vars"])}
        for i, tx in enumerate(texts):
            model_lines.append("norm\t%s.n%d\t%s" % (c["id"], i, tx))
            got = b.get("T%d" % i)
            if got is not None and got != "'skip'":
                model_lines.append("norm\t%s.m%d\t%s" % (c["id"], i, rename_vars(got, c["vmap"])))
        if c["kind"] == "sort":
            model_lines.append("norm\t%s.r\t%s" % (c["id"], rename_vars(b["RS"], c["vmap"])))
        # the implementation's own printing of the terms, with variables renamed by rank
        if c["kind"] in ("cmp", "cmp2"):
            c["pairs"] = [(i, j) for i in range(n) for j in range(n)] if c["kind"] == "cmp" else [(0, 1), (1, 0)]
            for (i, j) in c["pairs"]:
                model_lines.append("cmp\t%s.%d.%d\t%s\t%s" % (c["id"], i, j, texts[i], texts[j]))
                model_lines.append("ops\t%s.o%d.%d\t%s\t%s" % (c["id"], i, j, texts[i], texts[j]))
        elif c["kind"] == "sort":
            model_lines.append("sort\t%s.s\t%s" % (c["id"], "\t".join(texts)))
        elif c["kind"] == "ksort":
            model_lines.append("ksort\t%s.s\t%s" % (c["id"], "\t".join(texts)))
    _t0 = _t.time()
    model = core.run_model(model_lines) if model_lines else {}
    if _os.environ.get("C13_DEBUG"):
        print("model phase %.1fs (%d lines)" % (_t.time() - _t0, len(model_lines)))

    agree = 0
    evaluations = 0
    pair_evaluations = 0
    distinct = set()
    pairings = {}
    kinds_hit = {}
    samples = []
    for c in cases:
        evaluations += 1
        ans, b, rank = c["ans"], c["b"], c["rank"]
        fam = c.get("family", "corpus")
        ttexts = [term_text(t) for t in c["terms"]]
        shapes = set()
        for x in c["terms"]:
            for y in c["terms"]:
                case_pairs(c, x, y, shapes)
        for s in shapes:
            pairings[s] = pairings.get(s, 0) + 1
        f2 = bool(c.get("f2")) or any(f2_shape(x, y) for x in c["terms"] for y in c["terms"]
                                      if x[0] == "seg" and y[0] == "seg")
        if rep is not None:
            print("replay %s\n  impl : %s" % (c["prolog"], ans))
        if c["kind"] == "scan":
            d = parse_bindings(ans) or {}
            r = d.get("R")
            if r == "'none'":
                agree += 1
                distinct.add(("scan", c["ns"][0], c["ns"][-1]))
            elif r is not None and r.startswith("'found'("):
                findings.append(finding("violation",
                                        {"family": "tabu", "shape": "string-byte-offset-meets-list-cell-index",
                                         "defect": "different-terms-compare-equal"},
                                        "f(S,L1) == f(L2,L2) succeeds for S a string of N nines, L2 the same characters as list "
                                        "cells, L1 = those characters followed by z, N = %s" % r[8:-1], c))
            elif needs_retry(ans) and not ans.startswith(("panic(", "abort(")) and ans != "timeout":
                stats["infrastructure_skipped"] += 1
            else:
                stats["impl_not_ok"] += 1
                findings.append(finding("violation", {"family": "tabu", "defect": "no-answer", "outcome": ans.split("(")[0],
                                                      "terms": c["prolog"]},
                                        "the scan query did not produce an answer: %s" % ans[:200], c))
            continue
        if b is None and needs_retry(ans) and ans != "timeout" and not ans.startswith(("panic(", "abort(")):
            stats["infrastructure_skipped"] += 1     # helper program could not be (re)loaded
            continue
        if b is None or "RS" not in (b or {}):
            # no answer: crash / panic / error / failure
            stats["impl_not_ok"] += 1
            what = ans.split("(")[0]
            if f2:
                sig = {"family": "pstrseg", "shape": "misaligned-left-pstr-ends-first", "defect": "no-answer"}
            else:
                sig = {"family": fam, "defect": "no-answer", "outcome": what, "terms": " | ".join(ttexts)}
            findings.append(finding("violation", sig,
                                    "compare/sort on finite terms did not produce an answer: %s" % ans[:200], c))
            continue
        if rank is None:
            sig = {"family": fam, "defect": "variable-order-not-total", "terms": " | ".join(ttexts)}
            findings.append(finding("violation", sig,
                                    "pairwise compare/3 of the distinct variables is not a strict total order: VO=%s" % b.get("VO"), c))
            continue
        if c["vars"]:
            stats["var_cases"] += 1
        # render check
        bad_render = False
        for i in range(len(c["terms"])):
            want = model.get("%s.n%d" % (c["id"], i))
            got = b.get("T%d" % i)
            if got is None:
                bad_render = True
                break
            if got == "'skip'":
                continue
            got2 = model.get("%s.m%d" % (c["id"], i))
            if got2 != want:
                bad_render = True
                break
        if bad_render:
            stats["render_mismatch"] += 1
            import os as _os
            if _os.environ.get("C13_DEBUG") and stats["render_mismatch"] <= 12:
                print("RENDER", c["prolog"][:300], "\n   impl :", got, "\n   model:", want)
            if rep is not None:
                print("  render mismatch: impl printed %s, model reads %s" % (got, want))
            continue
        n = len(c["terms"])
        ok = True
        if c["kind"] in ("cmp", "cmp2"):
            rs = parse_list(b["RS"])
            pairs = c["pairs"]
            if rs is None or len(rs) != len(pairs):
                rs = None
            res = {}
            if rs is not None:
                for k2, pr in enumerate(pairs):
                    res[pr] = parse_r(rs[k2])
            if rs is None or any(v is None for v in res.values()):
                sig = {"family": fam, "defect": "unreadable-answer", "terms": " | ".join(ttexts)}
                findings.append(finding("disagreement", sig, "could not read the answer %s" % b["RS"][:200], c))
                continue
            for i in range(n):
                for j in range(n):
                    if (i, j) not in res:
                        continue
                    io, ix, ic = res[(i, j)]
                    mo = model.get("%s.%d.%d" % (c["id"], i, j))
                    mf = model.get("%s.o%d.%d" % (c["id"], i, j))
                    key = (c["texts"][i], c["texts"][j])
                    pair_evaluations += 1
                    if kind_of(c["terms"][i]) == kind_of(c["terms"][j]) and c["texts"][i] != c["texts"][j] or \
                            (i != j and c["texts"][i] == c["texts"][j] and c["terms"][i] != c["terms"][j]):
                        distinct.add(key)
                    kk = kind_of(c["terms"][i]) + "/" + kind_of(c["terms"][j])
                    kinds_hit[kk] = kinds_hit.get(kk, 0) + 1
                    if rep is not None:
                        print("  (%d,%d) impl=%s %s %s  model=%s %s" % (i, j, io, ix, ic, mo, mf))
                    # signature: a known defect's shape is used only when that defect's own
                    # simulation predicts the implementation's answer for this very pair
                    base = {"family": fam}
                    q1 = quirk_ord(c, i, j)
                    if fam == "tabu" and io == "eq":
                        base["shape"] = "string-byte-offset-meets-list-cell-index"
                    elif f2:
                        base["shape"] = "misaligned-left-pstr-ends-first"
                    elif q1 is not None and q1 == io and q1 != mo:
                        base["shape"] = "strdot-left-vs-lis-right"
                    else:
                        base["t1"], base["t2"] = ttexts[i], ttexts[j]
                    if io != mo:
                        ok = False
                        sig = dict(base, defect="compare-differs-from-standard-order", impl=io, model=mo)
                        if "shape" in base:
                            sig.pop("impl"), sig.pop("model")
                        findings.append(finding("violation", sig,
                                                "compare(O, T%d, T%d): implementation %s, standard order %s" % (i, j, io, mo),
                                                c, {"pair": [i, j]}))
                    want = flags_for(io)
                    if ix != want or ic != want:
                        ok = False
                        sig = {"family": fam, "defect": "operators-inconsistent-with-compare",
                               "t1": ttexts[i], "t2": ttexts[j]}
                        if f2:
                            sig = {"family": fam, "defect": "operators-inconsistent-with-compare",
                                   "shape": "misaligned-left-pstr-ends-first"}
                        findings.append(finding("violation", sig,
                                                "== \\== @< @=< @> @>= give %s (execute form) / %s (call form) but compare/3 says %s" % (ix, ic, io),
                                                c, {"pair": [i, j]}))
                    if mf is not None and mo is not None and mf != flags_for(mo):
                        findings.append(finding("disagreement", {"family": fam, "defect": "model-ops"}, "model flags", c))
                    if (j, i) in res and res[(j, i)][0] != swap(io):
                        ok = False
                        q2 = quirk_ord(c, j, i)
                        sig = {"family": fam, "defect": "antisymmetry"}
                        if fam == "tabu" and "eq" in (io, res[(j, i)][0]):
                            sig["shape"] = "string-byte-offset-meets-list-cell-index"
                        elif f2:
                            sig["shape"] = "misaligned-left-pstr-ends-first"
                        elif q1 is not None and q1 == io and q2 == res[(j, i)][0]:
                            sig["shape"] = "strdot-left-vs-lis-right"
                        else:
                            sig["t1"], sig["t2"] = ttexts[i], ttexts[j]
                        findings.append(finding("violation", sig,
                                                "compare(T%d,T%d)=%s but compare(T%d,T%d)=%s" % (i, j, io, j, i, res[(j, i)][0]),
                                                c, {"pair": [i, j]}))
                if (i, i) in res and res[(i, i)][0] != "eq":
                    ok = False
                    findings.append(finding("violation", {"family": fam, "defect": "reflexivity", "t1": ttexts[i]},
                                            "compare(T,T) is not =", c))
            # transitivity directly on the implementation's answers
            for i in range(n):
                for j in range(n):
                    for l in range(n):
                        if (i, j) not in res or (j, l) not in res or (i, l) not in res:
                            continue
                        a, bb, cc = res[(i, j)][0], res[(j, l)][0], res[(i, l)][0]
                        bad = (a == "lt" and bb == "lt" and cc != "lt") or (a == "eq" and cc != bb) or \
                              (bb == "eq" and cc != a) or (a == "gt" and bb == "gt" and cc != "gt")
                        if bad:
                            ok = False
                            sig = {"family": fam, "defect": "transitivity"}
                            if fam == "tabu" and "eq" in (a, bb, cc):
                                sig["shape"] = "string-byte-offset-meets-list-cell-index"
                            elif f2:
                                sig["shape"] = "misaligned-left-pstr-ends-first"
                            elif (quirk_ord(c, i, j), quirk_ord(c, j, l), quirk_ord(c, i, l)) == (a, bb, cc):
                                sig["shape"] = "strdot-left-vs-lis-right"
                            else:
                                sig["terms"] = " | ".join(ttexts[x] for x in (i, j, l))
                            findings.append(finding("violation", sig,
                                                    "compare(T%d,T%d)=%s, compare(T%d,T%d)=%s, compare(T%d,T%d)=%s" % (i, j, a, j, l, bb, i, l, cc),
                                                    c, {"triple": [i, j, l]}))
        else:
            want = model.get(c["id"] + ".s")
            got = b["RS"]
            if c["kind"] == "ksort":
                got = " ".join(parse_list(got) or ["?"])
            else:
                got = model.get(c["id"] + ".r")
            if rep is not None:
                print("  impl=%s\n  model=%s" % (got, want))
            for tx in set(c["texts"]):
                pass
            if len(set(c["texts"])) > 1:
                distinct.add(tuple(c["texts"]))
            if got != want:
                ok = False
                sig = {"family": fam, "defect": c["kind"] + "-order"}
                # explained by C13-1 iff its simulation makes the comparator inconsistent with
                # the standard order on some pair of this very list
                nn = len(c["terms"])
                if any(quirk_ord(c, x, y) not in (None, model_ord_py(c, x, y)) for x in range(nn) for y in range(nn)):
                    sig["shape"] = "strdot-left-vs-lis-right"
                else:
                    sig["terms"] = " | ".join(ttexts)
                findings.append(finding("violation", sig,
                                        "%s/2 result %s differs from the list sorted by the standard order %s" % (
                                            "sort" if c["kind"] == "sort" else "keysort", got[:300], (want or "")[:300]), c))
        if ok:
            agree += 1
            if len(samples) < 6 and c["id"][0] in "ptsgn" and len(c["prolog"]) < 400:
                samples.append(c["prolog"])

    return {
        # evaluations = ordered pairs compared on the implementation (a case holds 2-3 terms, i.e. up to
        # 9 ordered pairs) plus the cases of the other families; distinct_nontrivial counts pairs
        "evaluations": max(evaluations, pair_evaluations + evaluations),
        "cases": evaluations,
        "distinct_nontrivial": len(distinct),
        "rule": "groups of 2 (pair) / 3 (triple) / up to 14 (sort, keysort) terms: a random term (depth<=3) over variables, boundary integers, rationals, doubles, ASCII/2/3/4-byte-UTF-8 atoms, compounds, lists and strings in all heap representations (literal, partial string, run-time list cells, '.'/2 structure, multi-segment and offset strings), the other members mostly mutations of it (neighbouring leaf, changed arity/name/argument, representation-only change); a numeric-boundary family (an integer around 2^53..2^56 / 2^63 / 2^64 / bignum against rationals within 1/d of it and its neighbours), a family scanning string lengths for visited-pair key collisions; every ordered pair is compared with compare/3 and the six operators in call and execute form, through the inference-counted and the Default* instruction variants; non-trivial = the two terms are of the same kind but not identical, or identical in different representations; distinct by canonical text pair",
        "samples": samples,
        "traces_validated_against_impl": agree,
        "disagreements_checked": evaluations - agree,
        "representation_pairings_hit": pairings,
        "kind_pairs_hit": kinds_hit,
        "render_mismatch_discarded": stats["render_mismatch"],
        "cases_without_answer": stats["impl_not_ok"],
        "infrastructure_skipped": stats["infrastructure_skipped"],
        "retried_after_timeout_or_lost_machine": dict(RETRY_STATS),
        "cases_with_variables": stats["var_cases"],
        "exhaustive": False,
        "findings": findings,
    }


def rename_vars(text, mapping):
    """renames variable tokens (V12, _G3) outside quoted items of canonical text."""
    out, i, q = [], 0, None
    n = len(text)
    while i < n:
        c = text[i]
        if q:
            out.append(c)
            if c == "\\":
                if text[i + 1] == "x":
                    j = text.index("\\", i + 2)
                    out.append(text[i + 1:j + 1])
                    i = j
                else:
                    i += 1
                    out.append(text[i])
            elif c == q:
                q = None
            i += 1
            continue
        if c in "'\"":
            q = c
            out.append(c)
            i += 1
            continue
        if (c == "V" or c == "_") and (i == 0 or not (text[i - 1].isalnum() or text[i - 1] == "_")):
            j = i + 1
            while j < n and (text[j].isalnum() or text[j] == "_"):
                j += 1
            tok = text[i:j]
            out.append(mapping.get(tok, tok))
            i = j
            continue
        out.append(c)
        i += 1
    return "".join(out)
