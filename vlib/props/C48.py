"""C48 — file-system predicates reflect and change the real file system.

Three-way comparison after EVERY step of a random operation script executed by the real
implementation inside a fresh scratch directory (build/tmp/C48/<run-id>/<case>/):

  (a) the predicate's answer / error class   vs   the Lean model's answer (drv_C48),
  (b) the REAL directory tree (os.walk + file contents, read by this Python process, not by the
      implementation)                        vs   the model's tree,
  (c) for the query predicates, the answer   vs   what Python's os.* says about the real tree.

The harness is driven interactively (one line in, one line out) so that the real tree can be
walked between two steps. Scripts are generated step by step from the observed real tree (so that
most operations hit existing objects); the script actually executed is recorded and handed to the
model afterwards (and stored in the replay file).
"""
import os
import random
import shutil
import subprocess
import threading
import time

from .. import core, diff

LEVEL = "partial"
TRUSTED_BASE = [
    "vlib/props/C48.py renders one abstract step both as a Prolog goal (paths below the scratch root) and as the token of drv_C48, walks the real scratch tree with os.walk, and computes the os.* oracle for the query predicates",
    "the operating system (Linux, ext4) and Rust std::fs are outside the model: Model/FsTree.lean states the POSIX path-resolution and system-call semantics that std::fs relies on (symlink-free trees, NAME_MAX 255 bytes) and mirrors std's create_dir_all / Path::components",
    "the helper predicates c48/3, c48_err/2 loaded into the implementation (findall + catch + char_code conversion of the answers)",
]
ASSUMPTIONS = [
    "single process, no concurrent modification of the scratch directory, no symbolic links, no permission failures (the check runs as the owner of the scratch directory), paths shorter than PATH_MAX",
    "paths never leave the scratch root (the generator keeps the lexical depth non-negative; the model answers `outside` otherwise and the case is discarded)",
    "the order of directory_files/2 is not fixed by the statement: compared as a set",
    "time stamps (file_modification_time/2 …) and working_directory/2 are not covered (working_directory/2 is only used to set the directory relative paths are resolved against)",
]

IMPL_ENV = {"SV_TIMEOUT_MS": "60000"}

HELPER = r"""
:- use_module(library(files)).
:- use_module(library(lists)).
c48(T, G, R) :- catch(( findall(T, G, Ts), R = ok(Ts) ), error(E, _), c48_err(E, R)).
c48_err(E, R) :- var(E), !, R = other(var).
c48_err(existence_error(K, P), R) :- !, catch(maplist(char_code, P, Cs), _, Cs = bad), R = ee(K, Cs).
c48_err(type_error(T, C), R) :- !, ( atomic(C) -> C1 = C ; C1 = '$compound' ), R = te(T, C1).
c48_err(instantiation_error, R) :- !, R = ie.
c48_err(E, other(E)).
c48_codes(Cs, Ks) :- maplist(char_code, Cs, Ks).
"""

# ill-typed elements of a chars list: (Prolog text, canonical text of the culprit or '$compound')
BAD_ELEMS = [("1", "1"), ("bc", "'bc'"), ("f(x)", "'$compound'"), ("[]", "[]"), ("\"s\"", "'$compound'"),
             ("0.5", None), ("''", "''")]
BAD_TAILS = ["1", "foo", "f(x)", "0.5"]
BAD_ATOMS = ["foo", "1", "f(x)", "'a/b'"]


# ------------------------------------------------------------------ canonical term parser

class P:
    def __init__(self, s):
        self.s, self.i = s, 0

    def peek(self):
        return self.s[self.i] if self.i < len(self.s) else ""

    def quoted(self, q):
        assert self.s[self.i] == q
        self.i += 1
        out = []
        while True:
            c = self.s[self.i]
            if c == "\\":
                d = self.s[self.i + 1]
                if d == "x":
                    j = self.s.index("\\", self.i + 2)
                    out.append(chr(int(self.s[self.i + 2:j], 16)))
                    self.i = j + 1
                else:
                    out.append(d)
                    self.i += 2
            elif c == q:
                self.i += 1
                return "".join(out)
            else:
                out.append(c)
                self.i += 1

    def term(self):
        c = self.peek()
        if c == "'":
            name = self.quoted("'")
            if self.peek() == "(":
                self.i += 1
                args = [self.term()]
                while self.peek() == ",":
                    self.i += 1
                    args.append(self.term())
                assert self.peek() == ")"
                self.i += 1
                return (name, args)
            return ("atom", name)
        if c == '"':
            return [("atom", x) for x in self.quoted('"')]
        if c == "[":
            self.i += 1
            if self.peek() == "]":
                self.i += 1
                return []
            items = [self.term()]
            while self.peek() == ",":
                self.i += 1
                items.append(self.term())
            assert self.peek() == "]"
            self.i += 1
            return items
        j = self.i
        while j < len(self.s) and (self.s[j].isalnum() or self.s[j] in "_-"):
            j += 1
        tok = self.s[self.i:j]
        assert tok, "parse error at %d in %r" % (self.i, self.s)
        self.i = j
        if self.peek() == "(":       # r(..) / f(..) numbers
            depth = 0
            k = self.i
            while True:
                if self.s[k] == "(":
                    depth += 1
                elif self.s[k] == ")":
                    depth -= 1
                    if depth == 0:
                        break
                k += 1
            tok = tok + self.s[self.i:k + 1]
            self.i = k + 1
            return ("num", tok)
        try:
            return int(tok)
        except ValueError:
            return ("var", tok)


def parse_answer(r):
    """harness result of `c48(T,G,R)` -> python term of R, or ('raw', text)."""
    if r.startswith("{R=") and (r.endswith("}") or r.endswith("} ;; ...")):
        body = r[3:r.rindex("}")]
        try:
            p = P(body)
            t = p.term()
            if p.i == len(body):
                return t
        except Exception:
            pass
    return ("raw", r)


# ------------------------------------------------------------------ rendering

def hexstr(s):
    return s.encode("utf-8", "surrogateescape").hex()


SAFE = set("abcdefghijklmnopqrstuvwxyzABCDEFGHIJKLMNOPQRSTUVWXYZ0123456789_/.- ")


def pl_escape(s, raw_unicode):
    out = []
    for ch in s:
        if ch in SAFE or (raw_unicode and ord(ch) > 0xa0 and ch.isprintable()):
            out.append(ch)
        else:
            out.append("\\x%x\\" % ord(ch))
    return "".join(out)


def tr_path(root, s):
    """model path text -> implementation path text (model-absolute paths live below the case root)"""
    return root + s if s.startswith("/") else s


def chars_is_plain(a):
    return a["t"] == "n" and all(isinstance(e, str) for e in a["e"])


def chars_text(a):
    return "".join(e for e in a["e"] if isinstance(e, str))


def pl_chars(a, root, raw_unicode=False):
    """Prolog text of a chars argument {"t": tail, "e": [char | None | int], "bt": bad tail index}"""
    elems = list(a["e"])
    if elems and elems[0] == "/":
        elems = list(root) + elems
    if a["t"] == "n" and all(isinstance(e, str) for e in elems):
        return '"' + pl_escape("".join(elems), raw_unicode) + '"'
    if not elems:
        return {"n": "[]", "v": "_", "b": BAD_ATOMS[a.get("bt", 0) % len(BAD_ATOMS)]}[a["t"]]
    parts = []
    for e in elems:
        if e is None:
            parts.append("_")
        elif isinstance(e, int):
            parts.append(BAD_ELEMS[e][0])
        else:
            parts.append("'" + pl_escape(e, raw_unicode).replace("'", "\\x27\\") + "'")
    tail = {"n": "", "v": "|_", "b": "|" + BAD_TAILS[a.get("bt", 0) % len(BAD_TAILS)]}[a["t"]]
    return "[" + ",".join(parts) + tail + "]"


def tok_chars(a):
    es = []
    for e in a["e"]:
        if e is None:
            es.append("v")
        elif isinstance(e, int):
            es.append("b%d" % e)
        else:
            es.append("c%x" % ord(e))
    return a["t"] + ":" + ",".join(es)


def S(text):
    """plain chars argument"""
    return {"t": "n", "e": list(text)}


def render_step(st, root, raw_unicode):
    """-> (prolog query text, driver token)"""
    op = st["op"]
    A = lambda k: pl_chars(st[k], root, raw_unicode)
    T = lambda k: tok_chars(st[k])
    if op in ("fe", "de", "md", "mp", "rf", "rd"):
        pred = {"fe": "file_exists", "de": "directory_exists", "md": "make_directory", "mp": "make_directory_path",
                "rf": "delete_file", "rd": "delete_directory"}[op]
        return "c48(-, %s(%s), R)." % (pred, A("a")), "%s|%s" % (op, T("a"))
    if op in ("rn", "cp"):
        pred = {"rn": "rename_file", "cp": "file_copy"}[op]
        return "c48(-, %s(%s,%s), R)." % (pred, A("a"), A("b")), "%s|%s|%s" % (op, T("a"), T("b"))
    if op == "fs":
        s = st["s"]
        if s == "v":
            q = "c48(S, file_size(%s, S), R)." % A("a")
        elif s == "b":
            q = "c48(-, file_size(%s, foo), R)." % A("a")
        else:
            q = "c48(S, (S = %s, file_size(%s, S)), R)." % (s[1:], A("a"))
        return q, "fs|%s|%s" % (T("a"), s)
    if op == "df":
        l = st["l"]
        pl = {"v": "L0", "n": "[]", "p": "[_|_]", "b": "foo"}[l]
        return ("c48(L, (L0 = %s, directory_files(%s, L0), maplist(c48_codes, L0, L)), R)." % (pl, A("a")),
                "df|%s|%s" % (T("a"), l))
    if op == "pc":
        l = st["l"]
        if l.startswith("s"):
            x = st["x"]
            xi = root if x == "/" else root + x
            pl = '"' + pl_escape(xi, raw_unicode) + '"'
            tok = "s" + hexstr(x)
        else:
            pl = {"v": "C0", "n": "[]", "p": "[_|_]", "b": "foo"}[l]
            tok = l
        return ("c48(C, (C0 = %s, path_canonical(%s, C0), c48_codes(C0, C)), R)." % (pl, A("a")),
                "pc|%s|%s" % (T("a"), tok))
    if op == "ps":
        sg = st["s"]
        if sg == "v":
            spl, stok = "S0", "v"
        else:
            items = [pl_chars(x, "", raw_unicode) for x in sg["l"]]
            tail = {"n": "", "v": "|_", "b": "|foo"}[sg["t"]]
            spl = "[" + ",".join(items) + tail + "]" if items else {"n": "[]", "v": "_", "b": "foo"}[sg["t"]]
            stok = ";".join(["l" + sg["t"]] + [tok_chars(x) for x in sg["l"]])
        p = st["a"]
        if p["t"] == "v" and not p["e"]:
            return ("c48(C, (path_segments(P0, %s), c48_codes(P0, C)), R)." % spl, "ps|%s|%s" % (tok_chars(p), stok))
        return ("c48(C, (S0 = %s, path_segments(%s, S0), maplist(c48_codes, S0, C)), R)." % (spl, pl_chars(p, "", raw_unicode)),
                "ps|%s|%s" % (tok_chars(p), stok))
    raise ValueError(op)


# ------------------------------------------------------------------ the real tree

def walk_tree(root):
    """canonical text of the real tree below root (same syntax as drv_C48's showTree) and a dict"""
    ents, d = [], {}
    for r, dirs, files in os.walk(root):
        rel = os.path.relpath(r, root)
        rel = "" if rel == "." else rel
        for x in dirs:
            p = os.path.join(rel, x) if rel else x
            full = os.path.join(r, x)
            if os.path.islink(full):
                ents.append("L" + hexstr(p))
                d[p] = "L"
            else:
                ents.append("D" + hexstr(p))
                d[p] = "D"
        for x in files:
            p = os.path.join(rel, x) if rel else x
            full = os.path.join(r, x)
            if os.path.islink(full) or not os.path.isfile(full):
                ents.append("L" + hexstr(p))
                d[p] = "L"
            else:
                with open(full, "rb") as fh:
                    b = fh.read()
                ents.append("F" + hexstr(p) + ":" + b.hex())
                d[p] = b
    return ",".join(sorted(ents)), d


# ------------------------------------------------------------------ harness worker

class Harness:
    def __init__(self):
        self.p = None
        self.n = 0
        self.loaded = False

    def start(self):
        self.loaded = False
        e = dict(os.environ)
        e.update(IMPL_ENV)
        self.p = subprocess.Popen([core.HARNESS_BIN], stdin=subprocess.PIPE, stdout=subprocess.PIPE,
                                  stderr=subprocess.DEVNULL, env=e, cwd=core.BUILD)

    def line(self, text):
        """send one protocol line, return the result text ('abort' when the process died). Lines that
        do not carry the id of the request (anything the machine itself prints) are skipped."""
        if self.p is None or self.p.poll() is not None:
            self.start()
        want = text.split("\t")[1].encode() + b"\t"
        try:
            self.p.stdin.write((text + "\n").encode("utf-8"))
            self.p.stdin.flush()
            while True:
                out = self.p.stdout.readline()
                if not out or out.startswith(want):
                    break
        except (BrokenPipeError, OSError):
            out = b""
        if not out:
            rc = self.p.poll()
            self.p = None
            self.loaded = False
            return "abort(rc=%s)" % rc
        s = out.decode("utf-8", "replace").rstrip("\n")
        return s.partition("\t")[2]

    def query(self, q, mx=3):
        self.n += 1
        return self.line("Q\tq%d\t%d\t%s" % (self.n, mx, q.replace("\\", "\\\\").replace("\n", "\\n").replace("\t", "\\t")))

    def load(self, prog):
        self.n += 1
        return self.line("L\tl%d\tuser\t%s" % (self.n, prog.replace("\\", "\\\\").replace("\n", "\\n").replace("\t", "\\t")))

    def close(self):
        if self.p is not None:
            try:
                self.p.stdin.close()
                self.p.wait(timeout=10)
            except Exception:
                self.p.kill()
            self.p = None


# ------------------------------------------------------------------ generation

NAME_POOL = {
    "plain": ["a", "b", "c", "f1", "dir", "data.txt", "A"],
    "space": ["my file", " lead", "trail ", "a  b", " "],
    "dots": [".hidden", "x.y.z", "...", "..a", "a.", ".a.", "...."],
    "unicode": ["\u00e9", "e\u0301", "\u65e5\u672c", "\u00fc-\u00f6", "\U0001F600", "\u540d\u524d \u3068", "\u0416", "\u00df"],
    "special": ["a\\b", "q\"uote", "it's", "%s", "*", "?", "[x]", "~", "-n", "a\tb", "a\nb", "$HOME", "a:b", "#", "a,b", "{}", "`", "|"],
    "long": ["x" * 255, "y" * 254, "\u65e5" * 85, "z" * 256, "\u65e5" * 86, "w" * 300],
}


def pick_names(rng):
    names = []
    kinds = ["plain", "plain", "space", "dots", "unicode", "unicode", "special", "special", "long"]
    for _ in range(rng.randint(4, 6)):
        k = rng.choice(kinds)
        n = rng.choice(NAME_POOL[k])
        if n not in names:
            names.append(n)
    return names


class Gen:
    """generates the next step of a case from the observed real tree"""

    def __init__(self, rng, names, cwd):
        self.rng, self.names, self.cwd = rng, names, cwd     # cwd: list of names

    def location(self, tree, want=None):
        """-> list of names below the root: an existing file / dir, a new name, or a broken path.
        `want` ('file' / 'dir' / 'new') biases the choice towards what the predicate expects."""
        rng = self.rng
        dirs = [[]] + [p.split("/") for p, v in tree.items() if v == "D"]
        files = [p.split("/") for p, v in tree.items() if isinstance(v, bytes) and not p.endswith(KEEP)]   # never the sentinels
        k = rng.random()
        if want == "file" and files and k < 0.65:
            return rng.choice(files)
        if want == "dir" and k < 0.65:
            return rng.choice(dirs[1:] or dirs)
        if want == "new" and k < 0.60:
            return rng.choice(dirs) + [rng.choice(self.names)]
        k = rng.random()
        if k < 0.30 and files:
            return rng.choice(files)
        if k < 0.50:
            return rng.choice(dirs)
        if k < 0.85:
            return rng.choice(dirs) + [rng.choice(self.names)]
        if k < 0.93:
            return rng.choice(dirs) + [rng.choice(self.names), rng.choice(self.names)]   # (mostly) missing parent
        if files:
            return rng.choice(files) + [rng.choice(self.names)]                         # below a file
        return rng.choice(dirs) + [rng.choice(self.names)]

    def path_text(self, loc, tree):
        """a path text for location loc: absolute or relative to cwd, with decorations"""
        rng = self.rng
        dirs = [p for p, v in tree.items() if v == "D"]
        if rng.random() < 0.4:
            comps, lead = list(loc), "/"
        else:
            i = 0
            while i < len(self.cwd) and i < len(loc) and self.cwd[i] == loc[i]:
                i += 1
            if rng.random() < 0.15 and i > 0:
                i -= 1          # one more `..` than necessary
            comps, lead = [".."] * (len(self.cwd) - i) + list(loc[i:]), ""
            if not comps:
                comps = ["."]
        # decorations
        out = []
        for j, c in enumerate(comps):
            r = rng.random()
            if r < 0.06:
                out.append(".")
            elif r < 0.10 and (j > 0 or lead):
                out.append("")       # a doubled separator (never a leading one on a relative path)
            elif r < 0.16 and c not in (".", ".."):
                # detour through a name and back
                out.extend([rng.choice(self.names), ".."])
            out.append(c)
        s = lead + "/".join(out)
        r = rng.random()
        if r < 0.08:
            s += "/"
        elif r < 0.12:
            s += "/."
        elif r < 0.14:
            s += "//"
        elif r < 0.16 and lead == "" and not s.startswith("."):
            s = "./" + s
        if rng.random() < 0.015:
            s = ""
        return s

    def chars_arg(self, text):
        """mostly the plain string; sometimes an ill-formed variant"""
        rng = self.rng
        a = S(text)
        r = rng.random()
        if r < 0.90:
            return a
        k = rng.randrange(8)
        e = list(text)
        if k == 0:
            return {"t": "v", "e": []}
        if k == 1:
            return {"t": "b", "e": [], "bt": rng.randrange(4)}
        if k == 2:
            return {"t": "v", "e": e}
        if k == 3:
            return {"t": "b", "e": e, "bt": rng.randrange(4)}
        pos = rng.randrange(len(e) + 1)
        if k == 4:
            e.insert(pos, None)
            return {"t": "n", "e": e}
        bad = rng.choice([i for i, b in enumerate(BAD_ELEMS) if b[1] is not None])
        if k == 5:
            e.insert(pos, bad)
            return {"t": "n", "e": e}
        if k == 6:
            e.insert(pos, bad)
            e.insert(rng.randrange(len(e) + 1), None)
            return {"t": rng.choice("nv"), "e": e}
        e.insert(pos, None)
        return {"t": "b", "e": e, "bt": rng.randrange(4)}

    def step(self, tree, root):
        rng = self.rng
        r = rng.random()
        ops = [(0.08, "fe", "file"), (0.16, "de", "dir"), (0.23, "fs", "file"), (0.31, "df", "dir"), (0.41, "md", "new"),
               (0.51, "mp", "new"), (0.58, "rf", "file"), (0.66, "rd", "dir"), (0.75, "rn", "file"), (0.84, "cp", "file"),
               (0.92, "pc", None), (1.01, "ps", None)]
        op, want = next((o, w) for lim, o, w in ops if r < lim)
        loc = self.location(tree, want)
        p = self.path_text(loc, tree)
        a = self.chars_arg(p)
        if op in ("fe", "de", "md", "mp", "rf", "rd"):
            return {"op": op, "a": a}
        if op == "fs":
            sz = tree.get("/".join(loc))
            right = "i%d" % len(sz) if isinstance(sz, bytes) else "i1"
            return {"op": "fs", "a": a, "s": rng.choice(["v", "v", "v", "v", "v", "b", "i0", right, "i%d" % rng.randrange(40)])}
        if op == "df":
            return {"op": "df", "a": a, "l": rng.choice(["v", "v", "v", "v", "v", "n", "p", "b"])}
        if op in ("rn", "cp"):
            k = rng.random()
            if k < 0.02:
                loc2 = loc           # the same object through another text
            else:
                loc2 = self.location(tree, rng.choice(["new", "new", "file", None]))
            b = self.chars_arg(self.path_text(loc2, tree))
            return {"op": op, "a": a, "b": b}
        if op == "pc":
            l = rng.choice(["v", "v", "v", "n", "p", "b", "s", "s"])
            st = {"op": "pc", "a": a, "l": l}
            if l == "s":
                # bind the second argument to the lexical normal form (mostly the right answer)
                st["x"] = lexical_norm(self.cwd, p) if rng.random() < 0.8 else "/" + "/".join(self.location(tree))
            return st
        return self.segments_step(p)

    def segments_step(self, p):
        rng = self.rng
        k = rng.random()
        texts = [p, "", "/", "//", "a/", "/a", "a//b", "/".join(rng.choice(self.names) for _ in range(rng.randint(1, 3)))]
        t = rng.choice(texts)
        if k < 0.45:
            return {"op": "ps", "a": self.chars_arg(t), "s": "v"}
        segs = t.split("/")
        if rng.random() < 0.25:
            segs = [rng.choice(["", "a", "b/c", "/", rng.choice(self.names)]) for _ in range(rng.randint(0, 3))]
        if k < 0.80:
            sg = {"t": "n", "l": [self.chars_arg(s) for s in segs]}
            if rng.random() < 0.1:
                sg["t"] = rng.choice("vb")
            return {"op": "ps", "a": {"t": "v", "e": []}, "s": sg if (sg["l"] or sg["t"] != "v") else "v"}
        if rng.random() < 0.3 and segs:
            segs[rng.randrange(len(segs))] = rng.choice(["", "zz", "a"])
        return {"op": "ps", "a": S(t), "s": {"t": "n", "l": [S(s) for s in segs]}}


def lexical_norm(cwd, s):
    """model-absolute lexical normal form of path text s (what path_canonical answers when every
    component exists)"""
    cur = [] if s.startswith("/") else list(cwd)
    for c in s.split("/"):
        if c in ("", "."):
            continue
        if c == "..":
            cur = cur[:-1]
        else:
            cur.append(c)
    return "/" + "/".join(cur)


# ------------------------------------------------------------------ running one case

KEEP = ".keep"


def setup_case(root, init):
    os.makedirs(root)
    for kind, p, b in init:
        full = os.path.join(root, p)
        if kind == "D":
            os.mkdir(full)
        else:
            with open(full, "wb") as fh:
                fh.write(bytes.fromhex(b))


def gen_init(rng, names):
    init = [("F", KEEP, "6b"), ("D", "w", ""), ("F", "w/" + KEEP, "6b")]
    dirs = ["", "w"]
    used = {KEEP, "w", "w/" + KEEP}
    for _ in range(rng.randint(0, 4)):
        d = rng.choice(dirs)
        n = rng.choice(names)
        if len(n.encode()) > 255:
            continue
        p = (d + "/" + n) if d else n
        if p in used:
            continue
        used.add(p)
        if rng.random() < 0.45:
            init.append(("D", p, ""))
            dirs.append(p)
        else:
            init.append(("F", p, bytes(rng.randrange(256) for _ in range(rng.choice([0, 1, 5, 17, 33]))).hex()))
    return init


def os_oracle(st, root, cwd_abs):
    """what Python's os.* says the query predicates must answer on the real tree (None: no oracle)"""
    if st["op"] not in ("fe", "de", "fs", "df", "pc") or not chars_is_plain(st["a"]):
        return None
    s = tr_path(root, chars_text(st["a"]))
    if "\0" in s:
        return None
    full = os.path.join(cwd_abs, s) if s else ""
    op = st["op"]
    try:
        if op == "fe":
            return ("bool", bool(s) and os.path.isfile(full))
        if op == "de":
            return ("bool", bool(s) and os.path.isdir(full))
        if op == "fs":
            if s and os.path.isfile(full):
                return ("size", os.path.getsize(full)) if st["s"] == "v" else None
            return ("nofile", s)
        if op == "df" and st["l"] == "v":
            if s and os.path.isdir(full):
                return ("names", sorted(os.listdir(full)))
            return ("bool", False)
        if op == "pc" and st["l"] == "v":
            if s and os.path.exists(full):
                return ("str", os.path.realpath(full))
            return ("bool", False)
    except OSError:
        return ("bool", False)
    return None


def codes_to_str(t):
    return "".join(chr(c) for c in t)


def impl_view(ans):
    """normalise the parsed answer of the implementation to a comparable tuple"""
    if isinstance(ans, tuple) and ans[0] == "ok":
        return ("ok", ans[1][0])
    if isinstance(ans, tuple) and ans[0] == "ee":
        k, cs = ans[1]
        return ("ee", k[1] if isinstance(k, tuple) else k, codes_to_str(cs) if isinstance(cs, list) else cs)
    if isinstance(ans, tuple) and ans[0] == "te":
        t, c = ans[1]
        return ("te", t[1] if isinstance(t, tuple) else t, c)
    if ans == ("atom", "ie"):
        return ("ie",)
    return ("other", ans)


def canon_culprit(c):
    if isinstance(c, tuple) and c[0] == "atom":
        return "'%s'" % c[1]
    if isinstance(c, tuple) and c[0] == "num":
        return c[1]
    if c == []:
        return "[]"
    return str(c)


def agrees(model_out, view, st, root):
    """does the implementation's answer (view) agree with the model's answer text?"""
    f = model_out.split(" ")
    k = f[0]
    if k in ("yes", "no", "size", "names", "str", "segs"):
        if view[0] != "ok":
            return False
        sols = view[1]
        if k == "no":
            return sols == []
        if len(sols) != 1:
            return False
        v = sols[0]
        if k == "yes":
            return v == ("atom", "-")
        if k == "size":
            return v == int(f[1])
        if k == "names":
            want = sorted(f[2].split(",")) if int(f[1]) else []
            try:
                got = sorted(hexstr(codes_to_str(x)) for x in v)
            except Exception:
                return False
            return got == want
        if k == "str":
            want = bytes.fromhex(f[1]).decode("utf-8") if len(f) > 1 else ""
            if st["op"] == "pc":
                want = root if want == "/" else root + want
            try:
                return codes_to_str(v) == want
            except Exception:
                return False
        if k == "segs":
            want = f[2].split(",") if len(f) > 2 else [""]
            try:
                got = [hexstr(codes_to_str(x)) for x in v]
            except Exception:
                return False
            return got == want
    if k == "eInst":
        return view == ("ie",)
    if k == "eTypeList":
        return view[0] == "te" and view[1] == "list"
    if k == "eTypeInt":
        return view[0] == "te" and view[1] == "integer"
    if k == "eTypeChar":
        want = BAD_ELEMS[int(f[1])][1]
        return view[0] == "te" and view[1] == "character" and canon_culprit(view[2]) in (want, "'%s'" % want.strip("'"))
    if k in ("eNoFile", "eNoDir"):
        want = tr_path(root, bytes.fromhex(f[1]).decode("utf-8") if len(f) > 1 else "")
        return view[0] == "ee" and view[1] == ("file" if k == "eNoFile" else "directory") and view[2] == want
    return False


def oracle_agrees(orc, view, root):
    if orc is None:
        return True
    k, v = orc
    if k == "bool":
        return view[0] == "ok" and ((len(view[1]) == 1) == v) and len(view[1]) <= 1
    if k == "size":
        return view == ("ok", [v])
    if k == "nofile":
        return view[0] == "ee" and view[1] == "file" and view[2] == v
    if k == "names":
        try:
            return view[0] == "ok" and len(view[1]) == 1 and sorted(codes_to_str(x) for x in view[1][0]) == v
        except Exception:
            return False
    if k == "str":
        try:
            return view[0] == "ok" and len(view[1]) == 1 and codes_to_str(view[1][0]) == v
        except Exception:
            return False
    return True


def run_case(h, case, run_dir, gen_steps):
    """executes a case on harness h. case: {"id", "seed", "names", "init", "cwd", "steps"(optional)}.
    Returns the record with the executed steps, answers and trees."""
    root = os.path.join(run_dir, case["id"])
    setup_case(root, case["init"])
    cwd = case["cwd"]
    cwd_abs = os.path.join(root, *cwd) if cwd else root
    rec = {"answers": [], "trees": [], "oracles": [], "queries": [], "setup": "ok"}
    raw_unicode = case.get("raw_unicode", False)
    try:
        if not h.loaded or not h.query("c48(-, true, R).", 2).startswith("{R='ok'"):
            r = h.load(HELPER)
            if r != "loaded":
                rec["setup"] = "load:" + r
                return rec
            h.loaded = True
        r = h.query('working_directory(_, "%s").' % pl_escape(cwd_abs, False), 2)
        if not (r.startswith("true") or r.startswith("{}")):
            rec["setup"] = "chdir:" + r
            return rec
        steps = case.get("steps")
        rng = random.Random(case["seed"])
        g = Gen(rng, case["names"], cwd)
        n = len(steps) if steps is not None else gen_steps
        done = []
        tree_txt, tree = walk_tree(root)
        rec["tree0"] = tree_txt
        for i in range(n):
            if steps is not None:
                st = steps[i]
            else:
                if rng.random() < 0.07:
                    # the environment (this process) writes a file
                    dirs = [""] + [p for p, v in tree.items() if v == "D"]
                    d = rng.choice(dirs)
                    nm = rng.choice(case["names"])
                    p = (d + "/" + nm) if d else nm
                    if len(nm.encode()) <= 255 and tree.get(p) != "D" and len(p.encode()) < 3000:
                        st = {"op": "W", "p": p, "b": bytes(rng.randrange(256) for _ in range(rng.choice([0, 2, 9, 31]))).hex()}
                    else:
                        st = g.step(tree, root)
                else:
                    st = g.step(tree, root)
            done.append(st)
            if st["op"] == "W":
                with open(os.path.join(root, st["p"]), "wb") as fh:
                    fh.write(bytes.fromhex(st["b"]))
                rec["answers"].append("W")
                rec["queries"].append("(environment writes %s)" % st["p"])
                rec["oracles"].append(None)
            else:
                q, _tok = render_step(st, root, raw_unicode)
                rec["queries"].append(q)
                a = h.query(q, 3)
                rec["answers"].append(a)
                rec["oracles"].append(os_oracle(st, root, cwd_abs))
                if a.startswith("panic") or a.startswith("abort") or a.startswith("timeout"):
                    tree_txt, tree = walk_tree(root)
                    rec["trees"].append(tree_txt)
                    break
            tree_txt, tree = walk_tree(root)
            rec["trees"].append(tree_txt)
        rec["steps"] = done
    finally:
        # leave the case directory before it is removed (a process whose working directory is gone
        # cannot resolve anything any more); if that does not work, start a new process
        ok = False
        try:
            if h.p is not None and h.p.poll() is None:
                r = h.query('working_directory(_, "%s").' % pl_escape(run_dir, False), 2)
                if not (r.startswith("true") or r.startswith("{}")):
                    h.load(HELPER)
                    r = h.query('working_directory(_, "%s").' % pl_escape(run_dir, False), 2)
                ok = r.startswith("true") or r.startswith("{}")
        except Exception:
            ok = False
        if not ok:
            h.close()
            h.loaded = False
        shutil.rmtree(root, ignore_errors=True)
    return rec


def model_lines(case, rec):
    toks = []
    for st in rec.get("steps", []):
        if st["op"] == "W":
            toks.append("W|%s|%s" % (hexstr(st["p"]), st["b"] or "-"))
        else:
            toks.append(render_step(st, "", False)[1])
    init = " ".join(("D:%s" % hexstr(p)) if k == "D" else ("F:%s:%s" % (hexstr(p), b or "-")) for k, p, b in case["init"])
    cwd = hexstr("/".join(case["cwd"])) if case["cwd"] else "-"
    return ["RUN\t%s.%s\t%s\t%s\t%s\t%s" % (case["id"], m, m, cwd, init or "-", " ".join(toks) or "-") for m in ("fixed", "pinned")]


STEP_CLASS = {"fe": "file_exists", "de": "directory_exists", "fs": "file_size", "df": "directory_files",
              "md": "make_directory", "mp": "make_directory_path", "rf": "delete_file", "rd": "delete_directory",
              "rn": "rename_file", "cp": "file_copy", "pc": "path_canonical", "ps": "path_segments", "W": "env_write"}


def judge(case, rec, model, stats):
    """-> list of findings for one case"""
    out = []
    cid = case["id"]
    stored = dict(case)
    stored["steps"] = rec.get("steps", [])
    if rec["setup"] != "ok":
        stats["setup_failed"] += 1
        return [("setup", {"class": "setup", "what": rec["setup"].split(":")[0]}, "case set-up failed: " + rec["setup"], stored, "disagreement")]
    root = os.path.join(stats["run_dir"], cid)
    mf = model.get(cid + ".fixed", "missing").split(" ;; ")
    mp = model.get(cid + ".pinned", "missing").split(" ;; ")
    use = mf
    for i, st in enumerate(rec["steps"]):
        if i >= len(rec["answers"]) or i >= len(rec["trees"]):
            break
        a = rec["answers"][i]
        cls = STEP_CLASS[st["op"]]
        stats["steps"] += 1
        stats["per_op"][cls] = stats["per_op"].get(cls, 0) + 1
        if i >= len(use) or "|" not in use[i]:
            out.append(("model", {"class": "model-line", "op": cls}, "no model answer for step %d: %r" % (i, use[:1]), stored, "disagreement"))
            break
        mo, _, mt = use[i].partition("|")
        if mo == "outside":
            stats["outside"] += 1
            break
        if a.startswith("panic") or a.startswith("abort"):
            sig = {"class": "panic", "op": cls, "model": mo.split(" ")[0]}
            if st["op"] == "fs" and st["s"].startswith("i") and mo.split(" ")[0] in ("size", "no"):
                # file_size/2 called with its second argument already bound to an integer
                sig = {"class": "file_size_bound_size_panics", "op": cls}
                stats["known_shapes"]["file_size_bound_size_panics"] = stats["known_shapes"].get("file_size_bound_size_panics", 0) + 1
            out.append(("panic", sig, "step %d %s: %s (the model answers: %s)" % (i, rec["queries"][i], a, mo), stored, "violation"))
            break
        if a.startswith("timeout"):
            stats["timeouts"] += 1
            out.append(("timeout", {"class": "timeout", "op": cls}, "step %d %s: timeout" % (i, rec["queries"][i]), stored, "timeout"))
            break
        if st["op"] == "W":
            ans_ok, view = True, None
        else:
            view = impl_view(parse_answer(a))
            ans_ok = agrees(mo, view, st, root)
        tree_ok = (rec["trees"][i] == mt)
        orc_ok = oracle_agrees(rec["oracles"][i], view, root) if view is not None else True
        kind = mo.split(" ")[0]
        stats["answer_kinds"][kind] = stats["answer_kinds"].get(kind, 0) + 1
        if ans_ok and tree_ok and orc_ok:
            stats["agree"] += 1
            continue
        # does the pinned (defective) variant of the model explain it?
        if use is mf and i < len(mp) and "|" in mp[i]:
            po, _, pt = mp[i].partition("|")
            if st["op"] == "cp" and agrees(po, view, st, root) and rec["trees"][i] == pt and mt != pt:
                stats["known_shapes"]["file_copy_onto_itself"] = stats["known_shapes"].get("file_copy_onto_itself", 0) + 1
                out.append(("C48-1", {"class": "file_copy_onto_itself", "op": "file_copy"},
                            "step %d %s: source and target are the same file; the file is truncated to 0 bytes "
                            "(tree after: %s; expected unchanged)" % (i, rec["queries"][i], describe_tree(rec["trees"][i])),
                            stored, "violation"))
                use = mp
                continue
        what = []
        if not ans_ok:
            what.append("answer")
        if not tree_ok:
            what.append("tree")
        if not orc_ok:
            what.append("os-oracle")
        detail = ("step %d: %s\n implementation: %s\n model: %s\n os oracle: %r\n real tree : %s\n model tree: %s" % (
            i, rec["queries"][i], a, mo, rec["oracles"][i], describe_tree(rec["trees"][i]), describe_tree(mt)))
        # a query answer that the os oracle confirms while the model differs is a model problem
        is_query = st["op"] in ("fe", "de", "fs", "df", "pc", "ps")
        fk = "violation"
        if is_query and tree_ok and orc_ok and rec["oracles"][i] is not None:
            fk = "disagreement"
        out.append(("mismatch", {"class": "mismatch", "op": cls, "what": "+".join(what), "model": kind,
                                 "impl": (view[0] if view else "W")}, detail, stored, fk))
        break
    return out


def describe_tree(t):
    out = []
    for e in t.split(",") if t else []:
        k, rest = e[0], e[1:]
        p, _, b = rest.partition(":")
        try:
            name = bytes.fromhex(p).decode("utf-8", "replace")
        except ValueError:
            name = p
        if len(name) > 40:
            name = name[:20] + "…(%d)" % len(name)
        out.append("%s %r%s" % (k, name, ("=%s" % b) if k == "F" else ""))
    return "[" + ", ".join(out) + "]"


# ------------------------------------------------------------------ run

def make_cases(ctx, n):
    rng = ctx["rng"]
    cases = []
    for i in range(n):
        names = pick_names(rng)
        cases.append({"id": "c%d" % i, "seed": rng.getrandbits(48), "names": names, "init": gen_init(rng, names),
                      "cwd": rng.choice([["w"], ["w"], []]), "raw_unicode": rng.random() < 0.5})
    return cases


def run_all(cases, run_dir, gen_steps, jobs):
    recs = {}
    lock = threading.Lock()
    chunks = [cases[i::jobs] for i in range(jobs)]

    def work(chunk):
        h = Harness()
        try:
            for c in chunk:
                try:
                    r = run_case(h, c, run_dir, gen_steps(c))
                except Exception as e:       # never let a worker die silently
                    import traceback
                    r = {"setup": "exception:%r %s" % (e, traceback.format_exc()[-600:]), "answers": [], "trees": [], "oracles": [], "queries": [], "steps": []}
                with lock:
                    recs[c["id"]] = r
        finally:
            h.close()

    ts = [threading.Thread(target=work, args=(ch,)) for ch in chunks if ch]
    for t in ts:
        t.start()
    for t in ts:
        t.join()
    return recs


def run(ctx):
    tier = ctx["tier"]
    t0 = time.time()
    run_dir = os.path.realpath(os.path.join(core.BUILD, "tmp", "C48", "r%d-%d" % (os.getpid(), ctx["seed"])))
    assert "/build/tmp/C48/" in run_dir
    shutil.rmtree(run_dir, ignore_errors=True)
    os.makedirs(run_dir)
    stats = {"steps": 0, "agree": 0, "per_op": {}, "answer_kinds": {}, "outside": 0, "timeouts": 0, "setup_failed": 0,
             "known_shapes": {}, "run_dir": run_dir}
    findings = []
    try:
        replay = diff.replay_case(ctx)
        if replay is not None:
            cases = []
            for k, c in enumerate(replay):
                c = dict(c)
                c["id"] = "r%d" % k
                c["init"] = [tuple(x) for x in c["init"]]
                cases.append(c)
        else:
            corpus = []
            for k, c in enumerate(diff.load_corpus("C48")):
                c = dict(c)
                c["id"] = "k%d" % k
                c["init"] = [tuple(x) for x in c["init"]]
                corpus.append(c)
            n = 260 if tier == "quick" else 2500
            cases = corpus + make_cases(ctx, n)
        step_rng = random.Random(ctx["rng"].getrandbits(32))
        lens = {c["id"]: step_rng.randint(6, 15) for c in cases}
        jobs = min(6, int(os.environ.get("SV_JOBS") or 6)) if len(cases) >= 24 else 1
        recs = run_all(cases, run_dir, lambda c: lens[c["id"]], jobs)
        # a case that hit the watchdog / lost its harness is run once more, alone
        again = [c for c in cases if recs[c["id"]]["setup"] != "ok" or any(a.startswith(("timeout", "abort")) for a in recs[c["id"]]["answers"])]
        retried = len(again)
        if again:
            for c in again:
                c2 = dict(c)
                if recs[c["id"]].get("steps"):
                    c2["steps"] = recs[c["id"]]["steps"]
                recs[c["id"]] = run_all([c2], run_dir, lambda c: lens[c["id"]], 1)[c["id"]]
        lines = []
        for c in cases:
            lines.extend(model_lines(c, recs[c["id"]]))
        model = core.run_model(lines) if lines else {}
        distinct = set()
        samples = []
        for c in cases:
            rec = recs[c["id"]]
            for fid, sig, detail, stored, kind in judge(c, rec, model, stats):
                if kind == "timeout":
                    kind = "disagreement"
                stored = {k: v for k, v in stored.items() if k != "corpus"}
                findings.append(core.Finding(kind, sig, detail, stored))
            for st, q in zip(rec.get("steps", []), rec["queries"]):
                if st["op"] != "W":
                    distinct.add(q.replace(run_dir, ""))
            if len(samples) < 3 and rec.get("steps"):
                samples.append({"queries": [q.replace(run_dir, "<scratch>") for q in rec["queries"][:6]],
                                "answers": rec["answers"][:6]})
            if replay is not None:
                print("case %s" % c["id"])
                mfix = model.get(c["id"] + ".fixed", "missing").split(" ;; ")
                for i, q in enumerate(rec["queries"]):
                    print(" step %d: %s" % (i, q))
                    print("   implementation: %s" % (rec["answers"][i] if i < len(rec["answers"]) else "-"))
                    print("   real tree     : %s" % (describe_tree(rec["trees"][i]) if i < len(rec["trees"]) else "-"))
                    mo, _, mt = (mfix[i] if i < len(mfix) else "-|").partition("|")
                    print("   model         : %s" % mo)
                    print("   model tree    : %s" % describe_tree(mt))
    finally:
        shutil.rmtree(run_dir, ignore_errors=True)
        try:
            os.rmdir(os.path.dirname(run_dir))     # remove build/tmp/C48 when no other run uses it
        except OSError:
            pass
    core.log("[C48] %d cases, %d steps, %d agree, %d outside, %d retried, %.1fs" % (
        len(cases), stats["steps"], stats["agree"], stats["outside"], retried, time.time() - t0))
    stats.pop("run_dir")
    return {
        "evaluations": stats["steps"],
        "distinct_nontrivial": len(distinct),
        "rule": "a case = a scratch directory with a random initial tree (0-4 entries + sentinels) and a script of 6-15 steps "
                "generated from the observed real tree over 4-6 names (plain / spaces / dots / Unicode / shell-special / "
                "255-256-byte names); step = one library(files) predicate call (or an environment write) with a path text "
                "aiming at an existing file / directory / new name / missing parent / below a file, absolute or relative, "
                "decorated with `.`, `..` detours, doubled and trailing slashes; 10% ill-typed chars arguments. After every "
                "step answer, real tree (os.walk) and os.* oracle are compared with the model. distinct = distinct goal texts "
                "(scratch prefix removed); all are non-trivial (every step is judged on answer and tree)",
        "samples": samples,
        "traces_validated_against_impl": stats["agree"],
        "disagreements_checked": stats["steps"] - stats["agree"],
        "cases": len(cases),
        "per_operation": stats["per_op"],
        "model_answer_kinds": stats["answer_kinds"],
        "cases_cut_at_outside": stats["outside"],
        "retried_after_timeout": retried,
        "known_defect_instances": stats["known_shapes"],
        "exhaustive": False,
        "findings": findings,
    }
