"""C02 — Float and mixed-type evaluation follows IEEE-754 with ISO checks.

Expression trees over the float / mixed functors are evaluated by the implementation
(`catch(X is E, error(Err,_), true)`, floats printed as IEEE bits) and by the Lean model
(`drv_C02`, `Model/ArithMixed.lean`), and compared exactly.  The transcendental functions are a
parameter of the model: the driver answers `need <op> <bits> <bits>` when it lacks a value, this
module supplies the host libm's value (same shared libm the implementation links, via ctypes) and
re-runs the line.  Python does NOT evaluate expressions; it only renders them, bounds the size of
integer intermediates by a static estimate, and classifies disagreements."""
import ctypes
import math
import re
import struct
import time

from .. import core, diff

LEVEL = "proof"
TRUSTED_BASE = [
    "hardware/LLVM f64 + - * / sqrt trunc round floor and `as f64` are modelled by the exact IEEE-754 round-to-nearest-even result (Model/ArithFloat.lean); compared bit-for-bit on every generated line",
    "dashu IBig/RBig::to_f64, RBig floor/round and rational arithmetic are modelled by the exact result; compared on every generated line (this is how C04-1/C04-2 show up)",
    "host libm (sin cos tan log exp asin acos atan atan2 pow) is a PARAMETER of the model; its values are taken from the same libm.so.6 through ctypes; only the checks around the calls are proved",
    "rendering of an abstract expression to Prolog text and to the driver's prefix syntax (vlib/props/C02.py to_prolog/to_model); float literals are written with repr() and their parsing is cross-checked against the intended bits in every run",
]
ASSUMPTIONS = [
    "expressions are evaluated through run_query (the run-time evaluator arith_eval_by_metacall); the compiled instruction path is C03's subject",
    "integer intermediates are statically bounded to %d bits (allocation of huge bignums is C30's subject)" % 6000,
]

MAXBITS = 6000

# ------------------------------------------------------------------ floats as bits

def f2b(x):
    return struct.unpack("<Q", struct.pack("<d", x))[0]


def b2f(b):
    return struct.unpack("<d", struct.pack("<Q", b))[0]


def hex16(b):
    return "%016x" % b


_lm = None


def libm():
    global _lm
    if _lm is None:
        lm = ctypes.CDLL("libm.so.6")
        for n in ("sin", "cos", "tan", "log", "exp", "asin", "acos", "atan"):
            f = getattr(lm, n)
            f.restype = ctypes.c_double
            f.argtypes = [ctypes.c_double]
        for n in ("pow", "atan2"):
            f = getattr(lm, n)
            f.restype = ctypes.c_double
            f.argtypes = [ctypes.c_double, ctypes.c_double]
        _lm = lm
    return _lm


def libm_value(op, a, b):
    """bits of the host result of the closure the implementation applies (see arithmetic_ops.rs)."""
    lm = libm()
    x, y = b2f(a), b2f(b)
    if op == "log":
        r = lm.log(x) / lm.log(math.e)          # f64::log(self, E) = self.ln() / E.ln()
    elif op == "pow":
        r = lm.pow(x, y)
    elif op == "atan2":
        r = lm.atan2(x, y)
    else:
        r = getattr(lm, op)(x)
    return f2b(r)


# ------------------------------------------------------------------ expressions
# int leaf: Python int; float leaf: ("f", bits) (never -0.0: written as neg(0.0)); (op, x); (op, x, y)

UN_PL = {"neg": "-", "plus": "+", "abs": "abs", "sign": "sign", "float": "float", "sqrt": "sqrt",
         "fip": "float_integer_part", "ffp": "float_fractional_part", "floor": "floor",
         "ceiling": "ceiling", "truncate": "truncate", "round": "round", "sin": "sin", "cos": "cos",
         "tan": "tan", "log": "log", "exp": "exp", "asin": "asin", "acos": "acos", "atan": "atan"}
BIN_INFIX = {"add": "+", "sub": "-", "mul": "*", "div": "/", "pow": "**", "ipow": "^", "rdiv": "rdiv"}
BIN_FUN = {"atan2": "atan2", "max": "max", "min": "min"}
LIBM1 = ["sin", "cos", "tan", "log", "exp", "asin", "acos", "atan"]
ROUNDERS = ["floor", "ceiling", "truncate", "round"]


def is_f(e):
    return isinstance(e, tuple) and e[0] == "f"


def float_text(bits):
    x = b2f(bits)
    assert x == x and abs(x) != float("inf")
    s = repr(abs(x))
    if "e" in s:
        m, ex = s.split("e")
        if "." not in m:
            m += ".0"
        s = "%se%d" % (m, int(ex))
    elif "." not in s:
        s += ".0"
    return s if bits < 2 ** 63 else "(-%s)" % s


def to_prolog(e):
    if isinstance(e, int):
        return str(e) if e >= 0 else "(%d)" % e
    if is_f(e):
        return float_text(e[1])
    if len(e) == 2:
        return "%s(%s)" % (UN_PL[e[0]], to_prolog(e[1]))
    op, x, y = e
    if op in BIN_FUN:
        return "%s(%s,%s)" % (BIN_FUN[op], to_prolog(x), to_prolog(y))
    return "(%s %s %s)" % (to_prolog(x), BIN_INFIX[op], to_prolog(y))


def to_model(e):
    if isinstance(e, int):
        return str(e)
    if is_f(e):
        return "f:" + hex16(e[1])
    if len(e) == 2:
        return "( %s %s )" % (e[0], to_model(e[1]))
    return "( %s %s %s )" % (e[0], to_model(e[1]), to_model(e[2]))


def size(e):
    if isinstance(e, int) or is_f(e):
        return 1
    return 1 + sum(size(x) for x in e[1:])


def subtrees(e):
    if isinstance(e, int) or is_f(e):
        return [e]
    out = []
    for x in e[1:]:
        out.extend(subtrees(x))
    out.append(e)
    return out


class Reject(Exception):
    pass


def tybits(e):
    """static (type, bit bound): type in int/rat/flt/any. Raises Reject when an integer or rational
    intermediate could exceed MAXBITS or an integer power could blow up."""
    if isinstance(e, int):
        return "int", max(e.bit_length(), 1)
    if is_f(e):
        return "flt", 1130
    op = e[0]
    if len(e) == 2:
        t, b = tybits(e[1])
        if op in ("neg", "plus", "abs"):
            r = (t, b + 1)
        elif op == "sign":
            r = ("flt" if t == "flt" else ("any" if t == "any" else "int"), 2)
        elif op in ROUNDERS:
            r = ("int", (1026 if t in ("flt", "any") else 0) + (b + 2 if t != "flt" else 0))
        else:
            r = ("flt", 1130)
    else:
        (t1, b1), (t2, b2) = tybits(e[1]), tybits(e[2])
        ts = {t1, t2}
        if op in ("add", "sub", "mul"):
            b = (b1 + b2 + 1) if (op == "mul" or "rat" in ts or "any" in ts) else max(b1, b2) + 1
            if "flt" in ts:
                r = ("flt", 1130)
            elif "any" in ts:
                r = ("any", max(b, 1130))
            elif "rat" in ts:
                r = ("rat", b)
            else:
                r = ("int", b)
        elif op in ("div", "pow", "atan2"):
            r = ("flt", 1130)
        elif op == "ipow":
            if t1 in ("int", "any") and t2 in ("int", "any"):
                if not isinstance(e[2], int):
                    raise Reject()
                n = abs(e[2])
                if n > 64 and not (isinstance(e[1], int) and abs(e[1]) <= 1):
                    raise Reject()
                r = ("int" if t1 == "int" else "any", max(b1 * max(n, 1), 1130 if t1 == "any" else 1))
            else:
                r = ("flt", 1130)
        elif op in ("max", "min"):
            if t1 == t2 == "int":
                r = ("int", max(b1, b2))
            elif t1 == t2 == "rat":
                r = ("rat", max(b1, b2))
            else:
                r = ("any", max(b1, b2, 1130))
        elif op == "rdiv":
            r = ("rat", b1 + b2 + 2)
        else:
            raise ValueError(op)
    if r[1] > MAXBITS:
        raise Reject()
    return r


# ------------------------------------------------------------------ leaves

def fl(x):
    return ("f", f2b(float(x)))


MIN_SUB, MAX_SUB, MIN_NORM, MAX_F = 1, 2 ** 52 - 1, 2 ** 52, 0x7fefffffffffffff
F_BOUND_BITS = [0, MIN_SUB, 2, MAX_SUB, MIN_NORM, MIN_NORM + 1, MAX_F, MAX_F - 1,
                f2b(1.0), f2b(1.0) - 1, f2b(1.0) + 1, f2b(2.0), f2b(0.5), f2b(1.5), f2b(2.5), f2b(3.5),
                f2b(0.1), f2b(10.0), f2b(math.pi), f2b(math.e), f2b(2.0 ** -52),
                f2b(2.0 ** 52), f2b(2.0 ** 52 + 0.5), f2b(2.0 ** 52 - 0.5), f2b(2.0 ** 51 + 0.5),
                f2b(2.0 ** 53 - 1), f2b(2.0 ** 53), f2b(2.0 ** 53 + 2),
                f2b(2.0 ** 55), f2b(2.0 ** 55) - 1, f2b(2.0 ** 55) + 1, f2b(2.0 ** 55 - 0.5 * 8),
                f2b(2.0 ** 54), f2b(2.0 ** 56), f2b(2.0 ** 62), f2b(2.0 ** 63), f2b(2.0 ** 63) - 1, f2b(2.0 ** 64),
                f2b(1e22), f2b(1e23), f2b(1e308), f2b(1e154), f2b(2.0 ** 512), f2b(2.0 ** 512) - 1,
                f2b(2.0 ** -537), f2b(2.0 ** -1022), f2b(2.0 ** 1023), f2b(1e-308), f2b(1e-320),
                f2b(709.782712893384), f2b(709.782712893385), f2b(-745.2), f2b(1e-154),
                f2b(math.pi / 2), f2b(0.49999999999999994), f2b(4503599627370497.5)]
F_BOUND_BITS = sorted({b & (2 ** 63 - 1) for b in F_BOUND_BITS})
I_BOUND = [0, 1, -1, 2, -2, 3, 7, 10, -8, 2 ** 31, 2 ** 52, 2 ** 53 - 1, 2 ** 53, 2 ** 53 + 1, 2 ** 53 + 2,
           2 ** 53 + 3, 2 ** 54 + 2, 2 ** 54 + 6, 2 ** 55 - 1, 2 ** 55, 2 ** 55 + 1, -(2 ** 55), -(2 ** 55) - 1,
           2 ** 56, 2 ** 62, 2 ** 63 - 1, 2 ** 63, 2 ** 63 + 1, 2 ** 64, 2 ** 64 - 1, 2 ** 64 + 2 ** 11, 2 ** 64 + 2 ** 11 + 1,
           2 ** 64 + 3 * 2 ** 11, 2 ** 100, 10 ** 20, 10 ** 22, 10 ** 23, 2 ** 127, 2 ** 128 - 1, 2 ** 128,
           2 ** 1023, 2 ** 1024 - 2 ** 971, 2 ** 1024 - 2 ** 970 - 1, 2 ** 1024 - 2 ** 970, 2 ** 1024 - 1, 2 ** 1024,
           10 ** 308, 10 ** 309, 2 ** 1100]
R_BOUND = [(1, 3), (1, 2), (3, 2), (5, 2), (-7, 2), (-1, 2), (1, 10), (2 ** 53 + 1, 2), (2 ** 54 + 1, 2), (2 ** 54 + 3, 4),
           (1, 2 ** 1074), (1, 2 ** 1075), (3, 2 ** 1075), (1, 2 ** 1080), (2 ** 52 + 1, 2 ** 1075), (2 ** 53 - 1, 2 ** 1075),
           (2 ** 1024, 3), (2 ** 1025 - 2 ** 971, 2), (2 ** 1025 - 2 ** 971 - 1, 2), (10 ** 400, 3), (1, 10 ** 400),
           (2 ** 56 - 1, 2), (-(2 ** 56) - 1, 2), (2 ** 56 + 1, 2), (22, 7), (1, 3 * 2 ** 1022)]


def rand_float(rng):
    r = rng.random()
    if r < 0.45:
        b = rng.choice(F_BOUND_BITS)
        if rng.random() < 0.2:
            b = max(0, min(MAX_F, b + rng.choice([-2, -1, 1, 2])))
    elif r < 0.6:
        b = rng.getrandbits(63)
        if b > MAX_F:
            b = b % (MAX_F + 1)
    elif r < 0.75:
        b = f2b(rng.choice([0.5, 1.5, 2.5]) + rng.randrange(0, 2 ** rng.choice([3, 10, 30, 51, 52])))
    elif r < 0.9:
        b = f2b(rng.uniform(-10, 10) if rng.random() < 0.5 else rng.uniform(-1, 1))
        b &= 2 ** 63 - 1
    else:
        ex = rng.choice([0, 1, 2, 1022, 1023, 1024, 1075, 1076, 1077, 1078, 1086, 1087, 2045, 2046])
        b = ex * 2 ** 52 + rng.getrandbits(52)
    e = ("f", b)
    if b == 0:
        return ("neg", e) if rng.random() < 0.4 else e
    if rng.random() < 0.35:
        e = ("f", b + 2 ** 63)
    return e


def rand_int(rng):
    r = rng.random()
    if r < 0.5:
        v = rng.choice(I_BOUND)
        if rng.random() < 0.25:
            v += rng.choice([-2, -1, 1, 2])
    elif r < 0.7:
        v = rng.randint(-20, 20)
    elif r < 0.85:
        # 54..200-bit integers with interesting low bits (ties and sticky bits of the conversion)
        bits = rng.choice([54, 55, 56, 60, 64, 65, 100, 128, 129, 130, 160, 200])
        top = rng.getrandbits(53) | (1 << 52)
        low_bits = bits - 53
        half = 1 << (low_bits - 1)
        low = rng.choice([0, half, half + 1, half - 1, 1, (1 << low_bits) - 1, half + (1 << rng.randrange(0, low_bits))])
        v = (top << low_bits) + (low % (1 << low_bits))
    else:
        v = rng.getrandbits(rng.choice([30, 64, 128, 300, 1000, 1024, 1030]))
    if v > 0 and rng.random() < 0.3:
        v = -v
    return v


def rand_rat(rng):
    r = rng.random()
    if r < 0.5:
        n, d = rng.choice(R_BOUND)
    elif r < 0.8:
        n = rng.getrandbits(rng.choice([3, 10, 54, 64, 120, 200])) + 1
        d = rng.getrandbits(rng.choice([3, 10, 54, 64, 120, 200])) + 1
    else:
        # near-tie: (2m+1) / 2^k with m of 53 bits, scaled by an odd factor
        m = rng.getrandbits(53) | (1 << 52)
        k = rng.choice([1, 2, 60, 1000, 1126, 1127])
        q = rng.choice([1, 3, 5, 7])
        n, d = (2 * m + 1) * q + rng.choice([0, 0, 1, -1]), q * 2 ** k
    if rng.random() < 0.3:
        n = -n
    return ("rdiv", n, d)


def rand_leaf(rng, want=None):
    k = want or rng.choice(["f", "f", "f", "i", "i", "r"])
    return rand_float(rng) if k == "f" else rand_int(rng) if k == "i" else rand_rat(rng)


UN_W = (["sqrt"] * 4 + ["float"] * 4 + ROUNDERS * 3 + ["fip", "ffp"] * 2 + LIBM1 + ["log", "exp", "exp"]
        + ["neg", "abs", "sign", "plus"])
BIN_W = (["add", "sub", "mul"] * 3 + ["div"] * 5 + ["pow"] * 3 + ["ipow"] * 3 + ["atan2"] * 2
         + ["max", "min", "rdiv"])


def rand_expr(rng, depth):
    if depth == 0:
        return rand_leaf(rng)
    if rng.random() < 0.4:
        op = rng.choice(UN_W)
        return (op, rand_expr(rng, depth - 1))
    op = rng.choice(BIN_W)
    l = rand_expr(rng, depth - 1)
    if op == "ipow" and rng.random() < 0.7:
        r = rng.choice([0, 1, 2, 3, -1, -2, 5, 10, 64, ("f", f2b(0.5)), ("f", f2b(2.0)), ("f", f2b(-1.0) ),
                        ("rdiv", 1, 3), ("rdiv", 1, 2), 2 ** 64, -(2 ** 64), ("f", f2b(3.0))])
    elif op == "pow" and rng.random() < 0.5:
        r = rng.choice([0, 1, 2, -1, -2, 1023, 1024, -1074, -1075, ("f", f2b(0.5)), ("f", f2b(-0.5)), ("f", f2b(1e300)),
                        ("neg", ("f", 0)), ("f", 0), ("rdiv", 1, 3), 10 ** 400])
    else:
        r = rand_expr(rng, depth - 1)
    return (op, l, r)


def boundary_cases():
    """every unary functor over every boundary leaf (both signs); used exhaustively in the thorough tier."""
    leaves = []
    for b in F_BOUND_BITS:
        leaves.append(("f", b))
        leaves.append(("f", b + 2 ** 63) if b else ("neg", ("f", 0)))
    for v in I_BOUND:
        leaves += [v, -v] if v > 0 else [v]
    for n, d in R_BOUND:
        leaves += [("rdiv", n, d), ("rdiv", -n, d)]
    out = []
    for op in sorted(set(UN_W)):
        for x in leaves:
            out.append((op, x))
    return out, leaves


def gen_cases(rng, tier):
    exprs = []
    un_all, leaves = boundary_cases()
    # always: the integer rounding functions over every boundary float and rational (ties, ±2^55, ±0.5 …)
    core_set = [(op, x) for op in ROUNDERS for x in leaves if not isinstance(x, int)]
    exprs += core_set
    # always: the error table (zero bases/divisors/arguments of every representation)
    zeros = [0, ("f", 0), ("neg", ("f", 0)), ("rdiv", 0, 3), ("sub", 2 ** 64, 2 ** 64)]
    negs = [-1, -2, ("f", f2b(-1.0)), ("f", f2b(-0.5)), ("rdiv", -1, 2), -(2 ** 64), ("f", f2b(-1e300)), ("f", 2 ** 63 + 1)]
    tiny = [("rdiv", 1, 10 ** 400), ("rdiv", 1, 2 ** 1080), ("rdiv", -1, 2 ** 1076)]
    nums = [1, -1, ("f", f2b(1.0)), ("f", f2b(-2.5)), ("rdiv", 1, 3), 2 ** 64, ("f", MAX_F), ("f", 1)]
    for z in zeros:
        for n in negs:
            exprs += [("pow", z, n), ("ipow", z, n)]
        for z2 in zeros:
            exprs += [("atan2", z, z2), ("div", z, z2), ("pow", z, z2), ("ipow", z, z2)]
        for n in nums:
            exprs += [("div", n, z), ("atan2", n, z), ("atan2", z, n), ("rdiv", n, z)]
        exprs += [("log", z), ("sqrt", z), ("exp", z)]
    for t in tiny:
        for n in nums:
            exprs += [("div", n, t), ("mul", n, t), ("pow", t, n)]
    for n in negs:
        exprs += [("sqrt", n), ("log", n), ("ipow", n, ("f", f2b(0.5))), ("ipow", n, ("rdiv", 1, 3)), ("pow", n, ("f", f2b(0.5)))]
    if tier == "thorough":
        exprs += un_all
        n_pairs, n_rand = 40000, 40000
    else:
        exprs += rng.sample(un_all, 400)
        n_pairs, n_rand = 700, 600
    for _ in range(n_pairs):
        op = rng.choice(sorted(set(BIN_W)))
        a = rng.choice(leaves) if rng.random() < 0.6 else rand_leaf(rng)
        b = rng.choice(leaves) if rng.random() < 0.6 else rand_leaf(rng)
        exprs.append((op, a, b))
    for _ in range(n_rand):
        exprs.append(rand_expr(rng, rng.choice([1, 1, 2, 2, 3])))
    out = []
    seen = set()
    for e in exprs:
        try:
            tybits(e)
        except Reject:
            continue
        t = to_model(e)
        if t in seen:
            continue
        seen.add(t)
        out.append(e)
    return out


# ------------------------------------------------------------------ running

def make_case(cid, e):
    # `_ = 0.0` makes +0.0 the first zero this machine's float table sees (see notes/findings/C02-2.md)
    q = "_ = 0.0, catch(X is %s, error(Err,_), true)." % to_prolog(e)
    return {"id": cid, "expr": to_model(e), "prolog": q, "impl": ["Q\t%s\t2\t%s" % (cid, q)],
            "model": ["evalf\t%s\t\t%s" % (cid, to_model(e))]}


def probe_case():
    """C02-2 on a fresh machine: once -0.0 is the first zero stored, the literal 0.0 reads as -0.0."""
    return {"id": "zprobe", "expr": "( atan2 f:0000000000000000 f:bff0000000000000 )",
            "prolog": "[fresh machine] X0 is -1.0 * 0.  then  X is atan2(0.0, -1.0).",
            "impl": ["R\tzprobeR", "Q\tzprobe0\t2\tX0 is -1.0 * 0.",
                     "Q\tzprobe\t2\tcatch(X is atan2(0.0, -1.0), error(Err,_), true).", "R\tzprobeR2"],
            "model": ["evalf\tzprobe\t\t( atan2 f:0000000000000000 f:bff0000000000000 )"], "probe": "zero_sign"}


def canon_impl(res):
    m = re.fullmatch(r"\{X=f\(([0-9a-f]{16})\)\}", res)
    if m:
        return "ok f " + m.group(1)
    m = re.fullmatch(r"\{X=(-?\d+)\}", res)
    if m:
        return "ok i " + m.group(1)
    m = re.fullmatch(r"\{X=r\((-?\d+),(\d+)\)\}", res)
    if m:
        return "ok r %s %s" % (m.group(1), m.group(2))
    m = re.fullmatch(r"\{Err='evaluation_error'\('(\w+)'\)\}", res)
    if m:
        return "err " + m.group(1)
    m = re.fullmatch(r"\{Err='type_error'\('float',(-?\d+)\)\}", res)
    if m:
        return "err type_float " + m.group(1)
    if res.startswith("panic("):
        # the debug assertion of Fixnum::build_with_unchecked / the todo!() of floor/1
        if "should be in the range" in res or "not yet implemented" in res:
            return "panic"
        return "panic-other " + res[:200]
    return "other " + res


def canon_model(res):
    if res.startswith("ok i "):
        return " ".join(res.split(" ")[:3])
    return res


def run_model(items):
    """items: list of (id, op, expr_text). Supplies libm values on demand. Returns id -> result."""
    tables = {i: {} for i, _, _ in items}
    todo = list(items)
    out = {}
    rounds = 0
    libm_calls = 0
    while todo and rounds < 40:
        rounds += 1
        lines = []
        for i, op, ex in todo:
            t = " ".join("%s:%s=%s" % (k[0], k[1] if k[0] not in ("pow", "atan2") else k[1] + "," + k[2], v)
                         for k, v in tables[i].items())
            lines.append("%s\t%s\t%s\t%s" % (op, i, t, ex))
        res = core.run_model(lines)
        nxt = []
        for i, op, ex in todo:
            r = res.get(i, "missing")
            if r.startswith("need "):
                _, f, a, b = r.split(" ")
                v = hex16(libm_value(f, int(a, 16), int(b, 16)))
                tables[i][(f, a, b)] = v
                libm_calls += 1
                nxt.append((i, op, ex))
            else:
                out[i] = r
        todo = nxt
    for i, _, _ in todo:
        out[i] = "need-loop"
    return out, tables, libm_calls


def run_pairs(cases):
    """implementation + model (repaired and pinned) for every case; retries impl timeouts once."""
    t0 = time.time()
    impl = core.run_impl_parallel([c["impl"] for c in cases])
    retried = 0
    for attempt in range(2):
        flaky = [c for c in cases if transient(impl.get(c["id"], "missing"))]
        if not flaky:
            break
        retried += len(flaky)
        impl.update(core.run_impl([l for c in flaky for l in c["impl"]]))
    t1 = time.time()
    items = []
    for c in cases:
        items.append((c["id"], "evalf", c["expr"]))
        items.append(("p" + c["id"], "evalp", c["expr"]))
    model, tables, calls = run_model(items)
    if len(cases) > 200:
        core.log("[C02] %d cases: implementation %.1fs (%d retried), model %.1fs (%d libm values)" % (
            len(cases), t1 - t0, retried, time.time() - t1, calls))
    return impl, model, tables, calls, retried


def transient(r):
    """results that only say the harness process was starved/killed under machine load"""
    return r in ("timeout", "missing") or r.startswith(("abort(", "skipped(", "exception(")) or (
        r.startswith("panic(") and "should be in the range" not in r and "not yet implemented" not in r)


def check_literals(exprs):
    """the implementation must read every float literal we write as the intended bits (number parsing is
    another property's subject: a literal that is read differently is excluded and reported)."""
    lits = sorted({x[1] for e in exprs for x in subtrees(e) if is_f(x)})
    bad = set()
    lines = []
    for k in range(0, len(lits), 40):
        chunk = lits[k:k + 40]
        q = "X = [%s]." % ",".join(float_text(b) for b in chunk)
        lines.append(["Q\tlit%d\t2\t%s" % (k, q)])
    res = core.run_impl_parallel(lines)
    for k in range(0, len(lits), 40):
        chunk = lits[k:k + 40]
        r = res.get("lit%d" % k, "")
        got = re.findall(r"f\(([0-9a-f]{16})\)", r)
        want = [hex16(b) for b in chunk]
        if got != want:
            if len(got) == len(want):
                bad |= {b for b, g, w in zip(chunk, got, want) if g != w}
            else:
                bad |= set(chunk)
    return bad, len(lits)


def zero_sign_only(iv, mv):
    z = ("ok f 0000000000000000", "ok f 8000000000000000")
    return iv in z and mv in z and iv != mv


def classify_all(trees):
    """for each failing expression find a minimal failing witness among its sub-expressions `s` and
    `float(s)` (one batch for all). Returns a list of (class, witness_expr, impl, model, witness_case)."""
    cand_ix = {}
    cands = []
    per_tree = []
    for e in trees:
        mine = []
        for s in subtrees(e):
            for c in ([s] if (isinstance(s, tuple) and s[0] == "float") else [s, ("float", s)]):
                t = to_model(c)
                if t not in cand_ix:
                    cand_ix[t] = len(cands)
                    cands.append(c)
                if cand_ix[t] not in mine:
                    mine.append(cand_ix[t])
        mine.sort(key=lambda k: size(cands[k]))
        per_tree.append(mine)
    cases = [make_case("w%d" % k, c) for k, c in enumerate(cands)]
    impl, model, _, _, _ = run_pairs(cases)
    out = []
    for e, mine in zip(trees, per_tree):
        res = ("unreproducible", e, "", "", None)
        for k in mine:
            c, ex = cases[k], cands[k]
            iv = canon_impl(impl.get(c["id"], "missing"))
            mv = canon_model(model.get(c["id"], "missing"))
            pv = canon_model(model.get("p" + c["id"], "missing"))
            if iv == mv:
                continue
            cls = "op:" + (ex[0] if isinstance(ex, tuple) else "leaf")
            if pv != mv and iv == pv:
                cls = "rnd_i_fixnum_max"
            elif zero_sign_only(iv, mv):
                cls = "zero_sign"
            elif isinstance(ex, tuple) and ex[0] == "float" and mv.startswith(("ok f", "err float_overflow")):
                kk = cand_ix.get(to_model(ex[1]))
                inner = canon_model(model.get(cases[kk]["id"], "")) if kk is not None else ""
                if inner.startswith("ok i"):
                    cls = "int_to_f64"
                elif inner.startswith("ok r"):
                    cls = "rat_to_f64"
            res = (cls, ex, iv, mv, c)
            break
        out.append(res)
    return out


def run(ctx):
    rng, tier = ctx["rng"], ctx["tier"]
    rep = diff.replay_case(ctx)
    literal_note = {}
    if rep is not None:
        cases = rep
        exprs = []
    else:
        cases = diff.load_corpus("C02")
        exprs = gen_cases(rng, tier)
        bad, nlit = check_literals(exprs)
        literal_note = {"float_literals_checked": nlit, "float_literals_misread": [hex16(b) for b in sorted(bad)][:10]}
        if bad:
            exprs = [e for e in exprs if not any(is_f(x) and x[1] in bad for x in subtrees(e))]
        cases.append(probe_case())
        k = len(cases)
        for e in exprs:
            c = make_case("a%d" % k, e)
            c["tree"] = e
            cases.append(c)
            k += 1
    impl, model, tables, calls, retried = run_pairs(cases)
    findings = []
    agree = 0
    distinct = set()
    kinds = {}
    root_ops = {}
    classes = {}
    mismatches = []
    for c in cases:
        i = c["id"]
        iv = canon_impl(impl.get(i, "missing"))
        mv = canon_model(model.get(i, "missing"))
        pv = canon_model(model.get("p" + i, "missing"))
        key = mv.split(" ")[0] + " " + mv.split(" ")[1] if " " in mv else mv
        kinds[key] = kinds.get(key, 0) + 1
        rop = c["expr"].split(" ")[1] if c["expr"].startswith("(") else "leaf"
        root_ops[rop] = root_ops.get(rop, 0) + 1
        distinct.add(c["expr"])
        if rep is not None:
            print("replay %s: impl=%s model=%s pinned-model=%s" % (c.get("prolog"), iv, mv, pv))
        if iv == mv:
            agree += 1
            continue
        mismatches.append((c, iv, mv, pv))
    msamples = []
    # one batch: minimal failing witnesses for the cases that are not explained by a known class already
    need = [k for k, (c, iv, mv, pv) in enumerate(mismatches)
            if not c.get("probe") and not (pv != mv and iv == pv) and not zero_sign_only(iv, mv)
            and c.get("tree") is not None][:400]
    witnesses = dict(zip(need, classify_all([mismatches[k][0]["tree"] for k in need]))) if need else {}
    for k, (c, iv, mv, pv) in enumerate(mismatches):
        rop = c["expr"].split(" ")[1] if c["expr"].startswith("(") else "leaf"
        case = {kk: c[kk] for kk in ("id", "expr", "prolog", "impl", "model", "probe") if kk in c}
        cls, wit = None, None
        if c.get("probe"):
            cls = c["probe"]
        elif pv != mv and iv == pv:
            cls = "rnd_i_fixnum_max"
        elif zero_sign_only(iv, mv):
            cls = "zero_sign"
        elif k in witnesses:
            cls, w, wi, wm, wc = witnesses[k]
            if wc is not None:
                wit = {"expr": to_model(w), "prolog": wc["prolog"], "impl": wi, "model": wm}
                case = {kk: wc[kk] for kk in ("id", "expr", "prolog", "impl", "model")}
        if cls is None:
            cls = "op:" + rop
        classes[cls] = classes.get(cls, 0) + 1
        if len(msamples) < 80:
            msamples.append({"class": cls, "prolog": (wit or c).get("prolog"), "impl": (wit or {"impl": iv})["impl"],
                             "model": (wit or {"model": mv})["model"], "from": c.get("prolog")})
        if cls in ("rnd_i_fixnum_max", "zero_sign", "int_to_f64", "rat_to_f64"):
            sig = {"family": "arithf", "class": cls}
        else:
            sig = {"family": "arithf", "class": cls, "expr": (wit or c)["expr"], "impl": (wit or {"impl": iv})["impl"],
                   "model": (wit or {"model": mv})["model"]}
        detail = {
            "rnd_i_fixnum_max": "floor/ceiling/truncate/round of a float whose integral value is 2^55: rnd_i's range test accepts it (Fixnum::MAX as f64 == 2^55) and builds an out-of-range fixnum unchecked (notes/findings/C02-1.md)",
            "zero_sign": "the sign of a float zero is lost: the float table interns by OrderedFloat equality, so whichever of +0.0/-0.0 a machine stores first replaces the other from then on (notes/findings/C02-2.md)",
            "int_to_f64": "integer -> float conversion is not correctly rounded (dashu IBig::to_f64, see notes/findings/C04-1.md)",
            "rat_to_f64": "rational -> float conversion is not correctly rounded (dashu RBig::to_f64, see notes/findings/C04-2.md)",
        }.get(cls, "implementation result differs from the IEEE-754/ISO reference value computed by the model")
        # the model's value is the proved reference (exactly rounded result / error table): oracle broken
        kind = "disagreement" if iv.startswith(("other", "missing", "panic-other")) else "violation"
        if wit:
            case["witness_of"] = c.get("prolog")
        findings.append(core.Finding(kind, sig, detail, case))
    stats = {
        "evaluations": len(cases),
        "distinct_nontrivial": len(distinct),
        "rule": "expression trees (depth<=3) over + - * / ** ^ atan2 max min rdiv, sqrt float float_integer_part float_fractional_part floor ceiling truncate round sin..atan neg abs sign; leaves: boundary floats (±0, min/max subnormal, min normal, MAX, 2^52±.5, 2^53±, 2^55±, 2^63, 2^512, exp/overflow thresholds, random bit patterns, x.5 ties), integers (2^53±1, 2^55±1, 2^63, 2^64+2^11 ties, 2^128, 2^1024-2^970 overflow threshold, random 54-1030 bit with tie/sticky low bits) and rationals (ties, subnormal range, 2^1024/3, 10^±400); every case involves a float operation, conversion or rounding function, so all are non-trivial; distinct by expression text",
        "samples": [c["prolog"] for c in cases[:3]] + [c["prolog"] for c in cases[-3:]],
        "traces_validated_against_impl": agree,
        "disagreements_checked": len(cases) - agree,
        "result_kinds": kinds,
        "root_ops": root_ops,
        "mismatch_classes": classes,
        "mismatch_samples": msamples,
        "libm_values_supplied": calls,
        "retried": retried,
        "exhaustive": False,
        "findings": findings,
    }
    stats.update(literal_note)
    return stats
