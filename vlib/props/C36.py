"""C36 — format/2 directives produce the documented text (library(format), format_//2).

One abstract *item* = a format string term + an argument list term. From an item we produce
  * the Prolog query `c36_run(Fs, Args, R)` (R = res(Fs, Args, ok(Chars) | err(Formal) | failed): the
    echo of Fs and Args guards the Python -> Prolog text translation), and a query that asks the
    implementation for the write/writeq text of every argument (the parameter of `~w`/`~q`);
  * the line for the Lean model driver (drv_C36: transcription of format.pl, Model/Format.lean),
    run twice: repaired (`fixed`, what the theorems are about) and `pinned` (reproduces the two
    defects of `~Nd`/`~ND`/`~NU` on negative integers, used only to classify).
The implementation's answer must be, character for character, what the repaired model prints.
"""
import re
import struct
import time

from .. import core, diff

LEVEL = "proof"
TRUSTED_BASE = [
    "vlib/props/C36.py renders one abstract item (format string, argument terms) as Prolog text and in the canonical term syntax read by drv_C36; the implementation echoes both terms back and the echo is compared, so a translation slip shows up as a disagreement",
    "the text of ~w/~q is the implementation's own write_term_to_chars/3 with the options the library passes (numbervars(true), [quoted(true)], variable_names = the fabricated names _A,_B,... in term_variables order, which this file computes); write/writeq themselves are C21/C22's subject",
    "the arithmetic of ~Nf (float_fractional_part, abs, *, 10^N, round, truncate, sign) is the committed C02 model (Model/ArithMixed.lean) called goal by goal by Drv/C36.lean",
    "Drv/TermIO.lean (canonical term reader/printer) and harness/src/canon.rs print the same syntax",
]
ASSUMPTIONS = [
    "observed through phrase(format_(Fs,Args),Cs) (format/2,3 are phrase_to_stream wrappers around it and are not exercised; what they have already written when an error is raised is not observed)",
    "~d/~r arguments that are not integers are numbers, variables, non-evaluable atoms/compounds, or + - * expressions over integers (general arithmetic evaluation is C01-C03's subject)",
    "a `*` argument that is not an integer: only 'some error is raised, no output' is checked (model result `unspec`), never together with another error source, and not for ~*| (which the library accepts silently when the cell has no fill point)",
    "rational arguments of ~Nf are restricted to those whose rational->double conversion is the nearest double (the pinned dashu conversion double-rounds: findings C04-2/C02-3); floats -0.0, inf, nan cannot be written as literals and are not used",
    "argument lists with an improper non-variable tail ([a|b]) are not used: the harness' term conversion panics on them",
]

IMPL_ENV = {"SV_TIMEOUT_MS": "60000"}

HELPER = (
    ":- use_module(library(format)).\n:- use_module(library(charsio)).\n:- use_module(library(lists)).\n"
    ":- use_module(library(dcgs)).\n"
    "c36_conv(A0, A) :- ( nonvar(A0), A0 = '$rat'(N,D) -> A is N rdiv D ; A = A0 ).\n"
    "c36_run(F, A, res(F, A, R)) :- catch((phrase(format_(F, A), Cs) -> R = ok(Cs) ; R = failed), error(E, _), R = err(E)).\n"
    "c36_runr(F, A0, R) :- maplist(c36_conv, A0, A), c36_run(F, A, R).\n"
    "c36_text(VNs, A, W-Q) :- write_term_to_chars(A, [numbervars(true),variable_names(VNs)], W), "
    "write_term_to_chars(A, [quoted(true),numbervars(true),variable_names(VNs)], Q).\n"
    "c36_texts(A, VNs, Ts) :- maplist(c36_text(VNs), A, Ts).\n"
    "c36_textsr(A0, VNs, Ts) :- maplist(c36_conv, A0, A), c36_texts(A, VNs, Ts).\n"
)


def transient(r):
    return (r == "missing" or r.startswith("timeout") or r.startswith("abort") or r.startswith("skipped")
            or r.startswith("panic"))


# ------------------------------------------------------------------ terms

NIL = ("atom", "[]")


def I(v):
    return ("int", v)


def A(s):
    return ("atom", s)


def V(n):
    return ("var", n)


def F(x):
    return ("flt", x)


def Q(n, d):
    return ("rat", n, d)


def S(f, *args):
    return ("str", f, list(args))


def L(items, tail=NIL):
    t = tail
    for x in reversed(items):
        t = ("str", ".", [x, t])
    return t


def STR(s):
    return L([A(c) for c in s])


def unroll(t):
    items = []
    while t[0] == "str" and t[1] == "." and len(t[2]) == 2:
        items.append(t[2][0])
        t = t[2][1]
    return items, t


def esc_q(s, q):
    out = []
    for c in s:
        if c == "\\":
            out.append("\\\\")
        elif c == q:
            out.append("\\" + c)
        elif ord(c) < 0x20 or ord(c) == 0x7f:
            out.append("\\x%x\\" % ord(c))
        else:
            out.append(c)
    return "".join(out)


def flt_bits(x):
    return struct.pack(">d", x).hex()


def flt_literal(x):
    r = repr(float(x))
    if "e" in r:
        m, e = r.split("e")
        if "." not in m:
            m += ".0"
        return "%se%d" % (m, int(e))
    return r


def show(t, prolog=False):
    """canonical syntax of harness/src/canon.rs; with prolog=True floats are literals and rationals
    the marker '$rat'(N,D) that the helper predicate turns into a rational."""
    k = t[0]
    if k == "int":
        return str(t[1])
    if k == "flt":
        return flt_literal(t[1]) if prolog else "f(%s)" % flt_bits(t[1])
    if k == "rat":
        return ("'$rat'(%d,%d)" if prolog else "r(%d,%d)") % (t[1], t[2])
    if k == "atom":
        return "[]" if t[1] == "[]" else "'" + esc_q(t[1], "'") + "'"
    if k == "var":
        return t[1]
    f, args = t[1], t[2]
    if f == "." and len(args) == 2:
        items, tail = unroll(t)
        if tail == NIL:
            if all(x[0] == "atom" and len(x[1]) == 1 for x in items):
                return '"' + esc_q("".join(x[1] for x in items), '"') + '"'
            return "[" + ",".join(show(x, prolog) for x in items) + "]"
        return "'.'(%s,%s)" % (show(args[0], prolog), show(args[1], prolog))
    return "'" + esc_q(f, "'") + "'(" + ",".join(show(x, prolog) for x in args) + ")"


# ------------------------------------------------------------------ reader for the canonical syntax
# (the harness prints a character list whose cells are partly list cells and partly a packed string
#  as '.'('a',"bc"): answers are parsed and printed again so that equal terms have equal text)

class ParseError(Exception):
    pass


def _quoted(s, i, q):
    out = []
    while True:
        if i >= len(s):
            raise ParseError("unterminated quote")
        c = s[i]
        if c == "\\":
            d = s[i + 1]
            if d == "x":
                j = s.index("\\", i + 2)
                out.append(chr(int(s[i + 2:j], 16)))
                i = j + 1
            else:
                out.append(d)
                i += 2
        elif c == q:
            return "".join(out), i + 1
        else:
            out.append(c)
            i += 1


def _args(s, i, close):
    xs = []
    while True:
        t, i = _term(s, i)
        xs.append(t)
        if s[i] == ",":
            i += 1
        elif s[i] == close:
            return xs, i + 1
        else:
            raise ParseError("expected , or %s at %d" % (close, i))


def _term(s, i):
    c = s[i]
    if c == "'":
        name, i = _quoted(s, i + 1, "'")
        if i < len(s) and s[i] == "(":
            xs, i = _args(s, i + 1, ")")
            return ("str", name, xs), i
        return ("atom", name), i
    if c == '"':
        cs, i = _quoted(s, i + 1, '"')
        return STR(cs), i
    if c == "[":
        if s[i + 1] == "]":
            return NIL, i + 2
        xs, i = _args(s, i + 1, "]")
        return L(xs), i
    if s.startswith("r(", i):
        j = s.index(")", i)
        n, d = s[i + 2:j].split(",")
        return ("rat", int(n), int(d)), j + 1
    if s.startswith("f(", i):
        j = s.index(")", i)
        return ("flt", struct.unpack(">d", bytes.fromhex(s[i + 2:j]))[0]), j + 1
    if c == "-" or c.isdigit():
        j = i + 1
        while j < len(s) and s[j].isdigit():
            j += 1
        return ("int", int(s[i:j])), j
    if c.isalpha() or c == "_":
        j = i + 1
        while j < len(s) and (s[j].isalnum() or s[j] == "_"):
            j += 1
        return ("var", s[i:j]), j
    raise ParseError("unexpected %r at %d" % (c, i))


def parse_canon(s):
    t, i = _term(s, 0)
    if i != len(s):
        raise ParseError("trailing text at %d" % i)
    return t


def normalise(s):
    """canonical text -> canonical text with every character list printed as a string."""
    try:
        return show(parse_canon(s))
    except (ParseError, ValueError, IndexError):
        return None



def term_vars(t, acc):
    if t[0] == "var":
        if t[1] not in acc:
            acc.append(t[1])
    elif t[0] == "str":
        for x in t[2]:
            term_vars(x, acc)
    return acc


def fabricated(n):
    """charsio:fabricate_var_name(fabricated, Name, N)."""
    letter = chr(65 + n % 26)
    return "_" + letter if n // 26 == 0 else "_%s%d" % (letter, n // 26)


def has_rat(t):
    return t[0] == "rat" or (t[0] == "str" and any(has_rat(x) for x in t[2]))


def harness_escape(s):
    return s.replace("\\", "\\\\").replace("\n", "\\n").replace("\t", "\\t").replace("\r", "\\r")


def qline(i, goal):
    return "Q\t%s\t2\t%s" % (i, harness_escape(goal))


# ------------------------------------------------------------------ value generators

TEXT_ALPHA = "abcxyzABZ019 .,:;-_+*/=<>()[]{}!?#$%&@^|'\"\\\u00e9\u03bb\u4e2d"
FILL_CHARS = " .-*0_=x~`t\u00e9"


def gen_int(rng, negative_ok=True):
    r = rng.random()
    if r < 0.25:
        v = rng.choice([0, 1, 5, 9, 10, 11, 99, 100, 101, 999, 1000, 1001, 9999, 12345, 99999, 100000, 999999,
                        1000000, 1234567, 10 ** 9, 2 ** 31, 2 ** 53, 2 ** 63 - 1, 2 ** 63, 2 ** 64, 10 ** 18, 10 ** 19])
    elif r < 0.5:
        v = rng.randrange(0, 10 ** rng.randrange(1, 8))
    elif r < 0.75:
        k = rng.randrange(1, 60)
        v = 10 ** k + rng.choice([-1, 0, 1])
    else:
        v = rng.getrandbits(rng.randrange(1, 300))
    if negative_ok and rng.random() < 0.35:
        v = -v
    return v


def gen_float(rng):
    r = rng.random()
    if r < 0.2:
        x = rng.choice([0.0, 1.0, 2.5, 0.5, 0.25, 0.125, 0.35, 0.05, 0.005, 1.005, 0.999, 0.9995, 9.995, 99.5, 0.1, 0.2,
                        0.7, 1e22, 1e23, 1.5e300, 1e-5, 1e-10, 5e-324, 1e-320, 123.456, 3.141592653589793,
                        2.0 ** 53, 2.0 ** 55, 2.0 ** 63, 1.7976931348623157e308, 0.49999999999999994, 1e15 + 0.5,
                        4503599627370496.5, 0.3, 2.675, 1.45, 8.5, 9.5, 0.95, 0.995])
    elif r < 0.45:
        x = rng.randrange(0, 100000) / rng.choice([2, 4, 8, 10, 100, 1000, 16, 3, 7])
    elif r < 0.65:
        x = rng.random() * 10 ** rng.randrange(-12, 25)
    else:
        while True:
            b = rng.getrandbits(64)
            x = struct.unpack(">d", struct.pack(">Q", b))[0]
            if x == x and abs(x) != float("inf"):
                break
        x = abs(x)
    if x != 0.0 and rng.random() < 0.35:
        x = -x
    if x == 0.0:
        x = 0.0
    return x


def gen_rat(rng):
    from math import gcd
    while True:
        n = rng.randrange(-2000, 2000)
        d = rng.choice([2, 3, 4, 7, 8, 10, 16, 100, 125, 1000, 3 ** 5, 2 ** 10])
        if rng.random() < 0.2:
            n = rng.randrange(-10 ** 20, 10 ** 20)
        g = gcd(abs(n), d)
        n, d = n // g, d // g
        if d > 1:
            return n, d


ATOMS = ["abc", "x", "hello world", "[]", "", "A", "Abc", "\u00e9t\u00e9", "+", "don't", "a\\b", "{}", "!", ";",
         "foo_bar", "a.b", "\u03bb", "[", ",", "|", "\n", "'"]
STRINGS = ["abc", "", "hello world", "x", "\u00e9\u03bb", "a~b", "12", "a\"b", "a'b", "tab\\here", "line\nbreak",
           "looooooooooooooooooooong"]


def gen_term(rng, depth=2):
    """terms for ~w / ~q / ~i: atoms needing quotes, operators, variables, lists, strings, numbers."""
    r = rng.random()
    if depth == 0 or r < 0.3:
        k = rng.random()
        if k < 0.3:
            return A(rng.choice(ATOMS))
        if k < 0.5:
            return I(gen_int(rng))
        if k < 0.6:
            return F(gen_float(rng))
        if k < 0.75:
            return V(rng.choice(["X", "Y", "Z", "Foo"]))
        if k < 0.9:
            return STR(rng.choice(STRINGS))
        return S("$VAR", I(rng.choice([0, 1, 25, 26, 27, 100])))
    if r < 0.6:
        op = rng.choice(["+", "-", "*", "/", "=", ":-", ",", ";", "->", "^", "**", "is", "<", "=..", "mod", "rdiv",
                         ":", "|", "-->", "@<", "xor"])
        return S(op, gen_term(rng, depth - 1), gen_term(rng, depth - 1))
    if r < 0.7:
        return S(rng.choice(["-", "\\+", "+", "\\", ":-", "?-", "dynamic"]), gen_term(rng, depth - 1))
    if r < 0.85:
        n = rng.randrange(0, 4)
        items = [gen_term(rng, depth - 1) for _ in range(n)]
        tail = V("T") if (items and rng.random() < 0.25) else NIL
        return L(items, tail)
    if r < 0.92:
        return S("{}", gen_term(rng, depth - 1))
    f = rng.choice(["f", "g", "foo bar", "F", "[]", "point"])
    return S(f, *[gen_term(rng, depth - 1) for _ in range(rng.randrange(1, 4))])


def gen_text(rng):
    return "".join(rng.choice(TEXT_ALPHA) for _ in range(rng.randrange(1, 7)))


# ------------------------------------------------------------------ directive pieces
# a piece is (format text, [argument terms], tag)

def numtxt(rng, n, allow_star=True):
    """a numeric argument n as digits or as `*` (returns text, extra args)."""
    if allow_star and rng.random() < 0.25:
        return "*", [I(n)]
    s = str(n)
    if rng.random() < 0.05:
        s = "0" * rng.randrange(1, 3) + s
    return s, []


def int_expr(rng):
    """an integer-valued expression over + - * (what ~d evaluates)."""
    a, b = gen_int(rng), gen_int(rng)
    op = rng.choice(["+", "-", "*"])
    if rng.random() < 0.3:
        return S(op, S("-", I(abs(a))), I(b))
    return S(op, I(a), I(b))


def piece_directive(rng):
    r = rng.random()
    if r < 0.08:
        return "~~", [], "tilde"
    if r < 0.20:
        t = gen_term(rng)
        return "~w", [t], "w"
    if r < 0.32:
        return "~q", [gen_term(rng)], "q"
    if r < 0.38:
        return "~a", [A(rng.choice(ATOMS))], "a"
    if r < 0.44:
        return "~s", [STR(rng.choice(STRINGS))], "s"
    if r < 0.48:
        return "~i", [gen_term(rng)], "i"
    if r < 0.60:
        arg = I(gen_int(rng)) if rng.random() < 0.9 else int_expr(rng)
        if rng.random() < 0.35:
            return "~d", [arg], "d"
        n = rng.choice([0, 1, 2, 3, 4, 5, 6, 7, 9, 10, 12, 20, 30, 70])
        s, extra = numtxt(rng, n)
        return "~%sd" % s, extra + [arg], "Nd"
    if r < 0.70:
        c = rng.choice("DU")
        arg = I(gen_int(rng))
        if rng.random() < 0.5:
            return "~" + c, [arg], c
        s, extra = numtxt(rng, rng.choice([0, 1, 2, 3, 4, 6, 9]))
        return "~%s%s" % (s, c), extra + [arg], "N" + c
    if r < 0.74:
        arg = I(gen_int(rng))
        if rng.random() < 0.3:
            arg = I(rng.choice([1, -1]) * rng.getrandbits(rng.randrange(200, 900)))
        if rng.random() < 0.3:
            return "~L", [arg], "L"
        s, extra = numtxt(rng, rng.choice([0, 1, 2, 3, 5, 10, 72, 80]))
        return "~%sL" % s, extra + [arg], "NL"
    if r < 0.86:
        k = rng.random()
        if k < 0.7:
            arg = F(gen_float(rng))
        elif k < 0.85:
            arg = I(gen_int(rng) if rng.random() < 0.8 else rng.choice([-1, 1]) * 10 ** rng.randrange(20, 300))
        else:
            arg = Q(*gen_rat(rng))
        if rng.random() < 0.3:
            return "~f", [arg], "f"
        n = rng.choice([0, 1, 2, 3, 4, 5, 6, 7, 8, 10, 12, 15, 16, 17, 20, 22, 23, 25, 30, 40, 60, 100])
        s, extra = numtxt(rng, n)
        return "~%sf" % s, extra + [arg], "Nf"
    if r < 0.96:
        c = rng.choice("rR")
        arg = I(gen_int(rng))
        if rng.random() < 0.2:
            return "~" + c, [arg], c
        s, extra = numtxt(rng, rng.choice([2, 3, 7, 8, 10, 11, 16, 35, 36, rng.randrange(2, 37)]))
        return "~%s%s" % (s, c), extra + [arg], "N" + c
    if rng.random() < 0.5:
        return "~n", [], "n"
    s, extra = numtxt(rng, rng.choice([0, 1, 2, 3]))
    return "~%sn" % s, extra, "Nn"


def piece_fill(rng):
    if rng.random() < 0.5:
        return "~t", [], "t"
    return "~`%st" % rng.choice(FILL_CHARS), [], "`ct"


def piece_stop(rng, neg_ok=False):
    r = rng.random()
    if r < 0.15:
        return "~|", [], "|"
    if r < 0.6:
        n = rng.choice([0, 1, 2, 3, 5, 8, 10, 12, 15, 20, 25, 30, 40])
        s, extra = numtxt(rng, n)
        return "~%s|" % s, extra, "N|"
    if r < 0.65:
        return "~+", [], "+"
    n = rng.choice([0, 1, 2, 3, 4, 5, 6, 8, 10, 12, 16, 20])
    s, extra = numtxt(rng, n)
    return "~%s+" % s, extra, "N+"


def gen_pieces(rng):
    """a valid format string as a list of pieces."""
    pieces = []
    shape = rng.random()
    if shape < 0.45:             # column rows
        for _ in range(rng.randrange(1, 4)):
            for _ in range(rng.randrange(0, 4)):
                k = rng.random()
                if k < 0.4:
                    pieces.append(piece_fill(rng))
                elif k < 0.7:
                    pieces.append((gen_text(rng), [], "text"))
                else:
                    pieces.append(piece_directive(rng))
            pieces.append(piece_stop(rng))
        if rng.random() < 0.4:
            pieces.append((gen_text(rng), [], "text"))
        if rng.random() < 0.3:
            pieces.append(("~n", [], "n"))
    else:
        for _ in range(rng.randrange(1, 7)):
            k = rng.random()
            if k < 0.3:
                pieces.append((gen_text(rng), [], "text"))
            elif k < 0.37:
                pieces.append(piece_fill(rng))
            elif k < 0.44:
                pieces.append(piece_stop(rng))
            else:
                pieces.append(piece_directive(rng))
    return pieces


def assemble(pieces):
    fmt = "".join(p[0] for p in pieces)
    args = [a for p in pieces for a in p[1]]
    tags = [p[2] for p in pieces if p[2] != "text"]
    return fmt, args, tags


# ------------------------------------------------------------------ malformed stream

BAD_DIRECTIVES = ["~e", "~g", "~c", "~p", "~z", "~k", "~3w", "~*w", "~2a", "~3s", "~1i", "~3t", "~2~", "~`a", "~`",
                  "~", "~*", "~12", "~3`xt", "~E", "~N", "~ ", "~3e", "~*c", "~-1d", "~3*d", "~\u00e9"]
WRONG_FOR = {
    "d": lambda rng: rng.choice([A("foo"), F(1.5), F(2.0), V("X"), S("foo", I(1)), Q(1, 3), S("f", A("x"), A("y"))]),
    "a": lambda rng: rng.choice([I(123), F(1.5), V("X"), S("f", A("x")), STR("abc"), L([I(1), I(2)]), Q(1, 2)]),
    "s": lambda rng: rng.choice([A("abc"), I(5), V("X"), L([A("a"), A("bc")]), L([A("a"), I(1)]), L([A("a")], V("T")),
                                 L([A("a"), V("X")]), S("f", A("x")), L([A("a"), V("X"), A("bc")]),
                                 L([A("a"), I(1)], V("T")), F(1.0)]),
    "f": lambda rng: rng.choice([A("foo"), V("X"), S("foo", I(1)), I(10 ** 400), I(-10 ** 400)]),
}
WRONG_FOR["Nd"] = WRONG_FOR["D"] = WRONG_FOR["ND"] = WRONG_FOR["U"] = WRONG_FOR["NU"] = WRONG_FOR["d"]
WRONG_FOR["L"] = WRONG_FOR["NL"] = WRONG_FOR["r"] = WRONG_FOR["Nr"] = WRONG_FOR["R"] = WRONG_FOR["NR"] = WRONG_FOR["d"]
WRONG_FOR["Nf"] = WRONG_FOR["f"]


def gen_malformed(rng):
    """returns (fs term, args term, kind, tags)."""
    kind = rng.choice(["unknown", "unknown", "wrongtype", "wrongtype", "wrongtype", "toofew", "toofew", "toomany",
                       "toomany", "argsnotlist", "badfs", "star_nonint", "star_negative", "radix_range", "f_overflow"])
    pieces = gen_pieces(rng)
    if kind == "unknown":
        pieces.insert(rng.randrange(0, len(pieces) + 1), (rng.choice(BAD_DIRECTIVES), [], "bad"))
        fmt, args, tags = assemble(pieces)
        if rng.random() < 0.3:
            args = args + [I(1)]
        return STR(fmt), L(args), kind, tags
    if kind == "wrongtype":
        idx = [i for i, p in enumerate(pieces) if p[2] in WRONG_FOR]
        if not idx:
            pieces.append(("~d", [I(1)], "d"))
            idx = [len(pieces) - 1]
        i = rng.choice(idx)
        f, a, tag = pieces[i]
        pieces[i] = (f, a[:-1] + [WRONG_FOR[tag](rng)], tag)
        fmt, args, tags = assemble(pieces)
        return STR(fmt), L(args), kind, tags
    if kind == "toofew":
        fmt, args, tags = assemble(pieces)
        if not args:
            fmt += "~w"
            tags.append("w")
        else:
            args = args[:rng.randrange(0, len(args))]
        return STR(fmt), L(args), kind, tags
    if kind == "toomany":
        fmt, args, tags = assemble(pieces)
        args = args + [gen_term(rng, 1) for _ in range(rng.randrange(1, 5))]
        return STR(fmt), L(args), kind, tags
    if kind == "argsnotlist":
        fmt, args, tags = assemble(pieces)
        bad = rng.choice([A("foo"), I(3), V("Args"), L(args, V("T")), S("f", A("x")), F(1.0)])
        return STR(fmt), bad, kind, tags
    if kind == "badfs":
        fmt, args, tags = assemble(pieces)
        cs = [A(c) for c in fmt]
        bad = rng.choice([A("abc"), I(5), V("Fs"), L(cs, V("T")), L(cs + [A("bc")]), L(cs + [I(1)] + cs),
                          L(cs + [V("X")]), S("f", A("x")), L([A("a"), V("X"), A("bc")]), L(cs[:1] + [S("g", I(1))], V("T"))])
        return bad, L(args), kind, tags
    if kind == "star_nonint":
        c = rng.choice("dDULnfrR+")
        bad = rng.choice([A("a"), A("foo"), V("N"), S("g", I(1))])
        args = [bad] + ([] if c in "n+" else [I(gen_int(rng))])
        pre = gen_text(rng) if rng.random() < 0.5 else ""
        return STR(pre + "~*" + c), L(args), kind, ["*" + c]
    if kind == "star_negative":
        c = rng.choice("dDULnfrR|+")
        n = -rng.choice([1, 2, 3, 10])
        extra = []
        if c in "dDULrR":
            extra = [I(gen_int(rng))]
        elif c == "f":
            extra = [F(gen_float(rng))]
        pre = rng.choice(["", "~t", "ab~t", "~tab", "~ta~t~8|~t"])
        post = rng.choice(["", "x", "~t~3+", "~w"])
        args = [I(n)] + extra + ([A("z")] if post == "~w" else [])
        return STR(pre + "~*" + c + post), L(args), kind, ["*" + c]
    if kind == "radix_range":
        c = rng.choice("rR")
        n = rng.choice([0, 1, 37, 100, 64])
        s, extra = numtxt(rng, n)
        return STR("~%s%s" % (s, c)), L(extra + [I(gen_int(rng))]), kind, ["N" + c]
    # f_overflow
    n = rng.choice([308, 309, 310, 400])
    arg = rng.choice([F(gen_float(rng)), F(0.5), I(3), I(10 ** 400), F(1e-320)])
    s, extra = numtxt(rng, n)
    return STR("~%sf" % s), L(extra + [arg]), kind, ["Nf"]


# ------------------------------------------------------------------ items

def make_item(iid, fs, args, kind, tags):
    items, tail = unroll(args)
    if tail != NIL and any(x[0] == "rat" for x in items):
        # rationals are written through the helper's marker, which needs a proper list
        args = L([I(x[1]) if x[0] == "rat" else x for x in items], tail)
    return {"id": iid, "fs": fs, "args": args, "kind": kind, "tags": tags}


def item_lines(it):
    """harness lines for one item: the ~w/~q texts of the arguments, then the run."""
    fs, args = it["fs"], it["args"]
    items, tail = unroll(args)
    proper = tail == NIL and args[0] != "var"
    rat = proper and any(x[0] == "rat" for x in items)
    lines = []
    if proper and items:
        vs = term_vars(args, [])
        vns = "[" + ",".join("'%s'=%s" % (fabricated(i), v) for i, v in enumerate(vs)) + "]"
        lines.append(qline(it["id"] + "_t", "%s(%s,%s,Tzz)." % ("c36_textsr" if rat else "c36_texts", show(args, True), vns)))
    lines.append(qline(it["id"] + "_r", "%s(%s,%s,Rzz)." % ("c36_runr" if rat else "c36_run", show(fs, True), show(args, True))))
    return lines, (proper and bool(items))


def make_case(cid, items):
    impl = ["Q\t%s_u\t1\tuse_module(library(format))." % cid, "L\t%s_l\tuser\t%s" % (cid, harness_escape(HELPER))]
    for it in items:
        ls, has_t = item_lines(it)
        it["has_texts"] = has_t
        impl += ls
    return {"id": cid, "impl": impl, "items": items}


def model_lines(it, impl):
    texts = "[]"
    if it["has_texts"]:
        r = impl.get(it["id"] + "_t", "missing")
        if r.startswith("{Tzz=") and r.endswith("}"):
            texts = r[5:-1]
        else:
            return None
    body = "\t".join(harness_escape(x) for x in (show(it["fs"]), show(it["args"]), texts))
    return ["fmt\t%s_mf\tfixed\t%s" % (it["id"], body), "fmt\t%s_mp\tpinned\t%s" % (it["id"], body)]


def norm_item(it):
    return {k: it[k] for k in ("id", "fs", "args", "kind", "tags")}


def tuplify(t):
    """JSON round trip turns tuples into lists."""
    if isinstance(t, list) and t and isinstance(t[0], str) and t[0] in ("int", "flt", "rat", "atom", "var", "str"):
        if t[0] == "str":
            return ("str", t[1], [tuplify(x) for x in t[2]])
        return tuple(t)
    return t


NEG_D = re.compile(r"~(\*|[0-9]*[1-9][0-9]*)d")
NEG_DU = re.compile(r"~(\*|[0-9]*)[DU]")


def neg_defect(it):
    """which of the two known defects can show in this item (by its arguments and directives)."""
    items, tail = unroll(it["args"])
    if not any((x[0] == "int" and x[1] < 0) or x[0] == "str" for x in items):
        return None
    cs, tl = unroll(it["fs"])
    if tl != NIL or not all(c[0] == "atom" for c in cs):
        return None
    fmt = "".join(c[1] for c in cs).replace("~~", "")
    names = []
    if NEG_D.search(fmt):
        names.append("Nd-point-before-sign")
    if NEG_DU.search(fmt):
        names.append("ND-sign-grouped-as-digit")
    return "+".join(names) if names else None


def judge(it, impl, model):
    iid = it["id"]
    iv = impl.get(iid + "_r", "missing")
    mf = model.get(iid + "_mf", "missing")
    mp = model.get(iid + "_mp", "missing")
    prefix = "{R='res'(%s,%s," % (show(it["fs"]), show(it["args"]))
    q = "phrase(format_(%s,%s),Cs)" % (show(it["fs"], True), show(it["args"], True))
    sig = {"family": "format"}

    def fnd(kind, extra, detail):
        s = dict(sig)
        s.update(extra)
        c = norm_item(it)
        c.update({"query": q, "observed": iv, "model_fixed": mf, "model_pinned": mp})
        return core.Finding(kind, s, detail, c)

    if mf in ("missing", "bad-term", "bad-op"):
        return "disagreement", fnd("disagreement", {"input": q, "model": mf},
                                   "the model driver could not read the case (texts query: %s)" % impl.get(iid + "_t"))
    if iv.startswith("{Rzz=") and iv.endswith("}"):
        nv = normalise(iv[5:-1])
        if nv is not None:
            iv = "{R=" + nv + "}"
    if not (iv.startswith(prefix) and iv.endswith(")}")):
        return "disagreement", fnd("disagreement", {"input": q, "impl": iv[:200]},
                                   "the implementation did not echo the format string / arguments this file generated (translation slip, panic or time-out)")
    res = iv[len(prefix):-2]
    if mf == "unspec":
        if res.startswith("'err'("):
            return "agree", None
        return "violation", fnd("violation", {"input": q, "impl": res[:200], "expected": "an error"},
                                "ill-typed numeric (`*`) argument did not raise an error")
    if res == mf:
        return "agree", None
    if res == mp:
        if mp.startswith("'err'('uninstantiation_error'("):
            return "known-shape", fnd("violation", {"defect": "write-before-bare-column-stop", "explained_by_pinned_model": "yes"},
                                      "~w/~q in a cell closed by ~| raises uninstantiation_error instead of printing the term (the goal of ~| runs write_term_to_chars/3 a second time); see notes/findings/C36-3.md")
        if neg_defect(it):
            return "known-shape", fnd("violation", {"defect": neg_defect(it), "explained_by_pinned_model": "yes"},
                                      "~Nd/~ND/~NU of a negative integer: the sign is treated as a digit (output equals the transcription of the pinned library, not the documented text); see notes/findings/C36-1.md, C36-2.md")
    return "violation", fnd("violation", {"input": q, "impl": res[:300], "expected": mf[:300]},
                            "format_//2 output differs from the documented text (model)")


# ------------------------------------------------------------------ fixed cases (boundaries the theorems single out)

def fixed_items():
    out = []

    def add(fmt, args, kind="fixed"):
        out.append((STR(fmt), L(args), kind, ["fixed"]))

    for n in [0, 1, 9, 10, 99, 100, 999, 1000, 999999, 1000000, 10 ** 30, 2 ** 64]:
        for f in ["~d", "~1d", "~2d", "~3d", "~4d", "~D", "~1D", "~3D", "~U", "~2U", "~8r", "~16r", "~16R", "~36r", "~2r"]:
            add(f, [I(n)])
    for n in [1, 5, 12, 123, 1234, 123456, 1234567, 10 ** 20]:
        for f in ["~d", "~1d", "~2d", "~3d", "~5d", "~D", "~2D", "~U", "~3U", "~16r", "~36R", "~2L", "~L", "~t~d~10|",
                  "~t~2d~10|", "~t~D~12|"]:
            add(f, [I(-n)])
    for k in range(0, 9):      # padding distribution: 1..3 fill points, every remainder
        add("~ta~t~tb~tc~%d|" % (10 + k), [])
        add("~`-ta~`.t~%d|" % k, [])
        add("~ta~%d+b~t~%d+~`*tc~%d|" % (k, k, 2 * k), [])
        add("abc~%d|def~t~%d+" % (k, k), [])
        add("~t~w~%d|" % k, [A("abc")])
        add("~w~t~%d|" % k, [A("abc")])
        add("~t~w~t~%d|" % k, [A("abc")])
    for x in [0.0, 0.5, 1.5, 2.5, 0.25, 0.125, 0.05, 0.005, 0.999, 0.9995, 9.995, 1e22, 1e-7, 123.456, 1e300]:
        for f in ["~f", "~0f", "~1f", "~2f", "~3f", "~10f", "~20f", "~25f"]:
            add(f, [F(x)])
            if x != 0.0:
                add(f, [F(-x)])
    for v in [0, 3, -3, 10 ** 25, -10 ** 25]:
        for f in ["~f", "~0f", "~2f"]:
            add(f, [I(v)])
    add("~a~a~a", [A("[]"), A(""), A("{}")])
    add("~s~s", [NIL, STR("x")])
    add("~w ~q", [S("+", V("X"), V("Y")), S("-", V("Y"), V("Z"))])
    add("~q ~w ~i~q", [V("Z"), V("A1"), V("B"), S("f", V("A1"), V("Z"), V("B"))])
    add("~w~q", [L([V("V%d" % i) for i in range(30)]), V("V29")])
    add("a~n~0nb~2nc~*nd", [I(3)])
    add("~~~~ ~~a", [])
    add("", [])
    add("plain text only", [])
    return out


# ------------------------------------------------------------------ run

def run(ctx):
    rng, tier = ctx["rng"], ctx["tier"]
    rep = diff.replay_case(ctx)
    if rep is not None:
        raw = [(tuplify(c["fs"]), tuplify(c["args"]), c.get("kind", "replay"), c.get("tags", [])) for c in rep]
    else:
        raw = [(tuplify(c["fs"]), tuplify(c["args"]), c.get("kind", "corpus"), c.get("tags", []))
               for c in diff.load_corpus("C36") if "fs" in c]
        raw += fixed_items()
        n_valid, n_bad = (1300, 500) if tier == "quick" else (30000, 10000)
        for _ in range(n_valid):
            fmt, args, tags = assemble(gen_pieces(rng))
            raw.append((STR(fmt), L(args), "valid", tags))
        for _ in range(n_bad):
            raw.append(gen_malformed(rng))
    # rationals for ~Nf: only those whose rational->double conversion is the nearest double
    pre = []
    for i, (fs, args, kind, tags) in enumerate(raw):
        items, tail = unroll(args)
        for j, x in enumerate(items):
            if x[0] == "rat":
                pre.append("ratconv\tc%d_%d\t%d %d" % (i, j, x[1], x[2]))
    pre += ["pow10\tp%d\t%d" % (n, n) for n in range(0, 330)]
    conv = core.run_model(pre) if pre else {}
    pow_bad = [n for n in range(0, 330) if conv.get("p%d" % n) != "same"]
    items, dropped = [], 0
    for i, (fs, args, kind, tags) in enumerate(raw):
        xs, _ = unroll(args)
        if any(x[0] == "rat" and conv.get("c%d_%d" % (i, j)) != "same" for j, x in enumerate(xs)):
            dropped += 1
            continue
        items.append(make_item("i%d" % i, fs, args, kind, tags))
    cases = [make_case("b%d" % (k // 40), items[k:k + 40]) for k in range(0, len(items), 40)]
    t0 = time.time()
    impl = core.run_impl_parallel([c["impl"] for c in cases], env=IMPL_ENV)
    flaky = [it for it in items if transient(impl.get(it["id"] + "_r", "missing"))
             or (it["has_texts"] and transient(impl.get(it["id"] + "_t", "missing")))]
    retried = len(flaky)
    if flaky:
        rc = [make_case("y%d" % k, [dict(norm_item(it))]) for k, it in enumerate(flaky[:2000])]
        impl2 = core.run_impl([l for c in rc for l in c["impl"]], env=IMPL_ENV)
        impl.update(impl2)
    mlines = []
    for it in items:
        ml = model_lines(it, impl)
        if ml:
            mlines += ml
    model = core.run_model(mlines) if mlines else {}
    core.log("[C36] correspondence run: %d items in %d cases, %.1fs, %d retried, %d rationals dropped" % (
        len(items), len(cases), time.time() - t0, retried, dropped))
    findings, agree = [], 0
    distinct = set()
    tags_hit, kinds, outcomes, known_shape = {}, {}, {"ok": 0, "err": 0, "failed": 0, "unspec": 0}, {}
    errs_hit = {}
    if pow_bad:
        findings.append(core.Finding("disagreement", {"family": "format", "class": "pow10-conversion"},
                                     "the pinned integer->double conversion of 10^N differs from the nearest double for N in %s: ~Nf cases with such N are not comparable" % pow_bad[:10], None))
    for it in items:
        kinds[it["kind"]] = kinds.get(it["kind"], 0) + 1
        for tg in it["tags"]:
            tags_hit[tg] = tags_hit.get(tg, 0) + 1
        mf = model.get(it["id"] + "_mf", "missing")
        if mf.startswith("'ok'"):
            outcomes["ok"] += 1
        elif mf.startswith("'err'("):
            outcomes["err"] += 1
            e = mf[6:].split("(")[0].split(")")[0]
            if mf.startswith("'err'('type_error'(") or mf.startswith("'err'('domain_error'("):
                e = mf[6:].split(",")[0]
            errs_hit[e] = errs_hit.get(e, 0) + 1
        elif mf == "'failed'":
            outcomes["failed"] += 1
        elif mf == "unspec":
            outcomes["unspec"] += 1
        if it["tags"]:
            distinct.add((show(it["fs"]), show(it["args"])))
        status, f = judge(it, impl, model)
        if rep is not None:
            print("replay phrase(format_(%s,%s),Cs)\n  impl         = %s\n  model fixed  = %s\n  model pinned = %s\n  -> %s" % (
                show(it["fs"], True), show(it["args"], True), impl.get(it["id"] + "_r"), mf,
                model.get(it["id"] + "_mp"), status))
        if status == "agree":
            agree += 1
        else:
            if status == "known-shape":
                d = f.sig.get("defect")
                known_shape[d] = known_shape.get(d, 0) + 1
            findings.append(f)
    total = len(items)
    samples = ["phrase(format_(%s,%s),Cs)" % (show(it["fs"], True), show(it["args"], True))
               for it in (items[-3:] + items[len(items) // 2:len(items) // 2 + 3])]
    return {
        "evaluations": total,
        "distinct_nontrivial": len(distinct),
        "rule": "fixed boundary list (digit counts around the point/group positions, every remainder of the padding "
                "division for 1..3 fill points, rounding ties of ~Nf) + random format strings built from the directive "
                "grammar (w q a s i d Nd D ND U NU L NL f Nf r Nr R NR n Nn ~~ t `ct | N| + N+, each numeric argument "
                "also as `*`; 45% column rows) with arguments of the matching type (integers up to 300 bits and 10^k+-1, "
                "negative; floats by value class incl. subnormal/huge/ties/random bit patterns; rationals; atoms and strings "
                "with quotes, backslashes, non-ASCII; nested operator terms with variables) + a malformed stream (unknown "
                "directive, wrong argument type, too few / too many arguments, Args or Fs not a list / partial / non-"
                "character element, `*` with a non-integer or negative value, radix outside 2..36, ~Nf overflow). "
                "non-trivial = has at least one directive; distinct by (format string, arguments)",
        "samples": samples,
        "traces_validated_against_impl": agree,
        "disagreements_checked": total - agree,
        "retried_after_timeout": retried,
        "rationals_dropped_conversion_not_nearest": dropped,
        "kinds": kinds,
        "directives_hit": tags_hit,
        "model_outcomes": outcomes,
        "error_kinds_hit": errs_hit,
        "known_defect_instances": known_shape,
        "float_directives": "~e ~g do not exist in the pinned library (unknown directive -> error); ~Nf is compared exactly, its arithmetic is the C02 model (no libc printf involved)",
        "findings": findings,
    }
