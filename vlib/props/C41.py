"""C41 — JSON text and JSON terms convert faithfully both ways (library(serialization/json)).

Python side of the correspondence: generates JSON values (depth <= 4), spelling variants of
their text, single-edit mutants and hand-written malformed documents; runs
`phrase(json_chars(J), Cs)` in both modes on the implementation and `parse`/`gen` of the Lean
model (`drv_C41`) and compares.

Values (Python): ("null",) ("bool",b) ("int",n) ("flt",pyfloat) ("dec",neg,m,e) ("str",[cp..])
("arr",[v..]) ("obj",[(key cps, v)..]).  `flt` only occurs in terms sent to / received from the
implementation, `dec` (exact decimal, normalised) only in model values.
"""
import math
import re
import struct
import sys
from fractions import Fraction

from .. import core, diff

if hasattr(sys, "set_int_max_str_digits"):
    sys.set_int_max_str_digits(0)      # integer tokens such as 1E6000 are compared digit by digit

LEVEL = "proof"
TRUSTED_BASE = [
    "the DCG of json.pl is modelled as a deterministic recursive-descent parser + first-answer generator (Model/Json.lean); the library itself is tied only by this differential run",
    "decimal -> IEEE double (round to nearest even): for documents the Lean parser model stops at the exact decimal a float token denotes and Python's float() rounds it; on every lone number token Python's float() is compared with the Lean rounding model (roundDbl / nearestMag in Model/Json.lean; a difference is reported as 'model-rounding'), so neither conversion is trusted alone",
    "pinnedMag (the Lean mirror of today's float assembly, used only for the witnesses of finding C41-2 and for the flt_* statistics) takes 10.0^k and float(10^k) to be the double nearest to 10^k; libm's pow differs for a few k (counted as flt_impl_not_nearest_unexplained)",
    "Python renderers: value -> Prolog term text, text -> Prolog string literal, parser of the harness's canonical term syntax (vlib/props/C41.py)",
    "Scryer's reader reads a float literal to the nearest double (checked on every case by echoing the term; mismatching cases are skipped and counted)",
]
ASSUMPTIONS = [
    "values have depth <= 4, strings <= 10 characters, at most 4 elements per container; documents are sent as complete bound lists to phrase/2 (not lazily from a file)",
    "floats: finite doubles only, negative zero excluded; a float result is a violation only (a) when text generated from a float does not parse back to the same float, or (b) when the decimal is exactly representable as a double and the parser returns another value; other decimals that are not read to the nearest double are only counted (float_not_nearest)",
    "a document is 'rejected' when phrase/2 fails or throws; which of the two is not compared",
    "a batch whose use_module line did not answer true, or whose items raise existence_error(json_chars/3) (library not loaded after a watchdog abort under machine load), is run again item by item, sequentially, before it is judged",
    "integer tokens with more than 4 exponent digits are not generated",
]

WS = [32, 10, 13, 9]
ESC = {34: '"', 92: '\\', 47: '/', 8: 'b', 12: 'f', 10: 'n', 13: 'r', 9: 't'}
UNESC = {ord(v): k for k, v in ESC.items()}

# ---------------------------------------------------------------- rendering


def pl_string(cps):
    """Prolog double-quoted literal in printable ASCII (everything else as \\xHH\\)."""
    out = ['"']
    for c in cps:
        if c == 34:
            out.append('\\"')
        elif c == 92:
            out.append('\\\\')
        elif 32 <= c < 127:
            out.append(chr(c))
        else:
            out.append('\\x%x\\' % c)
    out.append('"')
    return "".join(out)


def pl_float(f):
    r = repr(f)
    if "e" in r:
        m, e = r.split("e")
        if "." not in m:
            m += ".0"
        return "%se%d" % (m, int(e))
    if "." not in r:
        r += ".0"
    return r


def pl_term(v):
    k = v[0]
    if k == "null":
        return "null"
    if k == "bool":
        return "boolean(true)" if v[1] else "boolean(false)"
    if k == "int":
        return "number(%d)" % v[1]
    if k == "flt":
        return "number(%s)" % pl_float(v[1])
    if k == "str":
        return "string(%s)" % pl_string(v[1])
    if k == "arr":
        return "list([%s])" % ",".join(pl_term(x) for x in v[1])
    if k == "obj":
        return "pairs([%s])" % ",".join("string(%s)-%s" % (pl_string(kk), pl_term(x)) for kk, x in v[1])
    raise ValueError(v)


def hesc(s):
    """harness line escaping"""
    return s.replace("\\", "\\\\").replace("\n", "\\n").replace("\t", "\\t").replace("\r", "\\r")


def model_tokens(v):
    k = v[0]
    if k == "null":
        return ["N"]
    if k == "bool":
        return ["T" if v[1] else "F"]
    if k == "int":
        return ["I%d" % v[1]]
    if k == "dec":
        return ["D%d,%d,%d" % (1 if v[1] else 0, v[2], v[3])]
    if k == "str":
        return ["S" + ".".join(str(c) for c in v[1])]
    if k == "arr":
        out = ["A%d" % len(v[1])]
        for x in v[1]:
            out += model_tokens(x)
        return out
    if k == "obj":
        out = ["O%d" % len(v[1])]
        for kk, x in v[1]:
            out.append("S" + ".".join(str(c) for c in kk))
            out += model_tokens(x)
        return out
    raise ValueError(v)


def read_model_value(toks):
    """inverse of the driver's showJ"""
    def rd(i):
        t = toks[i]
        h, b = t[0], t[1:]
        if h == "N":
            return ("null",), i + 1
        if h == "T":
            return ("bool", True), i + 1
        if h == "F":
            return ("bool", False), i + 1
        if h == "I":
            return ("int", int(b)), i + 1
        if h == "D":
            a, m, e = b.split(",")
            return ("dec", a == "1", int(m), int(e)), i + 1
        if h == "S":
            return ("str", [int(x) for x in b.split(".")] if b else []), i + 1
        if h == "A":
            n, xs, i = int(b), [], i + 1
            for _ in range(n):
                x, i = rd(i)
                xs.append(x)
            return ("arr", xs), i
        if h == "O":
            n, ms, i = int(b), [], i + 1
            for _ in range(n):
                kk, i = rd(i)
                x, i = rd(i)
                ms.append((kk[1], x))
            return ("obj", ms), i
        raise ValueError(t)
    v, i = rd(0)
    if i != len(toks):
        raise ValueError("trailing tokens")
    return v


def cps_field(cps):
    return " ".join(str(c) for c in cps)


# ---------------------------------------------------------------- harness canonical syntax

class CanonError(Exception):
    pass


def parse_canon_term(s, i=0):
    """Parses one term of the harness's canonical syntax. Returns (term, next index).
    term: ('int',n) ('flt',bits) ('atom',name) ('chars',[cp]) ('list',[t]) ('cmp',f,[t]) ('var',n)"""
    c = s[i]
    if c == "'":
        name, i = _quoted(s, i + 1, "'")
        if i < len(s) and s[i] == "(":
            args = []
            i += 1
            while True:
                a, i = parse_canon_term(s, i)
                args.append(a)
                if s[i] == ",":
                    i += 1
                    continue
                if s[i] == ")":
                    return ("cmp", name, args), i + 1
                raise CanonError("bad compound at %d" % i)
        return ("atom", name), i
    if c == '"':
        txt, i = _quoted(s, i + 1, '"')
        return ("chars", [ord(x) for x in txt]), i
    if c == "[":
        if s[i + 1] == "]":
            return ("list", []), i + 2
        items = []
        i += 1
        while True:
            a, i = parse_canon_term(s, i)
            items.append(a)
            if s[i] == ",":
                i += 1
                continue
            if s[i] == "]":
                return ("list", items), i + 1
            raise CanonError("bad list at %d" % i)
    if c == "f" and s[i + 1] == "(":
        j = s.index(")", i)
        return ("flt", s[i + 2:j]), j + 1
    if c == "r" and s[i + 1] == "(":
        j = s.index(")", i)
        return ("rat", s[i + 2:j]), j + 1
    if c == "-" or c.isdigit():
        j = i + 1
        while j < len(s) and s[j].isdigit():
            j += 1
        return ("int", int(s[i:j])), j
    j = i
    while j < len(s) and (s[j].isalnum() or s[j] == "_"):
        j += 1
    if j == i:
        raise CanonError("unexpected %r at %d" % (c, i))
    return ("var", s[i:j]), j


def _quoted(s, i, q):
    out = []
    while True:
        c = s[i]
        if c == q:
            return "".join(out), i + 1
        if c == "\\":
            d = s[i + 1]
            if d == "x":
                j = s.index("\\", i + 2)
                out.append(chr(int(s[i + 2:j], 16)))
                i = j + 1
            else:
                out.append(d)
                i += 2
        else:
            out.append(c)
            i += 1


def parse_bindings(ans):
    """'{A=t,B=t}' -> dict"""
    if not (ans.startswith("{") and ans.endswith("}")):
        raise CanonError("not a binding set: " + ans[:60])
    s = ans[1:-1]
    out, i = {}, 0
    while i < len(s):
        j = s.index("=", i)
        name = s[i:j]
        t, i = parse_canon_term(s, j + 1)
        out[name] = t
        if i < len(s):
            if s[i] != ",":
                raise CanonError("bad separator")
            i += 1
    return out


def as_list(t):
    """a canonical term that is a proper list (any mixture of [..], "..", '.'(H,T)) -> items"""
    out = []
    while True:
        if t[0] == "list":
            return out + list(t[1])
        if t[0] == "chars":
            return out + [("atom", chr(c)) for c in t[1]]
        if t[0] == "atom" and t[1] == "[]":
            return out
        if t[0] == "cmp" and t[1] == "." and len(t[2]) == 2:
            out.append(t[2][0])
            t = t[2][1]
            continue
        raise CanonError("not a list: %r" % (t,))


def as_chars(t):
    cps = []
    for a in as_list(t):
        if a[0] != "atom" or len(a[1]) != 1:
            raise CanonError("not a character: %r" % (a,))
        cps.append(ord(a[1]))
    return cps


def term_to_value(t):
    """documented term form -> value; raises CanonError when the term has another shape"""
    if t == ("atom", "null"):
        return ("null",)
    if t[0] == "cmp" and len(t[2]) == 1:
        f, a = t[1], t[2][0]
        if f == "boolean" and a in (("atom", "true"), ("atom", "false")):
            return ("bool", a[1] == "true")
        if f == "number" and a[0] == "int":
            return ("int", a[1])
        if f == "number" and a[0] == "flt":
            return ("flt", struct.unpack(">d", bytes.fromhex(a[1]))[0])
        if f == "string":
            return ("str", as_chars(a))
        if f == "list":
            return ("arr", [term_to_value(x) for x in as_list(a)])
        if f == "pairs":
            ms = []
            for p in as_list(a):
                if not (p[0] == "cmp" and p[1] == "-" and len(p[2]) == 2):
                    raise CanonError("not a pair")
                k = p[2][0]
                if not (k[0] == "cmp" and k[1] == "string" and len(k[2]) == 1):
                    raise CanonError("key is not string(_)")
                ms.append((as_chars(k[2][0]), term_to_value(p[2][1])))
            return ("obj", ms)
    raise CanonError("not a JSON term: %r" % (t,))


# ---------------------------------------------------------------- numbers

def bits(f):
    return struct.pack(">d", f).hex()


def norm_dec(neg, m, e):
    if m == 0:
        return ("dec", False, 0, 0)
    while m % 10 == 0:
        m //= 10
        e += 1
    return ("dec", neg, m, e)


def dec_to_float(v):
    """nearest double of an exact decimal; None when out of the finite range"""
    _, neg, m, e = v
    try:
        f = float("%s%de%d" % ("-" if neg else "", m, e))
    except (OverflowError, ValueError):
        return None
    if f in (float("inf"), float("-inf")):
        return None
    return f


def dec_is_exact(v, f):
    _, neg, m, e = v
    q = Fraction(m) * (Fraction(10) ** e)
    if neg:
        q = -q
    return Fraction(f) == q


def float_to_dec(f):
    """exact decimal denoted by Python's shortest repr of f (used for spelling variants)"""
    r = repr(abs(f))
    mant, _, ex = r.partition("e")
    ex = int(ex) if ex else 0
    ip, _, fp = mant.partition(".")
    return norm_dec(f < 0 or (f == 0 and str(f).startswith("-")), int(ip + fp), ex - len(fp))


def same_value(model_v, impl_v, notes):
    """structural comparison; a model `dec` against an implementation `flt` goes through the nearest
    double. notes collects ('exact'|'nearest', dec, expected bits, got bits) for float mismatches.
    Returns True when equal apart from the float mismatches recorded in notes."""
    a, b = model_v, impl_v
    if a[0] == "dec":
        if b[0] != "flt":
            return False
        f = dec_to_float(a)
        if f is None:
            notes.append(("range", a, None, bits(b[1])))
            return True
        if f == 0 and b[1] == 0:
            return True
        if bits(f) != bits(b[1]):
            notes.append(("exact" if dec_is_exact(a, f) else "nearest", a, bits(f), bits(b[1])))
        return True
    if a[0] != b[0]:
        return False
    if a[0] in ("null", "bool", "int", "str"):
        return a == b
    if a[0] == "flt":
        return bits(a[1]) == bits(b[1])
    if a[0] == "arr":
        return len(a[1]) == len(b[1]) and all(same_value(x, y, notes) for x, y in zip(a[1], b[1]))
    if a[0] == "obj":
        return len(a[1]) == len(b[1]) and all(
            ka == kb and same_value(x, y, notes) for (ka, x), (kb, y) in zip(a[1], b[1]))
    return False


def flt_diff_only(a, b):
    """True when a and b (both implementation-side values) differ only in float leaves"""
    if a[0] == "flt" and b[0] == "flt":
        return True
    if a[0] != b[0]:
        return False
    if a[0] == "arr":
        return len(a[1]) == len(b[1]) and all(flt_diff_only(x, y) for x, y in zip(a[1], b[1]))
    if a[0] == "obj":
        return len(a[1]) == len(b[1]) and all(ka == kb and flt_diff_only(x, y) for (ka, x), (kb, y) in zip(a[1], b[1]))
    return a == b


def has_kind(v, kind):
    if v[0] == kind:
        return True
    if v[0] == "arr":
        return any(has_kind(x, kind) for x in v[1])
    if v[0] == "obj":
        return any(has_kind(x, kind) for _, x in v[1])
    return False


def depth(v):
    if v[0] == "arr":
        return 1 + max([depth(x) for x in v[1]] + [0])
    if v[0] == "obj":
        return 1 + max([depth(x) for _, x in v[1]] + [0])
    return 1


def to_model_value(v):
    """value with python floats -> model value (the decimal of the shortest repr)"""
    if v[0] == "flt":
        return float_to_dec(v[1])
    if v[0] == "arr":
        return ("arr", [to_model_value(x) for x in v[1]])
    if v[0] == "obj":
        return ("obj", [(k, to_model_value(x)) for k, x in v[1]])
    return v


# ---------------------------------------------------------------- generators

CHAR_POOL = ([34, 92, 47, 8, 12, 10, 13, 9] * 3 + list(range(1, 32)) + [0, 127, 0x80, 0x9f, 0xa0, 0xe9, 0x2028, 0x2029,
             0xd7ff, 0xe000, 0xfeff, 0xfffd, 0xffff, 0x10000, 0x1f600, 0x10ffff, 0x1d11e]
             + [ord(c) for c in "aAzZ09 uU bfnrt eE.-+:,[]{}'xX"] * 2)

INT_POOL = [0, 1, -1, 9, 10, -10, 11, 99, 100, 101, 255, 1000, -1000, 2 ** 31, -2 ** 31, 2 ** 53, 2 ** 53 + 1, 2 ** 63,
            -2 ** 63, 2 ** 64, 10 ** 18, 10 ** 20, -10 ** 25 + 1, 12345678901234567890123, 5 * 10 ** 30]

FLT_POOL = [0.0, 1.0, -1.0, 0.5, 1.5, -2.5, 0.25, 0.1, 0.2, 0.3, 1e22, 1e23, 1e15, 1e16, 1e-7, 123456.789, 5e-324,
            2.2250738585072014e-308, 1.7976931348623157e308, 4.9406564584124654e-324, 9007199254740993.0, 1e100,
            0.30000000000000004, 2.5e-5, 1e-5, 100.0, 3.141592653589793]


def gen_string(rng, maxlen=8):
    n = rng.choice([0, 1, 1, 2, 3, 4, 6, maxlen])
    return [rng.choice(CHAR_POOL) for _ in range(n)]


def gen_int(rng):
    k = rng.random()
    if k < 0.4:
        return rng.choice(INT_POOL)
    if k < 0.7:
        return rng.randint(-1000, 1000)
    return rng.choice([-1, 1]) * rng.getrandbits(rng.choice([8, 32, 60, 64, 100, 200]))


def gen_float(rng):
    k = rng.random()
    if k < 0.3:
        f = rng.choice(FLT_POOL)
    elif k < 0.5:
        f = round(rng.uniform(-1000, 1000), rng.randint(0, 6))
    elif k < 0.65:
        f = rng.randint(-2 ** 20, 2 ** 20) / 2.0 ** rng.randint(0, 30)      # dyadic: exactly representable
    elif k < 0.8:
        f = rng.uniform(-1, 1) * 10.0 ** rng.randint(-30, 30)
    else:
        f = struct.unpack(">d", struct.pack(">Q", rng.getrandbits(64)))[0]
    if f != f or f in (float("inf"), float("-inf")):
        f = 1.5
    if f == 0:
        f = 0.0    # no negative zero
    return f


def gen_value(rng, d, floats):
    """d = remaining depth (1 = scalar only)"""
    k = rng.random()
    if d <= 1 or k < 0.35:
        j = rng.random()
        if j < 0.1:
            return ("null",)
        if j < 0.2:
            return ("bool", rng.random() < 0.5)
        if j < 0.55:
            return ("str", gen_string(rng))
        if floats and j < 0.75:
            return ("flt", gen_float(rng))
        return ("int", gen_int(rng))
    n = rng.choice([0, 1, 1, 2, 2, 3, 4])
    if k < 0.68:
        return ("arr", [gen_value(rng, d - 1, floats) for _ in range(n)])
    keys = [gen_string(rng, 4) for _ in range(n)]
    if n >= 2 and rng.random() < 0.2:
        keys[1] = keys[0]          # duplicate key: order and duplicates are preserved
    return ("obj", [(kk, gen_value(rng, d - 1, floats)) for kk in keys])


def ws(rng, p=0.3):
    if rng.random() > p:
        return []
    return [rng.choice(WS) for _ in range(rng.choice([1, 1, 2, 3]))]


def hex4(rng, n):
    s = "%04x" % n
    return [ord(rng.choice([c.lower(), c.upper()])) for c in s]


def spell_char(rng, c, variant):
    """a spelling of one character inside a JSON string"""
    opts = []
    if c in ESC:
        opts.append([92, ord(ESC[c])])
    if c >= 32 and c not in (34, 92):
        opts.append([c])
    if variant:
        if c < 0x10000:
            opts.append([92, 117] + hex4(rng, c))
        else:
            hi, lo = 0xD800 + ((c - 0x10000) >> 10), 0xDC00 + ((c - 0x10000) & 0x3FF)
            opts.append([92, 117] + hex4(rng, hi) + [92, 117] + hex4(rng, lo))
    if not variant:
        if c in ESC:
            return [92, ord(ESC[c])]
        if c < 32:
            return [92, 117, 48, 48] + [ord(x) for x in "%02x" % c]
        return [c]
    return rng.choice(opts)


def spell_string(rng, cps, variant):
    out = [34]
    for c in cps:
        out += spell_char(rng, c, variant)
    return out + [34]


def spell_int(rng, n, variant):
    if not variant or rng.random() < 0.5:
        return [ord(c) for c in str(n)]
    a, z = abs(n), 0
    while a != 0 and a % 10 == 0 and rng.random() < 0.7:
        a //= 10
        z += 1
    if rng.random() < 0.3:
        z0 = "0" * rng.choice([0, 1, 2])
    else:
        z0 = ""
    s = ("-" if n < 0 else "") + str(a) + rng.choice("eE") + rng.choice(["", "+"] if z else ["", "+", "-"]) + z0 + str(z)
    if n == 0 and rng.random() < 0.5:
        s = rng.choice(["-0", "0e5", "-0E+3", "0e-0"])
    return [ord(c) for c in s]


def spell_dec(rng, v):
    """a spelling of the decimal (-1)^neg * m * 10^e that the library reads as a float"""
    _, neg, m, e = v
    digs = str(m)
    # choose where the decimal point goes: value = digs * 10^e
    shift = rng.choice([0, 0, 1, 2, -1, -2, len(digs) - 1, len(digs), rng.randint(-4, 4)])
    ex = e + shift            # digs with the point moved `shift` places to the left, times 10^ex
    if shift <= 0:
        ip, fp = digs + "0" * (-shift), ""
    elif shift < len(digs):
        ip, fp = digs[:-shift], digs[-shift:]
    else:
        ip, fp = "0", "0" * (shift - len(digs)) + digs
    ip = ip.lstrip("0") or "0"
    if rng.random() < 0.3:
        fp += "0" * rng.choice([1, 2])
    if not fp and ex >= 0:
        fp = "0"          # otherwise the token would be an integer
    s = ("-" if neg else "") + ip + ("." + fp if fp else "")
    if ex != 0 or rng.random() < 0.2:
        s += rng.choice("eE") + (("-" if ex < 0 else rng.choice(["", "+"]))) + rng.choice(["", "", "0"]) + str(abs(ex))
    return [ord(c) for c in s]


def gen_float_token(rng):
    """one spelling of a decimal that the library reads as a float: shortest digits of a double
    (pool / dyadic / random bits), or a random mantissa of 8..70 bits with a small or a large exponent"""
    k = rng.random()
    if k < 0.5:
        d = float_to_dec(gen_float(rng))
    elif k < 0.8:
        d = norm_dec(rng.random() < 0.5, rng.getrandbits(rng.choice([8, 20, 53, 60, 70])), rng.randint(-30, 25))
    else:
        d = norm_dec(rng.random() < 0.5, rng.getrandbits(rng.choice([8, 20, 53, 64])), rng.randint(-340, 300))
    return spell_dec(rng, d)


def spell(rng, v, variant):
    """text of value v (model value: ints and decs). variant=False: the generator's canonical
    spelling (ints/strings only); variant=True: random white space, escapes, number spellings."""
    k = v[0]
    w = (lambda: ws(rng)) if variant else (lambda: [])
    if k == "null":
        return [ord(c) for c in "null"]
    if k == "bool":
        return [ord(c) for c in ("true" if v[1] else "false")]
    if k == "int":
        return spell_int(rng, v[1], variant)
    if k == "dec":
        return spell_dec(rng, v)
    if k == "str":
        return spell_string(rng, v[1], variant)
    if k == "arr":
        if not v[1]:
            return [91] + w() + [93]
        out = [91]
        for i, x in enumerate(v[1]):
            if i:
                out.append(44)
            out += w() + spell(rng, x, variant) + w()
        return out + [93]
    if k == "obj":
        if not v[1]:
            return [123] + w() + [125]
        out = [123]
        for i, (kk, x) in enumerate(v[1]):
            if i:
                out.append(44)
            out += w() + spell_string(rng, kk, variant) + w() + [58] + w() + spell(rng, x, variant) + w()
        return out + [125]
    raise ValueError(v)


EDIT_POOL = [ord(c) for c in "[]{},:\"\\/ \n\t\r0123456789-+.eEuUtfnabcx'"] + [0, 1, 0x1f, 0x7f, 0xa0, 0xc, 0xb, 0xd800 - 1, 0x1f600]


def edit(rng, cps):
    """one single edit of a document"""
    cps = list(cps)
    k = rng.random()
    if not cps:
        return [rng.choice(EDIT_POOL)]
    i = rng.randrange(len(cps))
    if k < 0.3:
        del cps[i]
    elif k < 0.55:
        cps.insert(rng.randrange(len(cps) + 1), rng.choice(EDIT_POOL))
    elif k < 0.8:
        cps[i] = rng.choice(EDIT_POOL)
    elif k < 0.88 and len(cps) > 1:
        j = min(i, len(cps) - 2)
        cps[j], cps[j + 1] = cps[j + 1], cps[j]
    elif k < 0.94:
        cps = cps[:i]
    else:
        cps.insert(i, cps[i])
    return cps


MALFORMED = [
    "", " ", "\n", "[1,]", "{,}", "[,]", "[,1]", '{"a":1,}', '{"a"}', '{"a":}', "{a:1}", "{'a':1}", "[1 2]", "01", "-",
    "+1", "1.", ".5", "1e", "1e+", "1e-", "0x10", "1.e1", "--1", "- 1", "tru", "True", "TRUE", "nul", "Null", "NaN",
    "Infinity", "-Infinity", '"abc', 'abc"', '"\\x41"', '"\\u12"', '"\\u12G4"', '"\\u 123"', '"\\ud800"', '"\\udc00"',
    '"\\ud800\\u0041"', '"\\ud800\\ud800"', '"\\udc00\\ud800"', '"\\uD83D"', '"\\uD83Dx"', '"\\uD83D\\n"', '"\\uDE00\\uD83D"',
    '"\\ud800\\udbff"', '"\\udbff\\ue000"', '"\\ud83d\\ude0"', '"\\ud83d\\\\ude00"',
    '"a\tb"', '"a\nb"', '"\x01"', '"\x1f"', '"\x00"', "[1,2", "[1,2]]", "{}{}", "[][]", "1 2", "true false", "[]x",
    "\u00a01", "\x0c1", "\x0b1", "1\x0c", "\ufeff1", '{"a":1 "b":2}', '{"a" 1}', '{"a"::1}', "{1:2}", "{null:1}",
    '["a":1]', '{"a",1}', '"\\\'"', '"\\a"', '"\\U0041"', '"\\v"', '"\\0"', "1e1.5", "1.2.3", "1ee2", "0e", "00", "-01",
    "-00", "0.0.0", "1_000", "1,000", "'a'", "// c\n1", "/* */1", "[1,\n//x\n2]", "[", "]", "{", "}", '{"a":', '{"a"',
    '"', '"\\', '"\\u', '"\\"', "nulll", "truefalse", "[null,]", "[null,,null]", '{"a":1,,"b":2}', ":", ",", "1,",
    "[1],", "{\"a\":1}}", "[[]", "[{]}", "{[}]", "1e+-1", "1e++1", "1.5.", "1.5e", "-.5", "-e1", "0.e1", "1e1e1",
    "0b1", "1f", "1d", "1L", "١", "１", '"\\u00e"', '"\\u00eg"', "t", "f", "n", "-t", "\"a\" \"b\"", "[\"a\" \"b\"]",
]

WELLFORMED_EXTRA = [
    '"\\ud83d\\ude00"', '"\\uD83D\\uDE00"', '"\\uD800\\uDC00"', '"\\uDBFF\\uDFFF"', '"x\\ud834\\udd1ey"', '"\\ud83d\\ude00\\ud83d\\ude00"',
    '"\\u0000"', '"\\u001f"', '"\\u001F"', '"\\u007f"', '"\\uFFFF"', '"\\ud7ff"', '"\\ue000"', '"\\u0022\\u005c\\u002F"',
    '"\\"\\\\\\/\\b\\f\\n\\r\\t"', '"/"', '"\x7f"', '"\u2028\u2029"', " \t\r\n[ \t\r\n] \t\r\n", " { } ", "[ [ ] , { } ]",
    "0", "-0", "0e0", "0E+0", "-0e-0", "1E2", "1e+2", "1e02", "12e0", "10e1", "1e-0", "0.0", "-0.0", "0.5", "1.5", "1e2",
    "-0.25E+1", "2.5e-1", "100e-2", "1.0", "1.50", "15.0e-1", "0.15e1", "0.015E+2", "1e-2", "3e-1", "125e-3", "1e22",
    "1.0e22", "1e-7", "123456789012345678901234567890", "-123456789012345678901234567890e3", "0.1", "0.2", "0.3",
    '{"a":1,"a":2}', '{"":""}', '{"a":{"a":{"a":{}}}}', "[[[[]]]]", '[1,"1",[1],{"1":1}]', "true", "false", "null",
    " null ", "[true,false,null]", '{"k" : "v" , "k2" :[ ] }', "1e400",
]


# ---------------------------------------------------------------- cases

USE = "use_module(library(serialization/json))."
BATCH = 20
BIGEXP = re.compile(r"[eE][+-]?[0-9]{5,}")


def norm_value(v):
    """tuples again after a trip through JSON (replay / corpus files)"""
    if v is None:
        return None
    k = v[0]
    if k == "arr":
        return ("arr", [norm_value(x) for x in v[1]])
    if k == "obj":
        return ("obj", [(list(kk), norm_value(x)) for kk, x in v[1]])
    if k == "str":
        return ("str", list(v[1]))
    return tuple(v)


def parse_item(i, cps, origin, expect=None):
    return {"id": "p%d" % i, "dir": "parse", "origin": origin, "text": list(cps), "expect": expect}


def gen_item(i, v, origin):
    return {"id": "g%d" % i, "dir": "gen", "origin": origin, "value": v}


def item_goal(it, k):
    """the Prolog goal of one item; its variables carry the suffix k (A=answers, E=error, C=text, T=term)"""
    if it["dir"] == "parse":
        return "catch(findall(J, phrase(json_chars(J), %s), A%d), error(E%d, _), true)" % (pl_string(it["text"]), k, k)
    return ("T%d = %s, catch((once(phrase(json_chars(T%d), C%d)), findall(J, phrase(json_chars(J), C%d), A%d)), "
            "error(E%d, _), true)" % (k, pl_term(it["value"]), k, k, k, k, k))


NUMTOK = re.compile(r"-?[0-9]+(\.[0-9]+)?([eE][+-]?[0-9]+)?\Z")


def is_number_token(cps):
    return len(cps) <= 400 and NUMTOK.match("".join(map(chr, cps))) is not None


def read_flt_line(r):
    """driver answer 'P <m> <e>|inf N <m> <e>|inf' -> (pinned, nearest): magnitudes m*2^e as Python
    floats (exact: m < 2^53, e <= 971), None = overflow"""
    w = r.split(" ")

    def one(j):
        if w[j] == "inf":
            return None, j + 1
        return math.ldexp(int(w[j]), int(w[j + 1])), j + 2
    if w[0] != "P":
        raise ValueError(r)
    pin, j = one(1)
    if w[j] != "N":
        raise ValueError(r)
    near, _ = one(j + 1)
    return pin, near


def item_model_lines(it):
    if it["dir"] == "parse":
        out = ["parse\t%s\t%s" % (it["id"], cps_field(it["text"]))]
        if is_number_token(it["text"]):
            # a lone number token: the Lean double model (today's assembled float, nearest double)
            out.append("flt\t%sf\t%s" % (it["id"], cps_field(it["text"])))
        return out
    if not has_kind(it["value"], "flt"):
        return ["gen\t%s\t%s" % (it["id"], " ".join(model_tokens(it["value"])))]
    return []


def make_batch(bid, items):
    """one harness case: load the library (each worker has its own machine), then ONE query that
    runs every item of the batch (a query costs ~10 ms, use_module ~40 ms)."""
    q = ", ".join(item_goal(it, k) for k, it in enumerate(items)) + "."
    return {"id": bid, "items": items,
            "impl": ["Q\tu%s\t1\t%s" % (bid, USE), "Q\t%s\t1\t%s" % (bid, hesc(q))],
            "model": [l for it in items for l in item_model_lines(it)]}


def lib_missing(b):
    e = b.get("E") if isinstance(b, dict) else None
    return e is not None and e[0] == "cmp" and e[1] == "existence_error" and "json_chars" in repr(e)


def split_bindings(res, n):
    """result of a batch query -> list of per-item dicts {A,E,C,T}, or None if it is not a binding set"""
    if not (res or "").startswith("{"):
        return None
    b = parse_bindings(res.split(" ;; ")[0])
    out = [dict() for _ in range(n)]
    for name, t in b.items():
        if name[0] in "AECT" and name[1:].isdigit() and int(name[1:]) < n:
            out[int(name[1:])][name[0]] = t
    return out


def build_items(rng, tier):
    n_val = 700 if tier == "quick" else 12000
    n_edit = 1500 if tier == "quick" else 30000
    items = []
    docs = []

    def add(it):
        items.append(it)

    k = [0]

    def nid():
        k[0] += 1
        return k[0]
    for s in MALFORMED:
        add(parse_item(nid(), [ord(c) for c in s], "malformed-list"))
    for s in WELLFORMED_EXTRA:
        cps = [ord(c) for c in s]
        add(parse_item(nid(), cps, "wellformed-list"))
        docs.append(cps)
    # every \u escape of the controls and of the boundary code points, lower and upper case hex
    for cp in list(range(0, 33)) + [34, 47, 92, 127, 0xe9, 0xd7ff, 0xe000, 0xffff, 0x10000, 0x1f600, 0x10ffff]:
        for up in (False, True):
            if cp < 0x10000:
                s = "\\u%04x" % cp
            else:
                s = "\\u%04x\\u%04x" % (0xD800 + ((cp - 0x10000) >> 10), 0xDC00 + ((cp - 0x10000) & 0x3FF))
            s = '"' + (s.upper().replace("\\U", "\\u") if up else s) + '"'
            add(parse_item(nid(), [ord(c) for c in s], "escape-table", ("str", [cp])))
    for j in range(n_val):
        floats = (j % 3 == 2)
        v = gen_value(rng, rng.choice([1, 2, 2, 3, 3, 4, 4]), floats)
        add(gen_item(nid(), v, "value"))             # generation + parsing back on the implementation
        mv = to_model_value(v)
        if not has_kind(v, "flt"):
            add(parse_item(nid(), spell(rng, mv, False), "canonical", mv))
        cps = spell(rng, mv, True)
        add(parse_item(nid(), cps, "variant", mv))
        docs.append(cps)
    # scalar sweeps: integers and floats on their own (number token round trip), characters on their own
    for n in INT_POOL + [-x for x in INT_POOL]:
        add(gen_item(nid(), ("int", n), "int-pool"))
    for f in FLT_POOL + [-x for x in FLT_POOL if x != 0]:
        add(gen_item(nid(), ("flt", f), "flt-pool"))
    for _ in range(200 if tier == "quick" else 6000):
        add(gen_item(nid(), ("flt", gen_float(rng)), "flt-random"))
    for cp in sorted(set(CHAR_POOL)):
        add(gen_item(nid(), ("str", [cp]), "char-pool"))
    # single-edit mutants of valid documents
    docs = [d for d in docs if len(d) <= 300]
    for _ in range(n_edit):
        m = edit(rng, rng.choice(docs))
        if rng.random() < 0.15:
            m = edit(rng, m)
        if BIGEXP.search("".join(map(chr, m))):
            continue          # 10^99999…: the implementation would compute it
        add(parse_item(nid(), m, "edit"))
    # lone float tokens (after everything else, so that the cases above do not depend on this sweep)
    for _ in range(300 if tier == "quick" else 8000):
        add(parse_item(nid(), gen_float_token(rng), "flt-token"))
    return items


# ---------------------------------------------------------------- judging

def any_dec_out_of_range(v):
    if v[0] == "dec":
        return dec_to_float(v) is None
    if v[0] == "arr":
        return any(any_dec_out_of_range(x) for x in v[1])
    if v[0] == "obj":
        return any(any_dec_out_of_range(x) for _, x in v[1])
    return False


def has_nonbmp(v):
    if v[0] == "str":
        return any(c >= 0x10000 for c in v[1])
    if v[0] == "arr":
        return any(has_nonbmp(x) for x in v[1])
    if v[0] == "obj":
        return any(has_nonbmp(x) or any(c >= 0x10000 for c in k) for k, x in v[1])
    return False


def show_term(t):
    return repr(t)[:160]


def judge_flt_line(text, fr, impl_vals, stats):
    """a lone float token: (1) the Lean rounding `nearestMag` must equal Python's float() (the two
    conversions decimal -> double used by this check validate each other); (2) statistics on whether
    the implementation's value is the nearest double or the value of the Lean mirror of today's
    code (`pinnedMag`). The verdict on the implementation is NOT taken here."""
    pin, near = read_flt_line(fr)
    try:
        pf = float(text.lstrip("-"))
        if pf == float("inf"):
            pf = None
    except (OverflowError, ValueError):
        pf = None
    stats["flt_tokens"] += 1
    if pf != near:
        return ("disagreement", "model-rounding", "Lean nearestMag gives %r, Python float() gives %r" % (near, pf))
    if impl_vals is None:
        if pin is None:
            stats["flt_impl_error_as_pinned_model"] += 1
        return None
    if len(impl_vals) == 1 and impl_vals[0][0] == "flt":
        iv = abs(impl_vals[0][1])
        if near is not None and iv == near:
            stats["flt_impl_nearest"] += 1
            if pin != near:
                stats["flt_impl_nearest_where_pinned_model_differs"] += 1
        elif pin is not None and iv == pin:
            stats["flt_impl_not_nearest_equals_pinned_model"] += 1
        else:
            stats["flt_impl_not_nearest_unexplained"] += 1
    return None


def classify_parse(c, mres, b, stats):
    """c: item, mres: model result text, b: the item's bindings {A: answers | E: error}.
    Returns None when fine, else (kind, class, detail)."""
    text = "".join(chr(x) for x in c["text"])
    if mres == "skip-bigexp":
        stats["skipped"] += 1
        return None
    impl_vals = None          # None = an error was raised
    if "E" not in b:
        try:
            impl_vals = [term_to_value(t) for t in as_list(b["A"])]
        except (CanonError, KeyError) as x:
            return ("violation", "undocumented-term", "answer is not in the documented term form: %s" % x)
    if mres == "none":
        if impl_vals is None:
            stats["rejected_by_error"] += 1
            return None
        if impl_vals == []:
            stats["rejected_by_failure"] += 1
            return None
        return ("violation", "accepts-invalid",
                "the model (RFC 8259 grammar) rejects this document, the implementation returns %r" % (impl_vals[:1],))
    if not mres.startswith("ok "):
        return ("disagreement", "model-output", mres)
    mv = read_model_value(mres[3:].split(" "))
    expect = norm_value(c.get("expect"))
    if expect is not None and expect != mv:
        return ("disagreement", "generator-vs-model", "python expected %r, model parsed %r" % (expect, mv))
    stats["valid"] += 1
    fr = c.get("flt_res")
    if fr and fr.startswith("P "):
        r = judge_flt_line(text, fr, impl_vals, stats)
        if r is not None:
            return r
    if any_dec_out_of_range(mv):
        stats["float_out_of_range"] += 1      # no finite double: what the library should do is not fixed by the statement
        return None
    if impl_vals is None or impl_vals == []:
        how = ("raises " + show_term(b["E"])) if impl_vals is None else "fails"
        surr = any(text[i:i + 2] == "\\u" and text[i + 2:i + 4].lower() in ("d8", "d9", "da", "db") for i in range(len(text)))
        if surr and has_nonbmp(mv) and "representation_error" in how:
            return ("violation", "surrogate-pair-escape", "valid document with a \\uD8xx\\uDCxx pair is not parsed: " + how)
        if has_kind(mv, "dec") and "evaluation_error" in how:
            return ("violation", "float-range-error", "valid document whose numbers are finite doubles is not parsed: " + how)
        return ("violation", "rejects-valid", "valid document is not parsed: " + how)
    if len(impl_vals) != 1:
        return ("violation", "several-answers", "%d answers for one document" % len(impl_vals))
    notes = []
    if not same_value(mv, impl_vals[0], notes):
        return ("violation", "wrong-value", "model %r, implementation %r" % (mv, impl_vals[0]))
    for kind, d, exp, got in notes:
        if kind == "range":
            stats["float_out_of_range"] += 1
        elif kind == "nearest":
            stats["float_not_nearest"] += 1
        elif kind == "exact":
            return ("violation", "float-exact",
                    "%r is exactly representable (bits %s), the parser returned bits %s" % (d, exp, got))
    if has_kind(mv, "dec"):
        stats["float_docs"] += 1
    return None


def classify_gen(c, mres, b, stats, second):
    """generation + parsing back on the implementation; text compared with the model's gen when
    the value has no float. `second` collects items whose generated text the model parses."""
    v = c["value"]
    try:
        t_echo = term_to_value(b["T"])
    except (CanonError, KeyError) as x:
        return ("disagreement", "unreadable-impl-output", str(x))
    if not same_value(v, t_echo, []):
        stats["reader_mismatch"] += 1      # the reader did not read our literal as intended: not C41's subject
        return None
    if "E" in b or "C" not in b:
        return ("violation", "gen-fails", "generation raised/failed: %s" % show_term(b.get("E")))
    try:
        text = as_chars(b["C"])
        back = [term_to_value(t) for t in as_list(b["A"])]
    except (CanonError, KeyError) as x:
        return ("violation", "undocumented-term", str(x))
    c["impl_text"] = text
    if mres is not None:
        if not mres.startswith("ok"):
            return ("disagreement", "model-output", mres)
        mt = [int(x) for x in mres[3:].split(" ")] if len(mres) > 3 else []
        stats["gen_text_compared"] += 1
        if mt != text:
            return ("violation", "gen-text", "generated text differs: model %r, implementation %r" % (
                "".join(map(chr, mt)), "".join(map(chr, text))))
    second.append(c)
    if len(back) != 1 or not same_value(v, back[0], []):
        if len(back) == 1 and flt_diff_only(v, back[0]):
            return ("violation", "float-roundtrip", "text %r generated from %s parses back to %s" % (
                "".join(map(chr, text)), pl_term(v), pl_term(back[0])))
        return ("violation", "roundtrip", "text %r generated from %s parses back to %r" % (
            "".join(map(chr, text)), pl_term(v), back))
    return None


STABLE = ("surrogate-pair-escape", "float-roundtrip", "float-exact", "float-range-error")


def run(ctx):
    rng, tier = ctx["rng"], ctx["tier"]
    rep = diff.replay_case(ctx)
    if rep is not None:
        items = [it for c in rep for it in c.get("items", [])]
    else:
        items = [it for c in diff.load_corpus("C41") for it in c.get("items", [])]
        for n, it in enumerate(items):
            it["id"] = "c%d%s" % (n, it["dir"][0])
        items += build_items(rng, tier)
    for it in items:
        if it["dir"] == "gen":
            it["value"] = norm_value(it["value"])
    batches = [make_batch("b%d" % n, items[i:i + BATCH]) for n, i in enumerate(range(0, len(items), BATCH))]
    impl, model = diff.run_cases(batches)
    per_item = {}
    redo = []
    load_trouble = {}

    def usable(bid, sp):
        """False when the batch has to be run again: no binding set (timeout / panic), or the library
        was not loaded on that machine (the use_module line hit the watchdog under machine load, every
        item then raises existence_error(procedure, json_chars/3))"""
        u = impl_all.get("u" + bid) or "missing"
        bad = sp is None or not u.startswith("true") or any(lib_missing(b) for b in sp)
        if bad:
            k = ("no-bindings: " + str(impl_all.get(bid))[:60]) if sp is None else u[:100]
            load_trouble[k] = load_trouble.get(k, 0) + 1
        return not bad
    impl_all = impl
    for bt in batches:
        try:
            sp = split_bindings(impl.get(bt["id"]), len(bt["items"]))
        except (CanonError, ValueError, IndexError):
            sp = None
        if not usable(bt["id"], sp):
            redo.extend(bt["items"])      # run its items one by one, sequentially
        else:
            for it, b in zip(bt["items"], sp):
                per_item[it["id"]] = b
    if redo:
        singles = [make_batch("r%s" % it["id"], [it]) for it in redo]
        for s in singles:
            s["model"] = []
        impl2, _ = diff.run_cases(singles, parallel=False)
        impl_all = impl2
        for s in singles:
            it = s["items"][0]
            try:
                sp = split_bindings(impl2.get(s["id"]), 1)
            except (CanonError, ValueError, IndexError):
                sp = None
            if usable(s["id"], sp):
                per_item[it["id"]] = sp[0]
            else:
                per_item[it["id"]] = ("raw", "unusable(%s / %s)" % (impl2.get("u" + s["id"]), impl2.get(s["id"])))
    stats = {k: 0 for k in ("valid", "rejected_by_failure", "rejected_by_error", "float_not_nearest", "float_out_of_range",
                            "float_docs", "reader_mismatch", "skipped", "gen_text_compared", "gen_parsed_back_by_model",
                            "flt_tokens", "flt_impl_nearest", "flt_impl_nearest_where_pinned_model_differs",
                            "flt_impl_not_nearest_equals_pinned_model", "flt_impl_not_nearest_unexplained",
                            "flt_impl_error_as_pinned_model")}
    stats["items_rerun_one_by_one"] = len(redo)
    stats["load_trouble"] = load_trouble
    findings, agree = [], 0
    second = []
    distinct = set()
    origins = {}
    verdicts = {}
    for c in items:
        i = c["id"]
        origins[c.get("origin", "corpus")] = origins.get(c.get("origin", "corpus"), 0) + 1
        b = per_item.get(i)
        try:
            if isinstance(b, tuple) or b is None:
                raw = b[1] if b else "missing"
                r = ("disagreement", "harness-" + str(raw).split("(")[0], str(raw)[:200])
            elif c["dir"] == "parse":
                c["flt_res"] = model.get(i + "f")
                r = classify_parse(c, model.get(i, "missing"), b, stats)
            else:
                r = classify_gen(c, model.get(i), b, stats, second)
        except Exception as x:     # a judge bug must not pass silently
            r = ("disagreement", "judge-exception", repr(x))
        distinct.add(("p", tuple(c["text"])) if c["dir"] == "parse" else ("g", pl_term(c["value"])))
        verdicts[i] = r
    # second phase: the model parses the text the implementation generated
    lines = ["parse\tz%s\t%s" % (c["id"], cps_field(c["impl_text"])) for c in second]
    m2 = core.run_model(lines) if lines else {}
    for c in second:
        if verdicts.get(c["id"]) is not None:
            continue
        mres = m2.get("z" + c["id"], "missing")
        stats["gen_parsed_back_by_model"] += 1
        if not mres.startswith("ok "):
            verdicts[c["id"]] = ("violation", "gen-invalid-text",
                                 "the model rejects the generated text %r" % "".join(map(chr, c["impl_text"])))
            continue
        mv = read_model_value(mres[3:].split(" "))
        notes = []
        if not same_value(mv, c["value"], notes) or any(n[0] in ("exact", "nearest") for n in notes):
            verdicts[c["id"]] = ("violation", "gen-denotes-other-value", "generated text %r denotes %r, not %s" % (
                "".join(map(chr, c["impl_text"])), mv, pl_term(c["value"])))
    for c in items:
        r = verdicts.get(c["id"])
        if rep is not None:
            print("replay %s %s: impl=%r model=%s verdict=%r" % (
                c["id"], "".join(map(chr, c["text"])) if c["dir"] == "parse" else pl_term(c["value"]),
                per_item.get(c["id"]), model.get(c["id"]), r))
        if r is None:
            agree += 1
            continue
        kind, cls, detail = r
        shown = "".join(map(chr, c["text"])) if c["dir"] == "parse" else pl_term(c["value"])
        sig = {"family": "json", "dir": c["dir"], "class": cls}
        if cls not in STABLE:
            sig["input"] = shown
        item = {k: c[k] for k in ("dir", "origin", "text", "expect", "value") if k in c}
        item["id"] = "x0"
        single = make_batch("x", [dict(item)])
        findings.append(core.Finding(kind, sig, detail + " | input: " + shown,
                                     {"items": [item], "impl": single["impl"], "model": single["model"]}))
    # report the smallest failing input of each class first (the framework keeps one replay per signature)
    findings.sort(key=lambda f: (f.sig.get("class", ""), len(str(f.case.get("items")))))
    samples = []
    for c in items[:: max(1, len(items) // 8)][:8]:
        samples.append("".join(map(chr, c["text"])) if c["dir"] == "parse" else pl_term(c["value"]))
    out = {
        "evaluations": len(items),
        "distinct_nontrivial": len(distinct),
        "rule": "JSON values of depth<=4 (strings over a pool biased to the escape table, controls, surrogate boundaries, non-BMP; integers at 2^31/2^53/2^63/2^64/10^k; floats from a pool, dyadics, random bit patterns) are (a) generated and parsed back on the implementation, text compared with the model's gen, (b) parsed from the canonical text and from a spelling variant (white space, escape spellings incl. \\uXXXX in both cases and surrogate pairs, number spellings); plus single-edit mutants of those documents and a hand-written malformed list; distinct by document text / term text; every case runs the parser or the generator on a structured input; %d items share one query" % BATCH,
        "samples": samples,
        "traces_validated_against_impl": agree,
        "disagreements_checked": len(items) - agree,
        "origins": origins,
        "exhaustive": False,
        "findings": findings,
    }
    out.update(stats)
    return out
