"""C10 — Unification computes most general unifiers.

One abstract case = a pair of terms (t1, t2) with shared variables plus bystander variables.
It is run on the implementation under seven configurations
    =/2 with occurs_check = false | true | error,  unify_with_occurs_check/2,
    \\=/2 with occurs_check = false | true | error
and once on the Lean model (`drv_C10 unify`), whose outcome is `ok σ`, `clash` or `cyclic`.
Theorems (Props/C10.lean) say what the model's outcome means: `ok σ` — σ is an idempotent most
general unifier binding only variables of t1, t2; `clash`/`cyclic` — no finite unifier.

Judge:
  model ok σ    : every config must succeed (\\= must fail), r(T1,T2,Vars) after unification must
                  be a variant of r(t1,t2,vars)σ (so bystanders stay unbound), T1 == T2 must hold.
  model clash   : every config must fail (\\= must succeed), no error.
  model cyclic  : flag true / unify_with_occurs_check: must fail; flag error: must raise
                  error(representation_error(term), _); flag false: success iff the pair is
                  unifiable over rational trees (Python union-find reference, not a theorem),
                  T1 == T2 afterwards; the cyclic result is not printed.
  \\=/2 never binds anything: when it fails/succeeds r(T1,T2,Vars) is a variant of the input.

Head configurations (`head`, compiled get_*/unify_* instructions): the pair is unified by calling a
clause whose head carries t2.  Family `tailshare` (always with head configurations) and the stored
cases corpus/C10/*.json aim at WRITE mode: a variable meets a compound of the head that contains
that variable again (`h(V) ` against head `h([a|V])`), so the occurs check has to fail while the
head structure is being written (finding C10-2).  Directed pairs `strdot_pairs()` put a '.'/2
STRUCTURE cell (`(H '.' T)` under op(200,xfy,'.')) against list cells and partial strings
(findings C10-3, C10-4).
"""
import re
import struct

from .. import core, diff

LEVEL = "proof"
TRUSTED_BASE = [
    "Model.Unify works on finite first-order terms with eager substitution; the heap/store representation, binding direction and the tabu list of unify.rs are tied to it only by this correspondence run",
    "vlib/props/C10.py renders one abstract term both as Prolog text (strings, partial strings, list syntax, run-time computed numbers, shared sub-structures via prelude goals) and as canonical text for the model driver; parser of the canonical answer syntax and the variant (equal up to renaming) test are in Python",
    "for pairs where the model reports a cyclic binding and occurs_check=false, success/failure is compared with a Python union-find unifier for rational trees (reference only, no theorem)",
    "results are observed through findall/3 (a copy of the terms after unification) and ==/2",
]
ASSUMPTIONS = [
    "terms are finite on input (cyclic inputs are not generated); attributed variables, streams and other non-ISO cells are out of scope",
    "floats -0.0 and NaN are not generated (the reader/evaluator of the pinned version does not produce them); floats are compared by bit pattern",
    "rationals with denominator 1 are not generated",
]

FLAGS = ("false", "true", "error")

# ------------------------------------------------------------------ abstract terms
# ('v', name) ('i', n) ('ri', n, exprtext) ('q', num, den) ('f', float) ('a', name)
# ('s', functor, [args]) ('str', "chars", tail|None) ('lst', [elems], tail|None) ('sh', k)
# ('sd', head, tail): the list cell head.tail written `(H '.' T)` under op(200,xfy,'.'), for which the
#   reader builds a '.'/2 STRUCTURE cell instead of a list cell (same term, other representation)


def fbits(x):
    return struct.unpack(">Q", struct.pack(">d", x))[0]


def q_atom(a):
    return "'" + a.replace("\\", "\\\\").replace("'", "\\'") + "'"


def nil():
    return ('a', '[]')


def cons(h, t):
    return ('s', '.', [h, t])


class Render:
    """renders abstract terms to Prolog text, collecting prelude goals."""

    def __init__(self, shares):
        self.shares = shares
        self.prelude = []
        self.done_shares = {}
        self.n = 0

    def fresh(self, p):
        self.n += 1
        return "%s%d" % (p, self.n)

    def pl(self, t):
        k = t[0]
        if k == 'v':
            return t[1]
        if k == 'i':
            return str(t[1]) if t[1] >= 0 else "-%d" % -t[1]
        if k == 'ri':
            v = self.fresh("N")
            self.prelude.append("%s is %s" % (v, t[2]))
            return v
        if k == 'q':
            v = self.fresh("Q")
            self.prelude.append("%s is %d rdiv %d" % (v, t[1], t[2]))
            return v
        if k == 'f':
            return repr(t[1])
        if k == 'a':
            return "[]" if t[1] == '[]' else q_atom(t[1])
        if k == 's':
            return "%s(%s)" % (q_atom(t[1]), ",".join(self.pl(a) for a in t[2]))
        if k == 'str':
            s = '"' + t[1].replace("\\", "\\\\").replace('"', '\\"') + '"'
            if t[2] is None:
                return s
            e = static_end(t[2], self.shares)
            if e[0] != 'v' and e != nil():
                # partial strings with a non-list tail make the pinned version panic when
                # copied/printed: spell it as a list
                return self.pl(('lst', [('a', c) for c in t[1]], t[2]))
            tl = self.pl(t[2])
            v = self.fresh("P")
            self.prelude.append("partial_string(%s, %s, %s)" % (s, v, tl))
            return v
        if k == 'lst':
            inner = ",".join(self.pl(e) for e in t[1])
            if t[2] is None:
                return "[%s]" % inner
            return "[%s|%s]" % (inner, self.pl(t[2]))
        if k == 'sd':
            return "(%s '.' %s)" % (self.pl(t[1]), self.pl(t[2]))
        if k == 'sh':
            if t[1] not in self.done_shares:
                v = "S%d" % t[1]
                self.done_shares[t[1]] = v
                txt = self.pl(self.shares[t[1]])
                self.prelude.append("%s = %s" % (v, txt))
            return self.done_shares[t[1]]
        raise ValueError(t)


def expand(t, shares):
    """abstract term -> plain tree over v/i/q/f/a/s (lists as cons cells)."""
    k = t[0]
    if k in ('v', 'a', 'q'):
        return t
    if k == 'i':
        return t
    if k == 'ri':
        return ('i', t[1])
    if k == 'f':
        return ('f', fbits(t[1]))
    if k == 's':
        return ('s', t[1], [expand(a, shares) for a in t[2]])
    if k == 'str':
        tl = nil() if t[2] is None else expand(t[2], shares)
        for c in reversed(t[1]):
            tl = cons(('a', c), tl)
        return tl
    if k == 'lst':
        tl = nil() if t[2] is None else expand(t[2], shares)
        for e in reversed(t[1]):
            tl = cons(expand(e, shares), tl)
        return tl
    if k == 'sd':
        return cons(expand(t[1], shares), expand(t[2], shares))
    if k == 'sh':
        return expand(shares[t[1]], shares)
    raise ValueError(t)


def canon(t):
    """plain tree -> canonical text understood by Drv/TermIO.parseTermStr."""
    k = t[0]
    if k == 'v':
        return t[1]
    if k == 'i':
        return str(t[1])
    if k == 'q':
        return "r(%d,%d)" % (t[1], t[2])
    if k == 'f':
        return "f(%016x)" % t[1]
    if k == 'a':
        return "[]" if t[1] == '[]' else q_atom(t[1])
    if k == 's':
        return "%s(%s)" % (q_atom(t[1]), ",".join(canon(a) for a in t[2]))
    raise ValueError(t)


# ------------------------------------------------------------------ canonical answer parser

class P:
    def __init__(self, s):
        self.s, self.i = s, 0

    def peek(self):
        return self.s[self.i] if self.i < len(self.s) else ""

    def quoted(self, q):
        assert self.s[self.i] == q
        self.i += 1
        out = []
        while True:
            c = self.s[self.i]
            if c == "\\":
                d = self.s[self.i + 1]
                if d == "x":
                    j = self.s.index("\\", self.i + 2)
                    out.append(chr(int(self.s[self.i + 2:j], 16)))
                    self.i = j + 1
                else:
                    out.append(d)
                    self.i += 2
            elif c == q:
                self.i += 1
                return "".join(out)
            else:
                out.append(c)
                self.i += 1

    def args(self, close):
        out = []
        while True:
            out.append(self.term())
            c = self.s[self.i]
            self.i += 1
            if c == close:
                return out
            assert c == ",", (self.s, self.i)

    def term(self):
        c = self.peek()
        if c == "'":
            name = self.quoted("'")
            if self.peek() == "(":
                self.i += 1
                return ('s', name, self.args(")"))
            return ('a', name)
        if c == '"':
            tl = nil()
            for ch in reversed(self.quoted('"')):
                tl = cons(('a', ch), tl)
            return tl
        if c == "[":
            self.i += 1
            if self.peek() == "]":
                self.i += 1
                return nil()
            tl = nil()
            for e in reversed(self.args("]")):
                tl = cons(e, tl)
            return tl
        m = re.compile(r"r\((-?\d+),(\d+)\)").match(self.s, self.i)
        if m:
            self.i = m.end()
            return ('q', int(m.group(1)), int(m.group(2)))
        m = re.compile(r"f\(([0-9a-f]{16})\)").match(self.s, self.i)
        if m:
            self.i = m.end()
            return ('f', int(m.group(1), 16))
        m = re.compile(r"-?\d+").match(self.s, self.i)
        if m:
            self.i = m.end()
            return ('i', int(m.group(0)))
        m = re.compile(r"[A-Za-z_][A-Za-z0-9_]*").match(self.s, self.i)
        if m:
            self.i = m.end()
            return ('v', m.group(0))
        raise ValueError("cannot parse %r at %d" % (self.s, self.i))


def parse_canon(s):
    p = P(s)
    t = p.term()
    if p.i != len(s):
        raise ValueError("trailing text in %r at %d" % (s, p.i))
    return t


def variant(a, b):
    """equal up to a bijective renaming of variables (iterative)."""
    fwd, bwd = {}, {}
    st = [(a, b)]
    while st:
        x, y = st.pop()
        if x[0] != y[0]:
            return False
        if x[0] == 'v':
            if fwd.setdefault(x[1], y[1]) != y[1] or bwd.setdefault(y[1], x[1]) != x[1]:
                return False
        elif x[0] == 's':
            if x[1] != y[1] or len(x[2]) != len(y[2]):
                return False
            st.extend(zip(x[2], y[2]))
        elif x != y:
            return False
    return True


# ------------------------------------------------------------------ rational-tree reference

def rt_unifiable(t1, t2):
    """Huet-style unification with union-find, no occurs check: unifiability over rational
    trees.  Reference for occurs_check=false on pairs the finite model calls `cyclic`."""
    parent, node = {}, {}

    def mk(t):
        if t[0] == 'v':
            key = ('v', t[1])
            if key not in node:
                node[key] = (t, [])
                parent[key] = key
            return key
        kids = [mk(a) for a in t[2]] if t[0] == 's' else []
        key = ('n', len(node))
        node[key] = (t, kids)
        parent[key] = key
        return key

    def find(k):
        while parent[k] != k:
            parent[k] = parent[parent[k]]
            k = parent[k]
        return k

    st = [(mk(t1), mk(t2))]
    while st:
        a, b = st.pop()
        a, b = find(a), find(b)
        if a == b:
            continue
        ta, ka = node[a]
        tb, kb = node[b]
        if ta[0] == 'v':
            parent[a] = b
        elif tb[0] == 'v':
            parent[b] = a
        else:
            if ta[0] != tb[0]:
                return False
            if ta[0] == 's':
                if ta[1] != tb[1] or len(ka) != len(kb):
                    return False
                parent[a] = b
                st.extend(zip(ka, kb))
            elif ta != tb:
                return False
            else:
                parent[a] = b
    return True


def head_string_meets_compound(t1, t2):
    """does unifying t1 with the clause-head term t2 ever compare a string segment of the head
    (a cons cell of t2 whose head is a one-char atom; compiled to get_partial_string) with a
    compound term whose functor is not '.'/2?  Walks all argument pairs with a union-find and
    does not stop at clashes.  Used only to give finding C10-1 its narrow signature."""
    parent, node = {}, {}

    def mk(t, origin):
        if t[0] == 'v':
            key = ('v', t[1])
            if key not in node:
                node[key] = (t, [], None)
                parent[key] = key
            return key
        kids = [mk(a, origin) for a in t[2]] if t[0] == 's' else []
        key = ('n', len(node))
        node[key] = (t, kids, origin)
        parent[key] = key
        return key

    def find(k):
        while parent[k] != k:
            parent[k] = parent[parent[k]]
            k = parent[k]
        return k

    def is_head_string(k):
        t, _, origin = node[k]
        return origin == 2 and t[0] == 's' and t[1] == '.' and len(t[2]) == 2 and is_char(t[2][0])

    def is_other_compound(k):
        t = node[k][0]
        return t[0] == 's' and not (t[1] == '.' and len(t[2]) == 2)

    st = [(mk(t1, 1), mk(t2, 2))]
    while st:
        a, b = st.pop()
        a, b = find(a), find(b)
        if a == b:
            continue
        ta, ka, _ = node[a]
        tb, kb, _ = node[b]
        if ta[0] == 'v':
            parent[a] = b
        elif tb[0] == 'v':
            parent[b] = a
        else:
            if (is_head_string(a) and is_other_compound(b)) or (is_head_string(b) and is_other_compound(a)):
                return True
            if ta[0] == 's' and tb[0] == 's' and ta[1] == tb[1] and len(ka) == len(kb):
                parent[a] = b
                st.extend(zip(ka, kb))
    return False


def head_write_mode_possible(t1, t2):
    """can unifying t1 with the clause-head term t2 ever bind a variable to a compound sub-term
    of the head (the compiled head then BUILDS that sub-term: get_structure / get_list /
    get_partial_string switch to write mode)?  Union-find walk over all argument pairs that does
    not stop at clashes and does not depend on the outcome observed on the implementation.  Used
    only to give finding C10-2 its narrow signature."""
    parent, node = {}, {}

    def mk(t, origin):
        if t[0] == 'v':
            key = ('v', t[1])
            if key not in node:
                node[key] = (t, [], None)
                parent[key] = key
            return key
        kids = [mk(a, origin) for a in t[2]] if t[0] == 's' else []
        key = ('n', len(node))
        node[key] = (t, kids, origin)
        parent[key] = key
        return key

    def find(k):
        while parent[k] != k:
            parent[k] = parent[parent[k]]
            k = parent[k]
        return k

    st = [(mk(t1, 1), mk(t2, 2))]
    while st:
        a, b = st.pop()
        a, b = find(a), find(b)
        if a == b:
            continue
        ta, ka, oa = node[a]
        tb, kb, ob = node[b]
        if ta[0] == 'v' or tb[0] == 'v':
            if ta[0] != 'v':
                a, b, ta, tb, oa, ob = b, a, tb, ta, ob, oa
            if tb[0] == 's' and ob == 2:
                return True
            parent[a] = b
        elif ta[0] == 's' and tb[0] == 's' and ta[1] == tb[1] and len(ka) == len(kb):
            # keep the head node as representative, so that a variable that meets this class later
            # is seen to meet a head compound
            if oa == 2 and ob != 2:
                a, b, ka, kb = b, a, kb, ka
            parent[a] = b
            st.extend(zip(ka, kb))
    return False


# ------------------------------------------------------------------ generators

VARS = ["V0", "V1", "V2", "V3", "V4", "V5"]
BYS = ["W0", "W1"]
ATOMS = ["a", "b", "c", "[]", "x", "{}", "f", "hello world", "A", "don't"]
FUNCTORS = [("f", 1), ("f", 2), ("f", 3), ("g", 1), ("g", 2), ("h", 2), ("-", 2), ("p", 4)]
SMALL = [0, 1, -1, 2, 7, 255]
EDGE = [2 ** 55, 2 ** 55 - 1, -(2 ** 55), -(2 ** 55) - 1, 2 ** 56, 2 ** 56 - 1, -(2 ** 56), 2 ** 62, 2 ** 63,
        2 ** 63 - 1, -(2 ** 63), 2 ** 64, 2 ** 64 + 1, 2 ** 70, -(2 ** 70), 10 ** 30, 2 ** 128 + 3]
FLOATS = [0.0, 1.0, -1.0, 1.5, 2.0, 0.1, -2.25, 255.0, 72057594037927936.0, 3.0e10]
RATS = [(1, 3), (2, 3), (-1, 3), (1, 2), (7, 2), (2 ** 70 + 1, 2), (-5, 2 ** 64), (1, 2 ** 70)]


def rt_int_expr(n):
    """a run-time expression (through big-integer arithmetic) whose value is n."""
    if n >= 0:
        return "2^80 - (2^80 - %d)" % n
    return "(2^80 - %d) - 2^80" % -n


def gen_number(rng):
    r = rng.random()
    if r < 0.35:
        n = rng.choice(SMALL)
        return ('ri', n, rt_int_expr(n)) if rng.random() < 0.2 else ('i', n)
    if r < 0.65:
        n = rng.choice(EDGE)
        return ('ri', n, rt_int_expr(n)) if rng.random() < 0.4 else ('i', n)
    if r < 0.85:
        return ('f', rng.choice(FLOATS))
    q = rng.choice(RATS)
    return ('q', q[0], q[1])


def gen_var(rng, nv):
    return ('v', rng.choice(VARS[:nv]))


def gen_listy(rng, depth, nv, numw):
    """strings, partial strings, lists, partial lists."""
    r = rng.random()
    n = rng.choice([0, 1, 1, 2, 2, 3, 4])
    chars = "".join(rng.choice("abcab c") for _ in range(n))
    tailr = rng.random()
    tail = None
    if tailr < 0.35:
        tail = gen_var(rng, nv)
    elif tailr < 0.5:
        tail = gen_listy(rng, depth - 1, nv, numw) if depth > 0 else None
    elif tailr < 0.55:
        tail = ('a', rng.choice(["a", "[]", "x"]))
    if r < 0.4 and n > 0:
        return ('str', chars, tail)
    if r < 0.7:
        return ('lst', [('a', c) for c in chars], tail) if n > 0 else (tail or nil())
    elems = [gen_term(rng, depth - 1, nv, numw) for _ in range(n)]
    return ('lst', elems, tail) if n > 0 else (tail or nil())


def gen_term(rng, depth, nv, numw=0.15, listw=0.15):
    r = rng.random()
    if depth <= 0 or r < 0.25:
        r2 = rng.random()
        if r2 < 0.55:
            return gen_var(rng, nv)
        if r2 < 0.55 + numw:
            return gen_number(rng)
        return ('a', rng.choice(ATOMS))
    if r < 0.25 + listw:
        return gen_listy(rng, depth, nv, numw)
    f, n = rng.choice(FUNCTORS)
    return ('s', f, [gen_term(rng, depth - 1, nv, numw, listw) for _ in range(n)])


def respell(rng, t):
    """another spelling of the same list/string (string <-> char list <-> mixed)."""
    if t[0] == 'str' and rng.random() < 0.7:
        k = rng.randrange(0, len(t[1]) + 1)
        head, rest = t[1][:k], t[1][k:]
        tail = ('str', rest, t[2]) if rest else t[2]
        if not head:
            return tail if tail is not None else nil()
        return ('lst', [('a', c) for c in head], tail)
    if t[0] == 'lst' and all(e[0] == 'a' and len(e[1]) == 1 for e in t[1]) and rng.random() < 0.7:
        k = rng.randrange(1, len(t[1]) + 1)
        s = "".join(e[1] for e in t[1][:k])
        rest = t[1][k:]
        tail = ('lst', rest, t[2]) if rest else t[2]
        return ('str', s, tail)
    return t


def mutate(rng, t, nv, p):
    """derive a partner term: mostly unifiable with t, sometimes clashing or cyclic."""
    r = rng.random()
    if r < p * 0.5:
        return gen_var(rng, nv)
    if r < p * 0.6:
        return gen_term(rng, 1, nv)
    k = t[0]
    if k == 'v':
        r2 = rng.random()
        if r2 < 0.3:
            return gen_term(rng, 2, nv)
        if r2 < 0.5:
            return gen_var(rng, nv)
        return t
    if k == 's':
        r2 = rng.random()
        if r2 < 0.02:
            f, n = rng.choice(FUNCTORS)
            return ('s', f, [gen_term(rng, 1, nv) for _ in range(n)])
        if r2 < 0.04:
            # same arguments, other name of the same arity (or a list cell for arity 2)
            if len(t[2]) == 2 and rng.random() < 0.5:
                return ('lst', [t[2][0]], t[2][1]) if t[1] != '.' else ('s', '-', list(t[2]))
            return ('s', rng.choice(["f", "g", "h", "k"]), list(t[2]))
        if r2 < 0.06:
            # one argument more / one less
            if len(t[2]) > 1 and rng.random() < 0.5:
                return ('s', t[1], list(t[2][:-1]))
            return ('s', t[1], list(t[2]) + [gen_term(rng, 0, nv)])
        return ('s', t[1], [mutate(rng, a, nv, p) for a in t[2]])
    if k in ('str', 'lst'):
        t = respell(rng, t)
        if t[0] == 'str':
            s = t[1]
            if rng.random() < 0.08 and s:
                i = rng.randrange(len(s))
                s = s[:i] + rng.choice("abz") + s[i + 1:]
            tl = t[2]
            if tl is not None:
                tl = mutate(rng, tl, nv, p)
            elif rng.random() < 0.1:
                tl = gen_var(rng, nv)
            return ('str', s, tl) if s else (tl or nil())
        if t[0] == 'lst':
            if rng.random() < 0.04:
                # a list cell against a binary compound with the same arguments
                rest = ('lst', t[1][1:], t[2]) if len(t[1]) > 1 else (t[2] if t[2] is not None else nil())
                return ('s', rng.choice(["-", "f", "h"]), [t[1][0], rest])
            tl = t[2]
            if tl is not None:
                tl = mutate(rng, tl, nv, p)
            elif rng.random() < 0.1:
                tl = gen_var(rng, nv)
            return ('lst', [mutate(rng, e, nv, p) for e in t[1]], tl)
        return t
    if k in ('i', 'ri'):
        r2 = rng.random()
        if r2 < 0.5:
            return ('ri', t[1], rt_int_expr(t[1])) if rng.random() < 0.5 else ('i', t[1])
        if r2 < 0.6:
            return ('i', t[1] + rng.choice([1, -1]))
        if r2 < 0.7 and abs(t[1]) < 2 ** 53:
            return ('f', float(t[1]))
        return t
    if k == 'f':
        r2 = rng.random()
        if r2 < 0.15 and t[1] == int(t[1]):
            return ('i', int(t[1]))
        if r2 < 0.25:
            return ('f', rng.choice(FLOATS))
        return t
    if k == 'q':
        r2 = rng.random()
        if r2 < 0.15:
            return ('q', -t[1], t[2])
        if r2 < 0.25:
            return ('i', t[1])
        return t
    if k == 'a':
        if rng.random() < 0.08:
            return ('a', rng.choice(ATOMS))
        return t
    return t


def gen_tailshare(rng, nv):
    """pairs for compiled head unification in WRITE mode: t2 (the clause head) has a compound S
    -- a partial string / partial list whose tail is the variable V, a list with V as an element,
    a structure with V as an argument -- at a place where t1 has a variable W; W is V itself or
    aliased to V (cyclic binding: the occurs check has to fail while S is being written), sometimes
    another variable (finite unifier: near miss)."""
    V = gen_var(rng, nv)
    n = rng.choice([1, 1, 2, 3])
    r = rng.random()
    if r < 0.3:
        S = ('str', "".join(rng.choice("abc") for _ in range(n)), V)
    elif r < 0.55:
        S = ('lst', [gen_term(rng, 1, nv) for _ in range(n)], V)
    elif r < 0.7:
        el = [gen_term(rng, 1, nv) for _ in range(n)]
        el.insert(rng.randrange(len(el) + 1), V if rng.random() < 0.6 else ('s', 'g', [V]))
        S = ('lst', el, rng.choice([None, None, V, gen_var(rng, nv)]))
    else:
        f, k = rng.choice(FUNCTORS)
        a = [gen_term(rng, 1, nv) for _ in range(k)]
        a[rng.randrange(k)] = V if rng.random() < 0.6 else rng.choice(
            [('s', 'g', [V]), ('lst', [('a', 'a')], V), ('str', "ab", V)])
        S = ('s', f, a)
    r2 = rng.random()
    W = V if r2 < 0.8 else gen_var(rng, nv)
    A = gen_var(rng, nv)
    shape = rng.randrange(7)
    if shape == 0:
        t1, t2 = W, S
    elif shape == 1:
        f, k = rng.choice(FUNCTORS)
        a = [gen_term(rng, 1, nv) for _ in range(k)]
        b = [mutate(rng, x, nv, 0.1) for x in a]
        i = rng.randrange(k)
        a[i], b[i] = W, S
        t1, t2 = ('s', f, a), ('s', f, b)
    elif shape == 2:
        # alias first, then the write: f(A, A) against head f(V, S)
        t1, t2 = ('s', 'f', [A, A]), ('s', 'f', [V, S])
    elif shape == 3:
        # write first (no cycle yet), then the alias in read mode: f(A, A) against head f(S, V)
        t1, t2 = ('s', 'f', [A, A]), ('s', 'f', [S, V])
    elif shape == 4:
        t1, t2 = ('s', 'f', [('s', 'g', [W])]), ('s', 'f', [('s', 'g', [S])])
    elif shape == 5:
        t1, t2 = ('lst', [W], None), ('lst', [S], None)
    else:
        # two steps: W is bound to a head structure that holds A, A is then bound to S
        t1, t2 = ('s', 'f', [W, A]), ('s', 'f', [('s', 'g', [A]), rng.choice([S, ('s', 'h', [W, V])])])
    if rng.random() < 0.15:
        t1, t2 = t2, t1
    return t1, t2


def gen_pair(rng):
    """returns (t1, t2, shares, family)"""
    r = rng.random()
    shares = {}
    nv = rng.choice([1, 2, 2, 3, 3, 4, 6])
    if r < 0.08:
        return gen_term(rng, 3, nv), gen_term(rng, 3, nv), shares, "independent"
    if r < 0.16:
        # argument permutations / chains of variables
        n = rng.choice([2, 3, 4])
        f = "p" if n == 4 else "f" if n == 3 else "g"
        a = [gen_var(rng, nv) if rng.random() < 0.8 else gen_term(rng, 1, nv) for _ in range(n)]
        b = [gen_var(rng, nv) if rng.random() < 0.8 else gen_term(rng, 1, nv) for _ in range(n)]
        return ('s', f, a), ('s', f, b), shares, "varchains"
    if r < 0.30:
        t1 = gen_listy(rng, 2, nv, 0.15)
        t2 = mutate(rng, t1, nv, rng.choice([0.05, 0.15]))
        if rng.random() < 0.5:
            t1, t2 = t2, t1
        return t1, t2, shares, "strings"
    if r < 0.42:
        t1 = gen_term(rng, 2, nv, numw=0.7, listw=0.05)
        t2 = mutate(rng, t1, nv, 0.08)
        if rng.random() < 0.5:
            t1, t2 = t2, t1
        return t1, t2, shares, "numbers"
    if r < 0.54:
        # shared sub-structures (DAGs): the same compound cell reached several times
        ns = rng.choice([1, 2])
        for k in range(ns):
            f, n = rng.choice(FUNCTORS[:6])
            shares[k] = ('s', f, [gen_term(rng, 1, nv) for _ in range(n)])

        def with_sh(depth):
            if depth <= 0 or rng.random() < 0.45:
                return ('sh', rng.randrange(ns)) if rng.random() < 0.7 else gen_term(rng, 1, nv)
            f, n = rng.choice(FUNCTORS)
            return ('s', f, [with_sh(depth - 1) for _ in range(n)])
        t1 = with_sh(2)
        if rng.random() < 0.5:
            t2 = with_sh(2)
            if t1[0] == 's' and t2[0] == 's' and rng.random() < 0.7:
                t2 = ('s', t1[1], [with_sh(1) for _ in t1[2]])
        else:
            t2 = mutate(rng, expand_shares(t1, shares), nv, 0.15)
        return t1, t2, shares, "shared"
    if r < 0.58:
        # long lists / deep nesting (PDL depth)
        n = rng.choice([20, 60, 150])
        if rng.random() < 0.5:
            el = [gen_term(rng, 1, nv) for _ in range(n)]
            t1 = ('lst', el, rng.choice([None, gen_var(rng, nv)]))
            t2 = ('lst', [mutate(rng, e, nv, 0.03) for e in el], rng.choice([None, gen_var(rng, nv)]))
        else:
            t1 = gen_var(rng, nv)
            t2 = gen_term(rng, 0, nv)
            for _ in range(n):
                t1 = ('s', 'g', [t1])
                t2 = ('s', 'g', [t2])
        return t1, t2, shares, "long"
    if r < 0.66:
        t1, t2 = gen_tailshare(rng, nv)
        return t1, t2, shares, "tailshare"
    depth = rng.choice([1, 2, 2, 3, 3, 4])
    t1 = gen_term(rng, depth, nv)
    t2 = mutate(rng, t1, nv, rng.choice([0.1, 0.2, 0.35, 0.5]))
    if rng.random() < 0.3:
        # both sides derived from a common ancestor: bindings in both directions
        t1 = mutate(rng, t1, nv, rng.choice([0.1, 0.2, 0.35]))
    if rng.random() < 0.5:
        t1, t2 = t2, t1
    return t1, t2, shares, "derived"


def expand_shares(t, shares):
    k = t[0]
    if k == 'sh':
        return expand_shares(shares[t[1]], shares)
    if k == 's':
        return ('s', t[1], [expand_shares(a, shares) for a in t[2]])
    if k in ('str', 'lst'):
        tl = None if t[2] is None else expand_shares(t[2], shares)
        if k == 'str':
            return ('str', t[1], tl)
        return ('lst', [expand_shares(e, shares) for e in t[1]], tl)
    return t


# ------------------------------------------------------------------ cases

CONFIGS = [("eq", "false"), ("eq", "true"), ("eq", "error"), ("uwoc", "false"),
           ("neq", "false"), ("neq", "true"), ("neq", "error")]
HEAD_CONFIGS = [("head", "false"), ("head", "true"), ("head", "error")]
GOALS = {"eq": "T1 = T2", "uwoc": "unify_with_occurs_check(T1, T2)", "neq": "T1 \\= T2"}


def config_text(k, pred, flag, show, goal=None):
    """one configuration: set the flag, run the goal inside findall (bindings are undone
    afterwards, the answer is a copy), catch errors."""
    return ("set_prolog_flag(occurs_check, %s), "
            "catch(findall(Res, (%s -> (T1 == T2 -> E = same ; E = differ), Res = y(E, %s) ; Res = n(R)), L%d), "
            "error(Err%d, _), L%d = err(Err%d)), " % (flag, goal or GOALS[pred], "R" if show else "hidden", k, k, k, k))


def has_rat(t):
    return t[0] == 'q' or (t[0] == 's' and any(has_rat(a) for a in t[2]))


def plain_pl(t):
    """plain tree -> Prolog text usable inside a clause head (no prelude goals)."""
    k = t[0]
    if k == 'v':
        return t[1]
    if k == 'i':
        return str(t[1])
    if k == 'f':
        return repr(struct.unpack(">d", struct.pack(">Q", t[1]))[0])
    if k == 'a':
        return "[]" if t[1] == '[]' else q_atom(t[1])
    if k == 's':
        if t[1] == '.' and len(t[2]) == 2:
            return "[%s|%s]" % (plain_pl(t[2][0]), plain_pl(t[2][1]))
        return "%s(%s)" % (q_atom(t[1]), ",".join(plain_pl(a) for a in t[2]))
    raise ValueError(t)


def static_end(t, shares):
    """the syntactic end of a list-like abstract term."""
    while True:
        if t is None:
            return nil()
        if t[0] in ('str', 'lst'):
            t = t[2]
        elif t[0] == 'sd':
            t = t[2]
        elif t[0] == 'sh':
            t = shares[t[1]]
        elif t[0] == 's' and t[1] == '.' and len(t[2]) == 2:
            t = t[2][1]
        else:
            return t


def subst_tree(t, m):
    if t[0] == 'v':
        return m.get(t[1], t)
    if t[0] == 's':
        return ('s', t[1], [subst_tree(a, m) for a in t[2]])
    return t


def list_end(t):
    while t[0] == 's' and t[1] == '.' and len(t[2]) == 2:
        t = t[2][1]
    return t


def is_char(t):
    return t[0] == 'a' and len(t[1]) == 1


def has_char_atom_tail(t):
    """a cons cell whose head is a one-char atom and whose tail is an atom other than []:
    the pinned version's library answer conversion panics on such terms when they are stored
    as partial strings (not a unification matter), so they are never printed."""
    st = [t]
    while st:
        x = st.pop()
        if x[0] == 's':
            if x[1] == '.' and len(x[2]) == 2 and is_char(x[2][0]) and x[2][1][0] == 'a' and x[2][1][1] != '[]':
                return True
            st.extend(x[2])
    return False


def unprintable(mv):
    return mv.startswith("ok ") and has_char_atom_tail(parse_canon(mv.split(" ", 2)[2]))


def sanitize(t, shares):
    """inputs never contain a char list ending in a non-[] atom (see has_char_atom_tail):
    such an end is replaced by the integer 0."""
    k = t[0]
    if k == 'sd':
        return ('sd', sanitize(t[1], shares), sanitize(t[2], shares))
    if k == 's':
        a = [sanitize(x, shares) for x in t[2]]
        if t[1] == '.' and len(a) == 2 and is_char(a[0]) and a[1][0] == 'a' and a[1][1] != '[]':
            a[1] = ('i', 0)
        return ('s', t[1], a)
    if k in ('str', 'lst'):
        tl = None if t[2] is None else sanitize(t[2], shares)
        if k == 'str':
            last_char = len(t[1]) > 0
            el = t[1]
        else:
            el = [sanitize(e, shares) for e in t[1]]
            last_char = len(el) > 0 and is_char(el[-1])
        if tl is not None and last_char:
            e = static_end(tl, shares) if tl[0] in ('str', 'lst', 'sh') else tl
            if tl[0] == 'a' and tl[1] != '[]':
                tl = ('i', 0)
            elif tl[0] == 'sh' and e[0] == 'a' and e[1] != '[]':
                tl = ('i', 0)
        if tl is not None and not el:
            return tl
        return (k, el, tl)
    return t


def contains_sd(t):
    if t[0] == 'sd':
        return True
    if t[0] == 's':
        return any(contains_sd(a) for a in t[2])
    if t[0] == 'lst':
        return any(contains_sd(e) for e in t[1]) or (t[2] is not None and contains_sd(t[2]))
    if t[0] == 'str':
        return t[2] is not None and contains_sd(t[2])
    return False


def strdot_meets(a, b):
    """which run-time representations of a list does a '.'/2 STRUCTURE cell (node 'sd') of one
    term meet at the same position of the other term: "lis" (list cell), "pstr" (partial string: the
    reader packs runs of one-char atoms), "strdot".  Syntactic walk (variables are not followed)."""
    out = set()

    def kind(t):
        if t[0] == 'str':
            return "pstr"
        if t[0] == 'lst':
            return "pstr" if t[1] and is_char(t[1][0]) else "lis"
        if t[0] == 'sd':
            return "strdot"
        return None

    def parts(t):
        """(head, tail) of a list-like node"""
        if t[0] == 'sd':
            return t[1], t[2]
        if t[0] == 'str':
            rest = ('str', t[1][1:], t[2]) if len(t[1]) > 1 else (t[2] if t[2] is not None else nil())
            return ('a', t[1][0]), rest
        rest = ('lst', t[1][1:], t[2]) if len(t[1]) > 1 else (t[2] if t[2] is not None else nil())
        return t[1][0], rest

    def walk(x, y):
        kx, ky = kind(x), kind(y)
        if kx and ky:
            if kx == "strdot":
                out.add(ky)
            if ky == "strdot":
                out.add(kx)
            (hx, tx), (hy, ty) = parts(x), parts(y)
            walk(hx, hy)
            walk(tx, ty)
        elif x[0] == 's' and y[0] == 's' and x[1] == y[1] and len(x[2]) == len(y[2]):
            for p, q in zip(x[2], y[2]):
                walk(p, q)
    walk(a, b)
    return out


def make_case(cid, t1, t2, shares, family, hide, head=False, hshape="list"):
    """hshape: how the clause of the head configurations receives the variables: "list" --
    c10h([V0,..,V5,_,_], t2), "struct" -- c10h(v(V0,..,V5,_,_), t2), "args" --
    c10h(V0,..,V5,_,_, t2).  The compiler emits the head's sub-terms level by level, so with "list"
    the nested cells of the variable list are interleaved with (and, for shallow t2, come after)
    the instructions of t2, ending in a read-mode unify_constant([]); with "struct" and "args" the
    instructions of t2 are the last ones before proceed.  With "struct"/"list" a variable of t2 is
    first seen inside a structure (unify_variable, later unify_value); with "args" it is first seen
    as a bare argument (get_variable, later unify_local_value inside t2)."""
    rd = Render(shares)
    p1, p2 = rd.pl(t1), rd.pl(t2)
    allv = VARS + BYS
    extra = "[" + ",".join(allv) + "]"
    pre = "".join(g + ", " for g in rd.prelude)
    e1, e2 = expand(t1, shares), expand(t2, shares)
    ex = nil()
    for v in reversed(allv):
        ex = cons(('v', v), ex)
    head = head and not has_rat(e2)
    configs = CONFIGS + (HEAD_CONFIGS if head else [])
    hgoal = {"struct": "c10h_%s(v(%s), T1)", "args": "c10h_%s(%s, T1)", "list": "c10h_%s([%s], T1)"}[hshape] % (
        cid, ",".join(allv))
    body = "".join(config_text(k, pred, flag,
                               not (hide and flag == "false" and pred in ("eq", "head")) and not (hide == "all" and pred != "neq"),
                               hgoal if pred == "head" else None)
                   for k, (pred, flag) in enumerate(configs))
    q = ("%sT1 = %s, T2 = %s, R = r(T1, T2, %s), %sset_prolog_flag(occurs_check, false), "
         "current_prolog_flag(occurs_check, F)." % (pre, p1, p2, extra, body))
    impl = ["Q\t%s_use\t1\tuse_module(library(iso_ext))." % cid]
    if head:
        # compiled head unification: the clause head carries t2 and the variable list, so that the
        # clause's variables are identified with the query's before t2 meets T1
        impl.append({"struct": "L\t%s_ld\tuser\tc10h_%s(v(%s,_,_), %s).",
                     "args": "L\t%s_ld\tuser\tc10h_%s(%s,_,_, %s).",
                     "list": "L\t%s_ld\tuser\tc10h_%s([%s,_,_], %s)."}[hshape] % (cid, cid, ",".join(VARS), plain_pl(e2)))
    impl.append("Q\t%s\t2\t%s" % (cid, q))
    sd = contains_sd(t1) or contains_sd(t2)
    if sd:
        # `(H '.' T)` needs the infix operator; it is removed again after the case
        impl.insert(1, "Q\t%s_op\t1\top(200, xfy, '.')." % cid)
        impl.append("Q\t%s_op0\t1\top(0, xfy, '.')." % cid)
    model = ["unify\t%s\t%s\t%s\t%s" % (cid, canon(e1), canon(e2), canon(ex))]
    return {"id": cid, "family": family, "t1": canon(e1), "t2": canon(e2), "extra": canon(ex),
            "prolog": "%sT1 = %s, T2 = %s" % (pre, p1, p2), "hide": hide, "hshape": hshape if head else None,
            "strdot": "+".join(sorted(strdot_meets(t1, t2))) if sd else None,
            "configs": [list(x) for x in configs], "impl": impl, "model": model}


def parse_bindings(res):
    """'{A=term,B=term}' -> dict name -> tree"""
    p = P(res)
    assert p.peek() == "{"
    p.i += 1
    out = {}
    if p.peek() == "}":
        return out
    while True:
        m = re.compile(r"[A-Za-z_][A-Za-z0-9_]*").match(p.s, p.i)
        name = m.group(0)
        p.i = m.end()
        assert p.s[p.i] == "="
        p.i += 1
        out[name] = p.term()
        c = p.s[p.i]
        p.i += 1
        if c == "}":
            assert p.i == len(p.s)
            return out
        assert c == ","


def parse_impl(res, nconf):
    """-> list over CONFIGS of ('y'|'n', E, term) | ('err', term) | ('bad', text); or a single
    ('bad', text) when the whole answer is unusable."""
    if res is None:
        return ('bad', 'missing')
    parts = res.split(" ;; ")
    if len(parts) > 2 or (len(parts) == 2 and parts[1] != "false") or not parts[0].startswith("{"):
        return ('bad', res[:300])
    try:
        b = parse_bindings(parts[0])
    except Exception:  # noqa
        return ('bad', "unparsable answer %s" % res[:300])
    if b.get("F") != ('a', 'false'):
        return ('bad', "occurs_check flag not restored: %s" % (b.get("F"),))
    out = []
    for k in range(nconf):
        t = b.get("L%d" % k)
        r = ('bad', "no usable result for configuration %d: %s" % (k, t))
        if t is None:
            pass
        elif t == nil():
            # findall found NO solution of ( Goal -> ..., Res = y(..) ; Res = n(R) ): neither branch
            # of an if-then-else whose else branch cannot fail
            r = ('nosol', None)
        elif t[0] == 's' and t[1] == 'err' and len(t[2]) == 1:
            r = ('err', t[2][0])
        elif t[0] == 's' and t[1] == '.' and t[2][1] == nil():
            x = t[2][0]
            if x[0] == 's' and x[1] == 'y' and len(x[2]) == 2 and x[2][0][0] == 'a':
                r = ('y', x[2][0][1], x[2][1])
            elif x[0] == 's' and x[1] == 'n' and len(x[2]) == 1:
                r = ('n', None, x[2][0])
        out.append(r)
    return out


REP_ERR = ('s', 'representation_error', [('a', 'term')])
HIDDEN = ('a', 'hidden')


def shape_key(c):
    """small structural signature of a case (functor skeleton up to depth 2, constants abstracted)."""
    def sk(t, d):
        if t[0] == 's':
            if d == 0:
                return "%s/%d" % (t[1], len(t[2]))
            return "%s(%s)" % (t[1], ",".join(sk(a, d - 1) for a in t[2]))
        return {'v': 'V', 'i': 'int', 'q': 'rat', 'f': 'flt', 'a': 'atm'}[t[0]]
    return (sk(parse_canon(c["t1"]), 2) + " = " + sk(parse_canon(c["t2"]), 2))[:160]


def judge(c, impl, model):
    """returns (list of (kind, sig, detail), model outcome)."""
    out = []
    cid = c["id"]
    mv = model.get(cid, "missing")
    orig = ('s', 'r', [parse_canon(c["t1"]), parse_canon(c["t2"]), parse_canon(c["extra"])])
    if mv.startswith("ok "):
        mo = "ok"
        mterm = parse_canon(mv.split(" ", 2)[2])
    elif mv in ("clash", "cyclic"):
        mo, mterm = mv, None
    else:
        return [("disagreement", {"family": "unify", "what": "model-output", "model": mv[:80]},
                 "model driver gave no usable result: %s" % mv[:200])], "model-bad"
    rt = None
    if mo == "cyclic":
        rt = rt_unifiable(orig[2][0], orig[2][1])
    configs = [tuple(x) for x in c.get("configs", CONFIGS)]
    results = parse_impl(impl.get(cid), len(configs))
    if isinstance(results, tuple):
        sig = {"family": "unify", "pred": "all", "flag": "all", "model": mo, "problem": "answer",
               "t1": c["t1"][:120], "t2": c["t2"][:120], "shape": shape_key(c)}
        return [("violation", sig, "unexpected answer for the whole case: %s" % results[1])], mo
    for (pred, flag), res in zip(configs, results):
        oc = (pred == "uwoc") or flag in ("true", "error")
        if mo == "ok":
            exp = "unify"
        elif mo == "clash":
            exp = "fail"
        elif not oc:
            exp = "unify-rt" if rt else "fail"
        elif pred != "uwoc" and flag == "error":
            exp = "error"
        else:
            exp = "fail"
        if pred == "head" and flag == "error" and mo != "ok":
            # compiled head unification visits the argument pairs in another order (nested
            # arguments last), so "cyclic binding first" / "clash first" may swap
            exp = "error-or-fail"
        prob = None
        if res[0] == 'nosol':
            prob = ("no-solution", "the goal ( G -> Res = y(..) ; Res = n(R) ) had no solution at all although its "
                                   "else branch cannot fail: G (expected outcome: %s) succeeded and left a failure "
                                   "pending that fired after the commit" % exp)
        elif exp == "error-or-fail":
            if not ((res[0] == 'err' and res[1] == REP_ERR) or (res[0] == 'n' and variant(res[2], orig))):
                prob = ("success", "expected failure or representation_error(term), got %s" % (res[:2],))
        elif res[0] == 'bad':
            prob = ("answer", "unexpected answer %s" % (res[1],))
        elif res[0] == 'err':
            if exp != "error":
                prob = ("error", "unexpected error %s, expected %s" % (res[1], exp))
            elif res[1] != REP_ERR:
                prob = ("wrong-error", "expected representation_error(term), got %s" % (res[1],))
        elif exp == "error":
            prob = ("no-error", "expected representation_error(term) (cyclic binding, flag error), got %s" % res[0])
        elif pred == "neq":
            want = 'n' if exp in ("unify", "unify-rt") else 'y'
            if res[0] != want:
                prob = ("success", "\\= %s but the terms are %s" % (
                    "succeeded" if res[0] == 'y' else "failed", "unifiable" if want == 'n' else "not unifiable"))
            elif not variant(res[2], orig):
                prob = ("binding", "\\= left bindings behind: %s" % (res[2],))
        else:
            want = 'y' if exp in ("unify", "unify-rt") else 'n'
            if res[0] != want:
                prob = ("success", "unification %s but model says %s%s" % (
                    "succeeded" if res[0] == 'y' else "failed", mo,
                    "" if rt is None else " (rational-tree reference: %s)" % rt))
            elif res[0] == 'y':
                if res[1] != "same":
                    prob = ("not-identical", "T1 == T2 does not hold after successful unification")
                elif exp == "unify" and res[2] != HIDDEN and not variant(res[2], mterm):
                    prob = ("binding", "bindings differ from the most general unifier: impl %s" % (res[2],))
            elif res[0] == 'n' and not variant(res[2], orig):
                prob = ("binding", "failed unification left bindings behind")
        if prob:
            if pred == "head" and prob[0] in ("success", "not-identical", "binding") and \
                    head_string_meets_compound(orig[2][0], orig[2][1]):
                # finding C10-1: get_partial_string accepts any compound as a list cell
                sig = {"family": "unify", "pred": "head", "defect": "head-string-meets-compound"}
            elif c.get("strdot") and pred != "head" and prob[0] in ("success", "not-identical", "binding"):
                # findings C10-3 / C10-4: unify_structure with a '.'/2 structure cell on its left
                sig = {"family": "unify", "pred": "run-time", "defect": "strdot-cell-vs-" + c["strdot"]}
            elif pred == "head" and flag in ("true", "error") and mo == "cyclic" and \
                    prob[0] in ("no-solution", "success", "not-identical", "binding") and \
                    head_write_mode_possible(orig[2][0], orig[2][1]):
                # finding C10-2: unify_value / unify_local_value in write mode ignore a failed occurs check
                sig = {"family": "unify", "pred": "head", "defect": "head-write-mode-occurs-check-ignored"}
            else:
                sig = {"family": "unify", "pred": pred, "flag": flag, "model": mo, "problem": prob[0],
                       "t1": c["t1"][:120], "t2": c["t2"][:120], "shape": shape_key(c)}
            out.append(("violation", sig, "configuration %s/%s: %s" % (pred, flag, prob[1])))
    return out, mo


def directed_cases():
    """fixed boundary pairs (always run)."""
    V = lambda n: ('v', n)
    f = lambda *a: ('s', 'f', list(a))
    g = lambda *a: ('s', 'g', list(a))
    A, B, C = V("V0"), V("V1"), V("V2")
    big = 2 ** 70
    L = [
        (A, A), (A, B), (A, ('a', 'a')), (('a', 'a'), A), (('a', 'a'), ('a', 'b')),
        (A, f(A)), (f(A), A), (f(A, B), f(B, A)), (f(A, B, C), f(B, C, A)),
        (f(A, B), f(g(B), g(A))), (f(A, B), f(B, g(A))), (f(A, ('a', 'a')), f(g(A), ('a', 'b'))),
        (f(('a', 'a'), A), f(('a', 'b'), g(A))),
        (f(A, B, A), f(g(B), g(A), g(g(g(A))))), (f(A, B, A), f(g(B), g(A), ('s', 'h', [A, A]))),
        (('i', 1), ('f', 1.0)), (('f', 1.0), ('i', 1)), (('i', big), ('ri', big, "2^70")),
        (('ri', 5, rt_int_expr(5)), ('i', 5)), (('i', 5), ('ri', 5, rt_int_expr(5))),
        (('i', 2 ** 55), ('ri', 2 ** 55, rt_int_expr(2 ** 55))), (('i', big), ('i', big + 1)),
        (('i', big), ('f', float(big))), (('q', 1, 3), ('q', 1, 3)), (('q', 1, 3), ('q', 2, 3)),
        (('q', 1, 3), ('i', 1)), (('q', 1, 3), ('f', 1.0)), (('i', 1), ('q', 1, 3)), (('f', 1.0), ('q', 1, 3)),
        (('i', big), ('q', big, 3)), (('q', big, 3), ('i', big)), (('q', 1, 3), ('a', 'a')), (('a', 'a'), ('i', 1)),
        (('lst', [A], B), ('s', '-', [A, B])), (('s', '-', [A, B]), ('lst', [A], B)),
        (('lst', [('a', 'a')], B), f(A, B)), (f(A, B), ('lst', [('a', 'a')], B)),
        (('str', "ab", None), f(A, B)), (f(A, B), ('str', "ab", None)), (f(A, B), f(A, B, C)), (f(A, B, C), f(A, B)), (('f', 0.1), ('f', 0.1)), (('f', 1.5), ('f', 2.0)),
        (('str', "abc", None), ('lst', [('a', 'a'), ('a', 'b'), ('a', 'c')], None)),
        (('str', "abc", None), ('lst', [('a', 'a')], A)), (('str', "abc", A), ('str', "ab", B)),
        (('str', "abc", A), ('str', "abd", B)), (('str', "ab", A), ('str', "abc", A)),
        (('str', "ab", A), ('lst', [('a', 'a'), ('a', 'b'), ('a', 'c')], A)),
        (('str', "a", None), ('a', 'a')), (('str', "a", None), ('lst', [A], None)),
        (('str', "abc", None), ('lst', [A, B], C)), (('lst', [A, B], C), ('str', "abc", None)),
        (('str', "abc", None), ('str', "abc", None)), (('str', "abc", None), ('str', "abd", None)),
        (('str', "abc", None), nil()), (('str', "abc", A), A), (A, ('str', "abc", A)),
        (('str', "ab", A), ('lst', [('a', 'a'), ('a', 'b')], ('a', 'x'))),
        (('lst', [A], A), ('lst', [B], B)), (('lst', [A, B], None), ('lst', [B, A], None)),
        (f(A), g(A)), (f(A), f(A, A)), (f(A, A), f(B)), (('a', 'f'), f(A)), (('a', '[]'), ('lst', [A], None)),
        (('s', '.', [A, B]), ('lst', [('i', 1)], None)), (('lst', [('i', 1)], None), ('s', '.', [A, B])),
    ]
    L += strdot_pairs()
    L += [p[1:] for p in write_mode_pairs()]
    return [(a, b, {}, "directed") for a, b in L]


def strdot_pairs():
    """the list cell H.T as a '.'/2 STRUCTURE cell (node 'sd') against list cells, partial strings,
    other structure cells, in both argument orders and one level down (other arms of unify.rs)."""
    V = lambda n: ('v', n)
    A, B, C = V("V0"), V("V1"), V("V2")
    i1, i2, a = ('i', 1), ('i', 2), ('a', 'a')
    f = lambda x: ('s', 'f', [x])
    return [
        (('lst', [i1], None), ('sd', i1, nil())), (('sd', i1, nil()), ('lst', [i1], None)),
        (('lst', [i1, i2], None), ('sd', A, B)), (('sd', A, B), ('lst', [i1, i2], None)),
        (('str', "ab", None), ('sd', a, B)), (('sd', a, B), ('str', "ab", None)),
        (('str', "ab", C), ('sd', A, B)), (('sd', A, B), ('str', "ab", C)),
        (f(('lst', [i1], A)), f(('sd', B, C))), (f(('sd', B, C)), f(('lst', [i1], A))),
        (f(('str', "ab", A)), f(('sd', B, C))), (f(('sd', B, C)), f(('str', "ab", A))),
        (('sd', A, B), ('sd', i1, nil())), (('sd', A, B), ('s', '-', [A, B])), (('s', '-', [A, B]), ('sd', A, B)),
        (('sd', A, A), ('lst', [B], B)), (('lst', [i1], A), ('sd', i2, B)), (('sd', i2, B), ('lst', [i1], A)),
        (('sd', A, ('sd', B, nil())), ('lst', [i1, i2], None)), (('lst', [i1, i2], None), ('sd', A, ('sd', B, nil()))),
        (('sd', A, B), A), (A, ('sd', i1, A)),
    ]


def write_mode_pairs():
    """(name, t1, t2): the head t2 has a compound that is WRITTEN (t1 has a variable there) and that
    contains this variable again, directly or through an alias; plus near misses with a finite
    unifier.  Stored as corpus/C10/w_<name>.json and a_<name>.json (python3 -m vlib.props.C10 write-corpus) and run
    as directed pairs too."""
    V = lambda n: ('v', n)
    s = lambda f, *a: ('s', f, list(a))
    A, B, C = V("V0"), V("V1"), V("V2")
    a = ('a', 'a')
    return [
        ("list_tail", s('h', B), s('h', ('lst', [a], B))),                      # h3 of finding C10-2
        ("pstr_tail", s('h', B), s('h', ('str', "ab", B))),
        ("struct_arg", B, s('f', B)),
        ("struct_mid_arg", s('h', B), s('h', s('f', a, B, ('a', 'b')))),
        ("nested_arg", s('h', B), s('h', s('f', a, s('g', B), ('a', 'b')))),
        ("list_element", s('h', B), s('h', ('lst', [a, B], None))),
        ("alias_then_write", s('f', C, C), s('f', B, ('lst', [a], B))),
        ("write_then_alias", s('f', C, C), s('f', ('lst', [a], B), B)),
        ("pstr_alias", s('f', C, C), s('f', B, ('str', "abc", B))),
        ("two_steps", s('f', A, B), s('f', s('g', B), ('lst', [a], A))),
        ("list_cell", ('lst', [B], B), ('lst', [('lst', [a], B)], B)),
        ("near_miss_list", s('h', B), s('h', ('lst', [a], C))),
        ("near_miss_pstr", s('f', C, A), s('f', B, ('str', "ab", B))),
    ]


def write_corpus():
    """(re)creates corpus/C10/w_*.json from write_mode_pairs()."""
    import json
    import os
    d = os.path.join(core.ROOT, "corpus", "C10")
    os.makedirs(d, exist_ok=True)
    for name, t1, t2 in write_mode_pairs():
        cyc = not name.startswith("near_miss")
        for pre, hshape in (("w", "struct"), ("a", "args")):
            c = make_case("k%s_%s" % (pre, name), t1, t2, {}, "corpus-write-mode", "cyclic" if cyc else False, True,
                          hshape)
            with open(os.path.join(d, "%s_%s.json" % (pre, name)), "w") as f:
                json.dump({"case": c, "note": "head unification in write mode (variables passed %s), finding C10-2" % (
                    "inside v(...): unify_value" if hshape == "struct" else "as arguments: unify_local_value")},
                          f, indent=1)
                f.write("\n")


def run(ctx):
    rng, tier = ctx["rng"], ctx["tier"]
    rep = diff.replay_case(ctx)
    if rep is not None:
        cases = rep
    else:
        cases = diff.load_corpus("C10")
        n = 3000 if tier == "quick" else 55000
        pairs = directed_cases() + [gen_pair(rng) for _ in range(n)]
        pairs = [(sanitize(a, {k: sanitize(v, sh) for k, v in sh.items()}),
                  sanitize(b, {k: sanitize(v, sh) for k, v in sh.items()}),
                  {k: sanitize(v, sh) for k, v in sh.items()}, fam) for a, b, sh, fam in pairs]
        # first pass on the model only: which pairs leave finite terms / give unprintable results
        ndir = len(directed_cases())
        heads = [i < ndir or rng.random() < 0.3 or pairs[i][3] == "tailshare" for i in range(len(pairs))]
        # directed pairs: both shapes alternately (the write-mode pairs at the end: "struct");
        # tailshare: mostly "struct"; others: either
        hsh = [("args" if i >= ndir - len(write_mode_pairs()) else ("struct", "args", "list")[i % 3]) if i < ndir
               else rng.choice(("struct", "args", "list") if pairs[i][3] != "tailshare" else
                               ("struct",) * 9 + ("args",) * 9 + ("list",) * 2)
               for i in range(len(pairs))]
        pre = [make_case("c%d" % i, t1, t2, sh, fam, False, heads[i], hsh[i]) for i, (t1, t2, sh, fam) in enumerate(pairs)]
        mres = core.run_model([l for c in pre for l in c["model"]])
        for c0, (t1, t2, sh, fam), hd, hs in zip(pre, pairs, heads, hsh):
            mv = mres.get(c0["id"], "")
            hide = "all" if unprintable(mv) else ("cyclic" if mv == "cyclic" else False)
            cases.append(make_case(c0["id"], t1, t2, sh, fam, hide, hd, hs) if hide else c0)
    impl, model = diff.run_cases(cases)
    # a loaded machine can make the 10 s watchdog fire: a `timeout` (or a missing answer) is
    # inconclusive; such cases are re-run serially with a long watchdog before they are judged
    # timeout / abort / skipped / a ball that escaped the whole query.  Every configuration catches
    # error(_, _) itself, so a ball at the top is not a unification result: it is the watchdog (its
    # interrupt is thrown as error('$interrupt_thrown', repl/0); the case's own catch/3 may intercept
    # one interrupt and the next one then ends the query; on a heavily loaded machine whole-case
    # answers `exception(E)` and `exception(repl/0)` were seen).  Such cases are inconclusive and are
    # run again, serially, with a long watchdog; what the second run gives is judged.  More than
    # MAX_RERUN of them is not load but a broken implementation: then nothing is re-run and the
    # first answers are judged.
    MAX_RERUN = max(25, len(cases) // 250)
    inconclusive = []
    for c in cases:
        r = impl.get(c["id"])
        if r is None or not (r.startswith("{") or r.startswith("panic")) or "interrupt_thrown" in r:
            inconclusive.append(c)
    retried = 0
    if len(inconclusive) <= MAX_RERUN:
        for c in inconclusive:
            retried += 1
            impl.update(core.run_impl(c["impl"], env={"SV_TIMEOUT_MS": "120000"}))
    findings = []
    agree = 0
    outcomes = {"ok": 0, "clash": 0, "cyclic": 0}
    fam_count = {}
    distinct = set()
    nbind_hist = {}
    hidden = 0
    for c in cases:
        probs, mo = judge(c, impl, model)
        outcomes[mo] = outcomes.get(mo, 0) + 1
        fam_count[c.get("family", "?")] = fam_count.get(c.get("family", "?"), 0) + 1
        mv = model.get(c["id"], "")
        nb = int(mv.split(" ")[1]) if mv.startswith("ok ") else -1
        if nb >= 0:
            nbind_hist[str(min(nb, 8))] = nbind_hist.get(str(min(nb, 8)), 0) + 1
        if c.get("hide") == "all":
            hidden += 1
        if mo in ("clash", "cyclic") or nb >= 1:
            distinct.add((c["t1"], c["t2"]))
        if rep is not None:
            print("replay %s" % c.get("prolog"))
            print("  model: %s" % mv)
            print("  impl : %s" % impl.get(c["id"]))
            for kind, sig, detail in probs:
                print("  PROBLEM %s" % detail)
        if not probs:
            agree += 1
        for kind, sig, detail in probs:
            findings.append(core.Finding(kind, sig, detail, {k: c.get(k) for k in (
                "id", "family", "t1", "t2", "extra", "prolog", "hide", "hshape", "strdot", "configs", "impl", "model")}))
    return {
        "evaluations": sum(len(c.get("configs", CONFIGS)) for c in cases),
        "distinct_nontrivial": len(distinct),
        "rule": "term pairs over <=6 shared variables, atoms, small/boundary/big integers (literal and run-time computed), floats, rationals, strings / partial strings / char lists / partial lists in several spellings, compounds, shared sub-structures, long lists and deep nesting; partner term derived by mutation (mostly unifiable, some clashes, some cyclic); family tailshare: the head's compound holds the variable it is unified with (write mode of the compiled head, cyclic) and near misses; 7 configurations (=/2 x 3 flags, unify_with_occurs_check/2, \\=/2 x 3 flags) per pair, run in one query, plus 3 head configurations (call of a clause whose head carries t2, under each flag) for the stored corpus, the directed pairs, family tailshare and 30% of the rest; non-trivial = at least one binding, a clash or a cyclic binding; distinct by the pair of terms",
        "samples": [c["prolog"] for c in cases[:2]] + [c["prolog"] for c in cases[-4:]],
        "traces_validated_against_impl": agree,
        "disagreements_checked": len(cases) - agree,
        "pairs": len(cases),
        "model_outcomes": outcomes,
        "families": fam_count,
        "bindings_histogram": nbind_hist,
        "results_not_printed_pstr_atom_tail": hidden,
        "timeouts_rerun_serially": retried,
        "inconclusive_first_answers": len(inconclusive),
        "exhaustive": False,
        "findings": findings,
    }


if __name__ == "__main__":
    import sys
    if sys.argv[1:] == ["write-corpus"]:
        write_corpus()
