"""C24 — Cyclic terms are processed correctly and always terminate.

One abstract *case* = a small term graph (variables, constants, compounds, list cells, partial and
complete strings; arbitrary sharing and back edges), two roots A and B and an unfolding depth K.
From it we produce
  * two Prolog clauses (loaded through the harness) that BUILD the graph with plain unification
    (occurs_check = false: body equations in random order, variable chains, clause-head
    unification, partial_string/3) and run the builtins on it, binding only flags and integer
    token lists (never a cyclic term) to the answer variable R;
  * the token line of the Lean driver drv_C24, which runs the graph algorithms of Model/Graph.lean
    on the same graph and prints the list the clauses are expected to bind to R.
Props/C24.lean proves that the model algorithms terminate and give the answers of the infinite
tree reading; the run compares field by field. A small family of fixed probes (length/2 on cyclic
lists, findall/assertz of cyclic terms) is classified without a model: a crash or a hang is a
violation.
"""
import json
import time

from .. import core, diff

LEVEL = "proof"
TRUSTED_BASE = [
    "vlib/props/C24.py renders one abstract graph both as Prolog text (equations / clause heads / partial_string/3) and as the node list of drv_C24 (strings expanded to '.'/2 cells of one-char atoms), and the probe clauses c24_unf/c24_vidx… (functor/arg walks to depth K) read the built term back",
    "constants and functor names are mapped to codes whose numeric order is their standard order (0 < 1 < [] < a < b < c; '.' < f < g < h)",
    "a small Python reference (naive DFS / pair set) cross-checks the model's acyclic, ==, term_variables answers on every case",
]
ASSUMPTIONS = [
    "graphs are built at the Prolog level only (no setarg, no heap hook): the heap shapes are those that unification without occurs check, clause-head unification and partial_string/3 produce",
    "the order of two distinct variables under compare/3 is not fixed by the model (age): any of < and > is accepted, = is not",
    "unify_with_occurs_check/2 is only judged when both arguments are finite terms",
    "the standard order of two rational trees that are not equal is tied to the implementation's pre-order/tabu walk by the run, not proved to be an order",
]

IMPL_ENV = {"SV_TIMEOUT_MS": "20000"}
import os
NOSTR = os.environ.get("C24_NOSTR") == "1"     # development knob: no string cells at all

ATOMS = [0, 1, "[]", "a", "b", "c"]
ACODE = {0: 0, 1: 1, "[]": 10, "a": 11, "b": 12, "c": 13}
FCODE = {".": 1, "f": 2, "g": 3, "h": 4}
FA = ["Gr", "Vars", "Eq", "Ne", "Cmp", "Cmp2", "UCopy", "Fresh", "U0", "Unch", "Uoc", "Un", "UA", "UB", "EqU", "AcCopy"]
FAc = ["AcA", "AcB", "UnchAc"]

HELPERS = r"""
c24_unf(0, _, _, [0|Ts], Ts) :- !.
c24_unf(_, T, Tab, [C|Ts], Ts) :- var(T), !, c24_vidx(T, Tab, C).
c24_unf(_, T, _, [C|Ts], Ts) :- atomic(T), !, c24_atok(T, C).
c24_unf(K, T, Tab, [C|Ts0], Ts) :- functor(T, F, N), c24_ftok(F, FC), C is 4000+FC*10+N, K1 is K-1, c24_args(1, N, K1, T, Tab, Ts0, Ts).
c24_args(I, N, _, _, _, Ts, Ts) :- I > N, !.
c24_args(I, N, K, T, Tab, Ts0, Ts) :- arg(I, T, A), c24_unf(K, A, Tab, Ts0, Ts1), I1 is I+1, c24_args(I1, N, K, T, Tab, Ts1, Ts).
c24_vidx(_, [], 999).
c24_vidx(V, [K-I|R], C) :- ( V == K -> C = I ; c24_vidx(V, R, C) ).
c24_vlist([], _, []).
c24_vlist([V|Vs], Tab, [I|Is]) :- c24_vidx(V, Tab, I), c24_vlist(Vs, Tab, Is).
c24_numtab([], _, []).
c24_numtab([V|Vs], N, [V-N|T]) :- N1 is N+1, c24_numtab(Vs, N1, T).
c24_fresh([], _, 1).
c24_fresh([V|Vs], Tab, F) :- c24_vidx(V, Tab, I), ( I =:= 999 -> c24_fresh(Vs, Tab, F) ; F = 0 ).
c24_ord(<, -1).
c24_ord(=, 0).
c24_ord(>, 1).
c24_atok(0, 3000).
c24_atok(1, 3001).
c24_atok([], 3010).
c24_atok(a, 3011).
c24_atok(b, 3012).
c24_atok(c, 3013).
c24_ftok('.', 1).
c24_ftok(f, 2).
c24_ftok(g, 3).
c24_ftok(h, 4).
"""
HELPER_LINE = "L\tc24h%s\tuser\t" + HELPERS.strip().replace("\n", "\\n")


def transient(r):
    return r == "missing" or r.startswith("timeout") or r.startswith("abort") or r.startswith("skipped")


# ------------------------------------------------------------------ abstract graphs
# node: ["v"] | ["a", atom] | ["s", f, [children]] | ["l", h, t] | ["d", h, t] | ["p", chars, t] | ["q", chars]
# ("d" = a '.'/2 structure cell instead of a list cell; same term)

def children(n):
    if n[0] == "s":
        return list(n[2])
    if n[0] in ("l", "d"):
        return [n[1], n[2]]
    if n[0] == "p":
        return [n[2]]
    return []


def model_graph(nodes):
    """expansion to var/atom/str nodes; indices of the abstract nodes are kept."""
    out = [None] * len(nodes)

    def add(x):
        out.append(x)
        return len(out) - 1

    for i, n in enumerate(nodes):
        if n[0] == "v":
            out[i] = ("v",)
        elif n[0] == "a":
            out[i] = ("a", ACODE[n[1]])
        elif n[0] == "s":
            out[i] = ("s", FCODE[n[1]], list(n[2]))
        elif n[0] in ("l", "d"):
            out[i] = ("s", 1, [n[1], n[2]])
        else:
            chars = n[1]
            tail = n[2] if n[0] == "p" else add(("a", ACODE["[]"]))
            for c in reversed(chars[1:]):
                tail = add(("s", 1, [add(("a", ACODE[c])), tail]))
            out[i] = ("s", 1, [add(("a", ACODE[chars[0]])), tail])
    return out


def model_tokens(mg):
    t = [str(len(mg))]
    for n in mg:
        if n[0] == "v":
            t.append("0")
        elif n[0] == "a":
            t += ["1", str(n[1])]
        else:
            t += ["2", str(n[1]), str(len(n[2]))] + [str(c) for c in n[2]]
    return " ".join(t)


# ------------------------------------------------------------------ python reference (cross-check of the model)

def ref_reach(mg, r):
    seen, order, st = set(), [], [r]
    while st:
        i = st.pop()
        if i in seen:
            continue
        seen.add(i)
        order.append(i)
        if mg[i][0] == "s":
            st.extend(reversed(mg[i][2]))
    return order


def ref_acyclic(mg, r):
    color = {}

    def go(i):
        if color.get(i) == 1:
            return False
        if color.get(i) == 2:
            return True
        color[i] = 1
        if mg[i][0] == "s":
            for c in mg[i][2]:
                if not go(c):
                    return False
        color[i] = 2
        return True
    return go(r)


def ref_eq(mg, a, b):
    """greatest bisimulation by refinement of the full relation."""
    n = len(mg)
    rel = {(x, y) for x in range(n) for y in range(n)}
    changed = True
    while changed:
        changed = False
        for (x, y) in list(rel):
            nx, ny = mg[x], mg[y]
            ok = False
            if x == y:
                ok = True
            elif nx[0] == "a" and ny[0] == "a":
                ok = nx[1] == ny[1]
            elif nx[0] == "s" and ny[0] == "s":
                ok = nx[1] == ny[1] and len(nx[2]) == len(ny[2]) and all((c, d) in rel for c, d in zip(nx[2], ny[2]))
            if not ok:
                rel.discard((x, y))
                changed = True
    return (a, b) in rel


# ------------------------------------------------------------------ rendering to Prolog

def pl_atom(a):
    return str(a)


def render_build(nodes, rng, style):
    """returns (list of body goals, list of (variable, term) equations done by clause-head unification)."""
    n = len(nodes)
    indeg = [0] * n
    for nd in nodes:
        for c in children(nd):
            indeg[c] += 1
    aliases = []
    keep = set(style.get("roots", []))

    def ref(j, stack, in_head, lhead=False):
        nd = nodes[j]
        if nd[0] == "a" and rng.random() < 0.6 and not (NOSTR and lhead):
            return pl_atom(nd[1])
        if nd[0] in ("s", "l", "d") and indeg[j] == 1 and len(stack) < 3 and j not in stack and j not in keep \
                and rng.random() < 0.3:
            return rhs(j, stack + [j], in_head)
        if not in_head and rng.random() < 0.15:
            al = "A%d_%d" % (j, len(aliases))
            aliases.append("%s = N%d" % (al, j))
            return al
        return "N%d" % j

    def rhs(j, stack, in_head):
        nd = nodes[j]
        if nd[0] == "a":
            return pl_atom(nd[1])
        if nd[0] == "s":
            return "%s(%s)" % (nd[1], ",".join(ref(c, stack, in_head) for c in nd[2]))
        if nd[0] == "l":
            return "[%s|%s]" % (ref(nd[1], stack, in_head, True), ref(nd[2], stack, in_head))
        if nd[0] == "d":
            # a '.'/2 STRUCTURE cell: only the reader builds one, for infix `H '.' T` under op(200,xfy,'.')
            return "(%s '.' %s)" % (ref(nd[1], stack, in_head), ref(nd[2], stack, in_head))
        if nd[0] == "q":
            return '"%s"' % "".join(nd[1])
        raise ValueError(nd)

    order = list(range(n))
    rng.shuffle(order)
    goals, head = [], []
    for j in order:
        nd = nodes[j]
        if nd[0] == "v":
            continue
        if nd[0] == "p":
            goals.append('partial_string("%s", N%d, %s)' % ("".join(nd[1]), j, ref(nd[2], [j], False)))
        elif style["kind"] == "head" and rng.random() < 0.75:
            # a node inlined into another term keeps its own equation as well: the same structure is
            # then unified twice (read mode the second time), the graph seen from the roots is the same
            e = ("N%d" % j, rhs(j, [j], True))
            head.append(e)
            if rng.random() < 0.3:
                goals.append("%s = %s" % e)
        else:
            goals.append("N%d = %s" % (j, rhs(j, [j], False)))
    goals += aliases
    rng.shuffle(goals)
    return goals, head


def render_case(cid, nodes, a, b, k, rng, kind):
    goals, head = render_build(nodes, rng, {"kind": kind, "roots": [a, b]})
    n = len(nodes)
    prog = []
    build = list(goals)
    if head:
        import re
        hv = sorted(set(re.findall(r"N\d+", " ".join(v + " " + t for v, t in head))), key=lambda x: int(x[1:]))
        prog.append("c24h_%s(%s)." % (cid, ",".join(hv + [t for _, t in head])))
        call = "c24h_%s(%s)" % (cid, ",".join(hv + [v for v, _ in head]))
        pos = rng.randrange(len(build) + 1)
        build.insert(pos, call)
    tab = "[%s]" % ",".join("N%d-%d" % (i, 1000 + i) for i in range(n) if nodes[i][0] == "v")
    bld = ", ".join(build + ["A = N%d" % a, "B = N%d" % b, "Tab = %s" % tab])
    ca = ("c24a_%s(R) :- %s, c24_unf(%d, A, Tab, U0, []), c24_unf(%d, B, Tab, V0, []), "
          "(acyclic_term(A) -> AcA = 1 ; AcA = 0), (acyclic_term(B) -> AcB = 1 ; AcB = 0), "
          "c24_unf(%d, A, Tab, U1, []), c24_unf(%d, B, Tab, V1, []), "
          "(U0-V0 == U1-V1 -> Un = 1 ; Un = 0), R = [AcA, AcB, Un]." % (cid, bld, k, k, k, k))
    cb = ("c24b_%s(R) :- %s, c24_unf(%d, A, Tab, U0, []), "
          "(ground(A) -> Gr = 1 ; Gr = 0), term_variables(A, Vs), c24_vlist(Vs, Tab, VIs), "
          "(A == B -> Eq = 1 ; Eq = 0), (A \\== B -> Ne = 1 ; Ne = 0), "
          "compare(O1, A, B), c24_ord(O1, C1), compare(O2, B, A), c24_ord(O2, C2), "
          "copy_term(A, C), term_variables(C, CVs), c24_numtab(CVs, 2000, CTab), c24_unf(%d, C, CTab, UC, []), "
          "c24_fresh(CVs, Tab, Fr), c24_unf(%d, A, Tab, U1, []), (U0 == U1 -> Unch = 1 ; Unch = 0), "
          "(\\+ \\+ unify_with_occurs_check(A, B) -> Uo = 1 ; Uo = 0), "
          "( A = B -> Un = 1, c24_unf(%d, A, Tab, UA, []), c24_unf(%d, B, Tab, UB, []), (A == B -> EqU = 1 ; EqU = 0) "
          "; Un = 0, UA = [], UB = [], EqU = 0 ), "
          "(acyclic_term(C) -> AcC = 1 ; AcC = 0), "
          "R = [Gr, VIs, Eq, Ne, C1, C2, UC, Fr, U0, Unch, Uo, Un, UA, UB, EqU, AcC]." % (cid, bld, k, k, k, k, k))
    prog += [ca, cb]
    return prog


def make_case(cid, nodes, a, b, k, seed, kind):
    import random
    rng = random.Random(seed)
    prog = render_case(cid, nodes, a, b, k, rng, kind)
    mg = model_graph(nodes)
    dot = any(nd[0] == "d" for nd in nodes)
    impl = [HELPER_LINE % cid,
            "Q\t%s_u\t1\tuse_module(library(iso_ext))%s." % (cid, ", op(200, xfy, (.))" if dot else ""),
            "L\t%s_l\tuser\t%s" % (cid, "\\n".join(prog)),
            "Q\t%s_a\t2\tc24a_%s(R)." % (cid, cid),
            "Q\t%s_b\t2\tc24b_%s(R)." % (cid, cid)]
    model = ["case\t%s\t%d %d %d %s" % (cid, k, a, b, model_tokens(mg))]
    return {"id": cid, "nodes": nodes, "a": a, "b": b, "k": k, "seed": seed, "kind": kind, "dot": dot,
            "impl": impl, "model": model, "prolog": prog}


def norm_case(c, cid=None):
    return make_case(cid or c["id"], c["nodes"], c["a"], c["b"], c["k"], c["seed"], c["kind"])


# ------------------------------------------------------------------ generators

def gen_graph(rng, n, p_var=0.2, p_atom=0.2, strings=True, acyclic=False):
    nodes = []
    strings = strings and not NOSTR
    for i in range(n):
        r = rng.random()
        if r < p_var:
            nodes.append(["v"])
        elif r < p_var + p_atom:
            nodes.append(["a", rng.choice(ATOMS)])
        else:
            def pick():
                if acyclic:
                    return rng.randrange(i + 1, n) if i + 1 < n else None
                # bias towards back edges / self loops / shared children
                return rng.randrange(n)
            r2 = rng.random()
            if strings and r2 < 0.15:
                t = pick()
                chars = [rng.choice("abc") for _ in range(rng.randint(1, 3))]
                nodes.append(["p", chars, t] if t is not None else ["q", chars])
            elif strings and r2 < 0.22:
                nodes.append(["q", [rng.choice("abc") for _ in range(rng.randint(1, 3))]])
            elif r2 < 0.45:
                h, t = pick(), pick()
                nodes.append(["l", h, t] if h is not None else ["a", "[]"])
            else:
                ar = rng.choice([1, 2, 2, 2, 3])
                cs = [pick() for _ in range(ar)]
                nodes.append(["s", rng.choice("fgh"), cs] if cs[0] is not None else ["a", rng.choice(ATOMS)])
    return nodes


def twin_graph(rng, nodes):
    """a second, differently shaped presentation of (almost) the same rational trees: duplicate the
    graph, sometimes unroll one node, sometimes perturb one leaf."""
    n = len(nodes)
    dup = []
    for nd in nodes:
        if nd[0] == "s":
            dup.append(["s", nd[1], [c + n for c in nd[2]]])
        elif nd[0] == "l":
            dup.append(["l", nd[1] + n, nd[2] + n])
        elif nd[0] == "p":
            dup.append(["p", list(nd[1]), nd[2] + n])
        elif nd[0] == "v":
            dup.append(None)      # variables stay shared (a copy of a variable is a different variable)
        else:
            dup.append(list(nd))
    both = [list(x) for x in nodes] + dup

    def fix(c):
        return c - n if c >= n and both[c] is None else c
    for i in range(n, 2 * n):
        nd = both[i]
        if nd is None:
            continue
        if nd[0] == "s":
            nd[2] = [fix(c) for c in nd[2]]
        elif nd[0] == "l":
            nd[1], nd[2] = fix(nd[1]), fix(nd[2])
        elif nd[0] == "p":
            nd[2] = fix(nd[2])
    for i in range(n, 2 * n):
        if both[i] is None:
            both[i] = ["a", "[]"]     # unreachable filler
    # cross edges: some copies point back into the original (bisimilar all the same)
    for i in range(n, 2 * n):
        nd = both[i]
        if nd[0] == "s" and rng.random() < 0.3:
            j = rng.randrange(len(nd[2]))
            if nd[2][j] >= n:
                nd[2][j] -= n
        elif nd[0] == "l" and rng.random() < 0.3 and nd[2] >= n:
            nd[2] -= n
    if rng.random() < 0.4:
        # perturb one node of the copy
        i = rng.randrange(n, 2 * n)
        nd = both[i]
        if nd[0] == "a":
            both[i] = ["a", rng.choice(ATOMS)]
        elif nd[0] == "s":
            nd[1] = rng.choice("fgh")
        elif nd[0] == "l":
            nd[1] = rng.randrange(2 * n)
    return both


def gen_cases(rng, count, tag, nmax):
    cases = []
    for i in range(count):
        r = rng.random()
        n = rng.randint(1, nmax)
        if r < 0.15:
            nodes = gen_graph(rng, n, acyclic=True)
        elif r < 0.3:
            nodes = gen_graph(rng, n, p_var=0.0, p_atom=0.25)          # ground graphs
        else:
            nodes = gen_graph(rng, n)
        if rng.random() < 0.45 and n <= 6:
            nodes = twin_graph(rng, nodes)
            a = rng.randrange(n)
            b = a + n if nodes[a][0] != "v" and rng.random() < 0.8 else rng.randrange(len(nodes))
        else:
            a = 0 if rng.random() < 0.6 else rng.randrange(len(nodes))
            b = rng.randrange(len(nodes))
        k = rng.choice([2, 3, 3, 4])
        kind = "head" if rng.random() < 0.35 else "body"
        cases.append(make_case("%s%d" % (tag, i), nodes, a, b, k, rng.randrange(1 << 30), kind))
    return cases


def gen_dot_cases(rng, count, tag):
    """graphs in which some list cells are '.'/2 STRUCTURE cells (the other presentation of the same
    term); run one case per harness process under a wall-clock limit, see run_dot."""
    out = []
    while len(out) < count:
        c = gen_cases(rng, 1, "x", 5)[0]
        nodes = [list(nd) for nd in c["nodes"]]
        ls = [i for i, nd in enumerate(nodes) if nd[0] == "l"]
        if not ls:
            continue
        for i in ls:
            if rng.random() < 0.5:
                nodes[i][0] = "d"
        if not any(nd[0] == "d" for nd in nodes):
            nodes[rng.choice(ls)][0] = "d"
        out.append(make_case("%s%d" % (tag, len(out)), nodes, c["a"], c["b"], c["k"], c["seed"], "body"))
    return out


def fixed_dot_cases():
    F = []

    def add(nodes, a, b):
        F.append(make_case("fd%d" % len(F), nodes, a, b, 3, 11 + len(F), "body"))
    add([["d", 1, 0], ["a", 1], ["l", 3, 2], ["a", 1]], 0, 2)     # A = (1 '.' A), B = [1|B]
    add([["l", 1, 0], ["a", 1], ["d", 3, 2], ["a", 1]], 0, 2)     # the other way round
    add([["d", 1, 0], ["a", 1], ["d", 3, 2], ["a", 1]], 0, 2)
    add([["d", 1, 2], ["a", 0], ["a", "[]"], ["l", 4, 5], ["a", 0], ["a", "[]"]], 0, 3)    # finite
    return F


def fixed_cases():
    """the classic shapes named in the property text and in the builder's task."""
    F = []

    def add(nodes, a, b, k=3, kind="body"):
        F.append(make_case("fx%d" % len(F), nodes, a, b, k, 7 + len(F), kind))
    add([["s", "f", [0, 1]], ["v"]], 0, 0)                                         # X = f(X,Y)
    add([["l", 1, 2], ["a", "a"], ["l", 3, 0], ["a", "b"]], 0, 2)                  # L = [a,b|L]
    add([["s", "f", [1]], ["s", "g", [0, 1]]], 0, 1)                              # X = f(Y), Y = g(X,Y)
    add([["p", ["a", "b", "c"], 0]], 0, 0)                                         # "abc" with itself as tail
    add([["s", "h", [1]], ["p", ["a"], 1]], 0, 1, kind="head")                    # h([a|T]) cycle through a string below the root
    add([["s", "h", [1]], ["q", ["a", "b", "c"]]], 0, 1)                          # h("abc"): finite, string below the root
    add([["s", "f", [0, 1]], ["a", "a"], ["s", "f", [3, 4]], ["s", "f", [2, 5]], ["a", "a"], ["a", "a"]], 0, 2)  # f(X,a) vs unrolled
    add([["s", "f", [0, 1]], ["a", "a"], ["s", "f", [2, 3]], ["a", "b"]], 0, 2)   # X=f(X,a), Y=f(Y,b)
    add([["l", 1, 0], ["a", "a"], ["p", ["a", "a"], 2]], 0, 2)                     # [a|L] vs "aa"||S
    add([["s", "f", [1, 1]], ["s", "g", [2, 2]], ["s", "h", [3]], ["v"]], 0, 0)    # DAG with sharing, finite
    add([["s", "f", [1]], ["v"], ["s", "f", [2]]], 0, 2)                           # f(V) = cyclic f(f(…))
    add([["s", "f", [1, 2]], ["v"], ["v"], ["s", "f", [4, 3]], ["v"]], 0, 3)       # f(V,W) = X where X = f(U,X)
    return F


# fixed probes without a model: (name, clause text, goal, acceptable result regex-free predicate)
SPECIAL = [
    ("len_cyc", "c24s_len_cyc(R) :- X = [a|X], catch((length(X, N) -> R = len(N) ; R = failed), error(E, _), (functor(E, K, _), R = err(K))).",
     lambda r: r.startswith("{R='err'(") or r == "{R='failed'}"),
    ("len_cyc2", "c24s_len_cyc2(R) :- X = [a,b|Y], Y = [c|X], catch((length(X, N) -> R = len(N) ; R = failed), error(E, _), (functor(E, K, _), R = err(K))).",
     lambda r: r.startswith("{R='err'(") or r == "{R='failed'}"),
    ("len_cyc3", "c24s_len_cyc3(R) :- X = [a|X], catch((length(X, 3) -> R = yes ; R = failed), error(E, _), (functor(E, K, _), R = err(K))).",
     lambda r: r.startswith("{R='err'(") or r == "{R='failed'}"),
    ("findall_cyc", "c24s_findall_cyc(R) :- X = f(X, Y), catch((findall(X, true, L), L = [Z], Z = f(Z1, W), (Z1 == Z, var(W), W \\== Y -> R = ok ; R = bad)), error(E, _), (functor(E, K, _), R = err(K))).",
     lambda r: r == "{R='ok'}" or r.startswith("{R='err'("),),
    ("assertz_cyc", "c24s_assertz_cyc(R) :- X = f(X), catch((assertz(c24_dyn(X)) -> R = asserted ; R = failed), error(E, _), (functor(E, K, _), R = err(K))).",
     lambda r: r in ("{R='asserted'}", "{R='failed'}") or r.startswith("{R='err'(")),
    ("asserta_cyc_body", "c24s_asserta_cyc_body(R) :- X = [a|X], catch((asserta((c24_dyn2(Y) :- Y = X)) -> R = asserted ; R = failed), error(E, _), (functor(E, K, _), R = err(K))).",
     lambda r: r in ("{R='asserted'}", "{R='failed'}") or r.startswith("{R='err'(")),
]


def special_cases():
    out = []
    for name, clause, ok in SPECIAL:
        out.append({"id": "sp_" + name, "special": name,
                    "impl": ["Q\tsp_%s_u\t1\tuse_module(library(lists))." % name,
                             "L\tsp_%s_l\tuser\t%s" % (name, clause), "Q\tsp_%s\t2\tc24s_%s(R)." % (name, name)],
                    "prolog": [clause]})
    return out


# ------------------------------------------------------------------ judge

def parse_R(r):
    if not (r.startswith("{R=") and r.endswith("}")):
        return None
    try:
        return json.loads(r[3:-1])
    except Exception:
        return None


def features(c):
    nodes = c["nodes"]
    mg = model_graph(nodes)
    def stringish(i):
        # partial/complete strings, and list cells whose head is a one-char atom (the compiler and
        # unification may represent those as partial strings, too)
        nd = nodes[i]
        return nd[0] in ("p", "q") or (nd[0] == "l" and nodes[nd[1]][0] == "a" and nodes[nd[1]][1] in ("a", "b", "c"))
    n = len(nodes)
    below = any(stringish(i) for r in (c["a"], c["b"]) for i in ref_reach(mg, r) if i < n and i != r)
    atroot = any(stringish(i) for i in (c["a"], c["b"]))
    return {"string_below_root": "yes" if below else "no", "string_at_root": "yes" if atroot else "no",
            "cyclic": "no" if ref_acyclic(mg, c["a"]) and ref_acyclic(mg, c["b"]) else "yes",
            "strdot": "yes" if any(nodes[i][0] == "d" for r in (c["a"], c["b"]) for i in ref_reach(mg, r) if i < n) else "no",
            # a '.'/2 structure cell and a string cell in the same term: unify_structure has no PStrLoc arm (finding C10-4)
            "strdot_meets_string": "yes" if (any(nodes[i][0] == "d" for r in (c["a"], c["b"]) for i in ref_reach(mg, r) if i < n)
                                             and any(stringish(i) for r in (c["a"], c["b"]) for i in ref_reach(mg, r) if i < n)) else "no",
            "build": c["kind"]}


STRONG = {"AcA", "AcB", "UnchAc", "Gr", "Vars", "Eq", "Ne", "UCopy", "Fresh", "Unch", "Un", "EqU", "AcCopy"}


def judge(c, impl, model):
    """returns (status, [findings])."""
    cid = c["id"]
    mv = model.get(cid, "missing")
    try:
        m = json.loads(mv)
    except Exception:
        return "bad", [core.Finding("disagreement", {"family": "graph", "what": "model-output", "model": mv[:80]},
                                    "driver produced no result", slim(c))]
    feat = features(c)
    fs = []
    mg = model_graph(c["nodes"])
    # python reference vs model
    refv = [1 if ref_acyclic(mg, c["a"]) else 0, 1 if ref_acyclic(mg, c["b"]) else 0]
    if m[0][:2] != refv or m[1][2] != (1 if ref_eq(mg, c["a"], c["b"]) else 0) or \
            m[1][1] != [1000 + i for i in ref_reach(mg, c["a"]) if mg[i][0] == "v"]:
        fs.append(core.Finding("disagreement", {"family": "graph", "what": "model-vs-python-reference"},
                               "Lean model and the naive Python reference differ", slim(c)))
    for part, names, mi in (("a", FAc, m[0]), ("b", FA, m[1])):
        r = impl.get("%s_%s" % (cid, part), "missing")
        iv = parse_R(r)
        if iv is None:
            what = "panic" if r.startswith("panic") else ("timeout" if r.startswith("timeout") else (
                "hang" if r.startswith("hang") else ("abort" if r.startswith("abort") else "no-answer")))
            if r == "missing" and impl.get("%s_a" % cid, "").startswith(("hang", "abort")):
                continue        # never started: the previous query of the case hung / killed the process
            sig = {"family": "graph", "part": "acyclic_term" if part == "a" else "other-builtins", "what": what}
            sig.update(feat)
            cc = slim(c)
            cc["observed"] = r[:300]
            fs.append(core.Finding("violation", sig,
                                   "the probe clause %s on a %s term: %s" % (
                                       "calling only acyclic_term/1 (and functor/arg walks)" if part == "a" else "calling ground, term_variables, ==, compare, copy_term, unification",
                                       "cyclic" if feat["cyclic"] == "yes" else "finite", r[:200]), cc))
            continue
        for name, x, y in zip(names, iv, mi):
            if name in ("Cmp", "Cmp2") and y == 7:
                ok = x in (-1, 1)
            elif name == "Uoc" and y == 7:
                ok = True
            else:
                ok = x == y
            if ok:
                continue
            sig = {"family": "graph", "part": "acyclic_term" if part == "a" else "other-builtins", "field": name}
            sig.update(feat)
            cc = slim(c)
            cc["field"], cc["observed"], cc["expected"] = name, x, y
            fs.append(core.Finding("violation" if name in STRONG else "disagreement", sig,
                                   "%s: implementation %s, infinite-tree reading (model) %s" % (name, x, y), cc))
    return ("agree" if not fs else "differ"), fs


def slim(c):
    return {k: c[k] for k in ("id", "nodes", "a", "b", "k", "seed", "kind", "prolog") if k in c}


def needs_rerun(r):
    # (after a panic the machine is replaced: later cases of the batch lose library(iso_ext) and the helpers)
    return transient(r) or r.startswith("panic") or r.startswith("hang") or "existence_error'('procedure'," in r


def run_proc(lines, limit):
    """one harness process under a wall-clock limit. A loop inside a builtin cannot be interrupted by
    the harness watchdog: the process is killed, the first unanswered query is reported as `hang`,
    the queries after it as `missing` (never started)."""
    import subprocess
    import os as _os
    env = dict(_os.environ)
    env.update(IMPL_ENV)
    data = "\n".join(lines) + "\n"
    hung = False
    rc = 0
    try:
        p = subprocess.run([core.HARNESS_BIN], input=data, stdout=subprocess.PIPE, stderr=subprocess.PIPE,
                           text=True, env=env, timeout=limit, errors="replace")
        out = p.stdout
        rc = p.returncode
    except subprocess.TimeoutExpired as e:
        hung = True
        out = e.stdout or ""
        if isinstance(out, bytes):
            out = out.decode("utf-8", "replace")
    res = {}
    for l in out.split("\n"):
        if l and "\t" in l:
            i, _, r = l.partition("\t")
            res[i] = r
    if hung or rc != 0:
        for l in lines:
            if core.line_id(l) not in res:
                res[core.line_id(l)] = ("hang(no answer within %d s; not interruptible)" % limit) if hung \
                    else "abort(rc=%d: the harness process died)" % rc
                break
    return res


def run_parallel(groups, limit, workers):
    from concurrent.futures import ThreadPoolExecutor
    impl = {}
    with ThreadPoolExecutor(max_workers=workers) as ex:
        for r in ex.map(lambda g: run_proc(g, limit), groups):
            impl.update(r)
    return impl


def private_lines(c):
    """the case with a complete private set-up in front of each of its queries (a panic discards the
    machine; the next line starts a new one), so that no query depends on another."""
    qs = [l for l in c["impl"] if l.startswith("Q\t") and "_u\t1\tuse_module(" not in l]
    setup = [l for l in c["impl"] if l not in qs]
    lines = []
    for j, q in enumerate(qs):
        for l in setup:
            f = l.split("\t")
            f[1] = "%s_r%d" % (f[1], j)
            lines.append("\t".join(f))
        lines.append(q)
    return lines


def run_with_retry(cases, batch=25):
    """graph cases are sent in batches that share one load of the helper clauses, one harness
    process per batch under a wall-clock limit; a case whose queries timed out / panicked / hung /
    lost their clauses (later lines of the batch are affected) is run again in its own process with a
    private set-up in front of each query, before it is judged."""
    graph = [c for c in cases if "nodes" in c]
    other = [c for c in cases if "nodes" not in c]
    groups = []
    for i in range(0, len(graph), batch):
        lines = [HELPER_LINE % ("b%d" % i), "Q\tc24u_b%d\t1\tuse_module(library(iso_ext))." % i]
        for c in graph[i:i + batch]:
            lines += [l for l in c["impl"] if not l.startswith("L\tc24h") and not l.startswith("Q\t%s_u" % c["id"])]
        groups.append(lines)
    groups += [c["impl"] for c in other]
    impl = run_parallel(groups, 150, 10)
    model = core.run_model([l for c in graph for l in c["model"]]) if graph else {}

    def bad(c):
        return any(needs_rerun(impl.get(core.line_id(l), "missing")) for l in c["impl"]
                   if l.startswith("Q\t") and "_u\t1\tuse_module(" not in l)
    flaky = [c for c in cases if bad(c)]
    retried = len(flaky)
    def unanswered(c, res):
        return any(res.get(core.line_id(l), "missing").startswith(("hang", "missing")) for l in c["impl"]
                   if l.startswith("Q\t") and "_u\t1\tuse_module(" not in l)
    if flaky:
        impl2 = run_parallel([private_lines(c) for c in flaky], 60, 8)
        # a hang (or a process that did not get far enough under machine load) is believed only when
        # it repeats, alone, with more time
        again = [c for c in flaky if unanswered(c, impl2)]
        if again:
            impl2.update(run_parallel([private_lines(c) for c in again], 150, 3))
        for c in flaky:
            for l in c["impl"]:
                if l.startswith("Q\t") and "_u\t1\tuse_module(" not in l:
                    impl[core.line_id(l)] = impl2.get(core.line_id(l), "missing")
    return impl, model, retried


def run(ctx):
    rng, tier = ctx["rng"], ctx["tier"]
    rep = diff.replay_case(ctx)
    specials = []
    if rep is not None:
        cases = [norm_case(c, "rp%d" % i) for i, c in enumerate(rep) if "nodes" in c]
        specials = [s for s in special_cases() if any(c.get("special") == s["special"] for c in rep)]
    else:
        cases = [norm_case(c, "k%d" % i) for i, c in enumerate(diff.load_corpus("C24")) if "nodes" in c]
        cases += fixed_cases()
        if tier == "quick":
            cases += gen_cases(rng, 200, "s", 4)
            cases += gen_cases(rng, 250, "m", 8)
        else:
            cases += gen_cases(rng, 4000, "s", 4)
            cases += gen_cases(rng, 6000, "m", 8)
            cases += gen_cases(rng, 2000, "b", 12)
        specials = special_cases()
    dots = [c for c in cases if c.get("dot")]
    cases = [c for c in cases if not c.get("dot")]
    if rep is None:
        dots += fixed_dot_cases() + gen_dot_cases(rng, 20 if tier == "quick" else 300, "d")
    t0 = time.time()
    impl, model, retried = run_with_retry(cases + specials)
    if dots:
        # '.'/2 structure cells need op(200,xfy,'.'), which must not leak into the other cases:
        # one process per case, complete set-up in front of each query
        impl.update(run_parallel([private_lines(c) for c in dots], 20, 8))
        again = [c for c in dots if any(impl.get(core.line_id(l), "missing").startswith(("hang", "missing")) for l in c["impl"]
                                        if l.startswith("Q\t") and "_u\t1\tuse_module(" not in l)]
        if again:
            impl.update(run_parallel([private_lines(c) for c in again], 60, 4))
        model.update(core.run_model([l for c in dots for l in c["model"]]))
        cases = cases + dots
    core.log("[C24] correspondence run: %d cases, %.1fs, %d re-run alone" % (len(cases), time.time() - t0, retried))
    findings, agree = [], 0
    distinct = set()
    hist = {"cyclic": 0, "finite": 0, "string_below_root": 0, "head_unification": 0, "eq_true": 0, "unify_ok": 0,
            "unify_fail": 0, "compare_lt_gt": 0, "nonground": 0}
    sizes = {}
    for c in cases:
        st, fs = judge(c, impl, model)
        feat = features(c)
        hist["cyclic" if feat["cyclic"] == "yes" else "finite"] += 1
        hist["string_below_root"] += feat["string_below_root"] == "yes"
        hist["head_unification"] += c["kind"] == "head"
        try:
            m = json.loads(model.get(c["id"], ""))
            hist["eq_true"] += m[1][2]
            hist["unify_ok"] += m[1][11]
            hist["unify_fail"] += 1 - m[1][11]
            hist["compare_lt_gt"] += m[1][4] in (-1, 1)
            hist["nonground"] += 1 - m[1][0]
        except Exception:
            pass
        sizes[len(c["nodes"])] = sizes.get(len(c["nodes"]), 0) + 1
        if feat["cyclic"] == "yes" or len(c["nodes"]) > 2:
            distinct.add(json.dumps([c["nodes"], c["a"], c["b"]]))
        if rep is not None:
            print("replay %s\n  %s\n  impl a = %s\n  impl b = %s\n  model  = %s\n  -> %s" % (
                c["id"], "\n  ".join(c["prolog"]), impl.get(c["id"] + "_a"), impl.get(c["id"] + "_b"), model.get(c["id"]), st))
        if st == "agree":
            agree += 1
        findings += fs
    sp_ok = 0
    for s in specials:
        name = s["special"]
        r = impl.get("sp_" + name, "missing")
        ok = [o for n, _, o in SPECIAL if n == name][0]
        if rep is not None:
            print("replay special %s: %s" % (name, r))
        if ok(r):
            sp_ok += 1
        else:
            what = "panic" if r.startswith("panic") else ("timeout" if r.startswith("timeout") else "unexpected-answer")
            findings.append(core.Finding("violation", {"family": "special", "probe": name, "what": what},
                                         "fixed probe on a cyclic term: %s" % r[:200],
                                         {"id": s["id"], "special": name, "prolog": s["prolog"], "observed": r[:300]}))
    return {
        "evaluations": len(cases) * 2 + len(specials),
        "distinct_nontrivial": len(distinct),
        "rule": "12 fixed classic shapes + random term graphs (quick: 200 with <=4 and 250 with <=8 abstract nodes; thorough: 4000/6000 and 2000 with <=12): "
                "nodes are variables, constants, f/g/h compounds of arity 1-3, list cells, partial strings (partial_string/3) and complete strings, children "
                "drawn uniformly from all nodes (back edges, self loops, sharing); 15% forced finite DAGs, 15% ground; 45% of the small graphs are paired with a "
                "differently shaped (duplicated / cross-linked / sometimes perturbed) presentation of the same rational trees as second root; built by body "
                "equations in random order with alias variables and inlined subterms, 35% through clause-head unification. Each case = 2 queries (acyclic_term "
                "part, other builtins). non-trivial = cyclic or more than 2 nodes; distinct by (graph, roots)",
        "samples": [c["prolog"][-1][:400] for c in cases[:2] + cases[-2:]],
        "traces_validated_against_impl": agree,
        "disagreements_checked": len(cases) - agree,
        "rerun_alone_after_timeout_or_panic": retried,
        "special_probes_ok": "%d/%d" % (sp_ok, len(specials)),
        "distribution": hist,
        "abstract_node_count_histogram": {str(k): v for k, v in sorted(sizes.items())},
        "exhaustive": False,
        "findings": findings,
    }
