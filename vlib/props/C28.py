"""C28 — Embedded queries return faithful answers across a query history."""
import re
from .. import core, diff

LEVEL = "proof"
TRUSTED_BASE = [
    "Model/Embed.lean abstracts the WAM search of one query to its event script (answers with/without a choice point left, uncaught ball) and mirrors run_query / QueryState::next / Drop around it",
    "each query's script is derived from its own full run on a FRESH machine (the property's oracle: 'behaves as on a fresh Machine'); queries are side-effect free",
    "oracle 2: bindings are compared with findall/3 run inside Prolog on a fresh machine",
]
ASSUMPTIONS = ["queries in the vocabulary have no side effects on the database, flags or streams"]

# (query text, variables for the findall cross-check or None when it can throw)
QUERIES = [
    ("X = 1.", "X"), ("X is 2+3.", "X"), ("true.", None), ("atom_length(abc, N).", "N"),
    ("X = f(Y, \"str\", [1,2|T]).", "X-Y-T"),
    ("member(X, [a,b,c]).", "X"), ("(X = 1 ; X = 2).", "X"), ("between(1, 3, X).", "X"),
    ("(X = 1 ; X = 2), (Y = a ; Y = b).", "X-Y"), ("append(X, Y, [1,2]).", "X-Y"),
    ("member(X, [1,2,3]), X > 1.", "X"), ("member(X, [1,2,3]), X < 3.", "X"), ("length(L, N), N >= 2, !.", "L-N"),
    ("fail.", None), ("1 = 2.", None), ("member(x, [a]).", None), ("\\+ true.", None),
    ("throw(e).", None), ("throw(f(X, 1)).", None), ("X is foo + 1.", None), ("atom_length(X, Y).", None),
    ("(X = 1 ; throw(oops)).", None), ("(X = 1 ; X = 2 ; throw(late)).", None), ("member(X, [1,2]), X > 1, throw(found(X)).", None),
    ("catch(throw(a), _, true).", None), ("catch(member(X,[1,2]), _, true).", "X"),
    ("dif(X, a).", None), ("X = \"abc\", atom_chars(A, X).", "X-A"), ("X is 2 ** 100.", "X"),
    ("findall(Y, member(Y,[1,2,3]), L).", "L"), ("select(X, [1,2,3], R).", "X-R"), ("nth0(I, [a,b], E).", "I-E"),
    ("atom(a), !.", None), ("(member(X,[1,2,3]), X >= 2 -> true ; X = none).", "X"),
    ("call_with_inference_limit(member(X,[1,2]), 1000, R).", "X-R"),
    ("setof(X, member(X,[c,a,b]), L).", "L"), ("bagof(X-Y, member(X-Y,[1-a,2-b]), L).", "L"),
    ("sort([c,a,b,a], L).", "L"), ("number_chars(N, \"42\").", "N"), ("sub_atom(abc, B, 1, A, S).", "B-A-S"),
]
PRE = ["use_module(library(lists)).", "use_module(library(between)).", "use_module(library(dif)).", "use_module(library(iso_ext))."]


def items_of(result):
    """harness result text -> list of items (answers as text, 'F' for false, 'E…' for exception)"""
    out = []
    for a in result.split(" ;; "):
        if a == "...":
            continue
        if a == "false":
            out.append("F")
        elif a.startswith("exception(") or a.startswith("error("):
            out.append("E" + a)
        else:
            out.append("A" + a)
    return out


def script_of(items):
    """inverse of Model.Embed.stream: event script of a query from its complete stream."""
    evs = []
    for i, it in enumerate(items):
        last = i == len(items) - 1
        if it == "F":
            break
        if it.startswith("E"):
            evs.append(("e", it))
            break
        evs.append(("a", "0" if last else "1", it))
    return evs


def run(ctx):
    rng, tier = ctx["rng"], ctx["tier"]
    rep = diff.replay_case(ctx)
    # phase 1: every query on a fresh machine, completely (its stand-alone stream), plus findall cross-check
    base_lines = ["R\tb_reset"] + ["Q\tb_pre%d\t1\t%s" % (j, p) for j, p in enumerate(PRE)]
    for qi, (q, vs) in enumerate(QUERIES):
        base_lines.append("R\tb_r%d" % qi)
        base_lines += ["Q\tb_p%d_%d\t1\t%s" % (qi, j, p) for j, p in enumerate(PRE)]
        base_lines.append("Q\tb_q%d\t40\t%s" % (qi, q))
        if vs:
            base_lines.append("Q\tb_f%d\t2\tfindall(%s, (%s), All), length(All, Len)." % (qi, vs, q[:-1]))
    base = core.run_impl(base_lines)
    streams, scripts, names = {}, {}, {}
    findings = []
    for qi, (q, vs) in enumerate(QUERIES):
        items = items_of(base.get("b_q%d" % qi, "missing"))
        streams[qi] = items
        scripts[qi] = script_of(items)
    # symbolic names for answers so that the model sees short tokens
    def tok(qi, it):
        key = (qi, it)
        if key not in names:
            names[key] = "q%dn%d" % (qi, len([k for k in names if k[0] == qi]))
        return names[key]

    def enc(qi):
        ev = []
        for e in scripts[qi]:
            if e[0] == "e":
                ev.append("e" + tok(qi, e[1]))
            else:
                ev.append("a" + e[1] + tok(qi, e[2]))
        return " ".join(ev)

    # phase 2: histories on ONE machine with random consumed prefixes
    if rep is not None:
        cases = rep
    else:
        cases = diff.load_corpus("C28")
        n = 150 if tier == "quick" else 2500
        k0 = len(cases)
        for ci in range(n):
            hl = rng.randint(2, 7)
            hist = []
            for _ in range(hl):
                qi = rng.randrange(len(QUERIES))
                full = len(streams[qi])
                k = rng.choice([0, 1, 1, 2, full, full + 1, rng.randint(0, full + 1)])
                hist.append((qi, k))
            cid = "h%d" % (k0 + ci)
            impl = ["R\t%s_r" % cid] + ["Q\t%s_p%d\t1\t%s" % (cid, j, p) for j, p in enumerate(PRE)]
            for j, (qi, k) in enumerate(hist):
                impl.append("Q\t%s_%d\t%d\t%s" % (cid, j, k, QUERIES[qi][0]))
            henc = "|".join("%d:%s" % (k, enc(qi)) for qi, k in hist)
            cases.append({"id": cid, "hist": hist, "impl": impl,
                          "model": ["hist\t%s_m\t1\t%s" % (cid, henc), "spec\t%s_s\t%s" % (cid, henc),
                                    "hist\t%s_old\t0\t%s" % (cid, henc)]})
    impl, model = diff.run_cases(cases)
    agree, total = 0, 0
    distinct = set()
    stale_sensitive = 0
    for c in cases:
        cid = c["id"]
        got = []
        for j, (qi, k) in enumerate(c["hist"]):
            items = items_of(impl.get("%s_%d" % (cid, j), "missing"))
            got.append(" ".join((it[0] + tok(qi, it)) if it != "F" else "F" for it in items))
        got_s = " | ".join(got)
        m = model.get(cid + "_m", "missing")
        sp = model.get(cid + "_s", "missing")
        old = model.get(cid + "_old", "missing")
        total += 1
        if old != sp:
            stale_sensitive += 1
        if any(k not in (0,) for _, k in c["hist"]) and len(set(q for q, _ in c["hist"])) > 1:
            distinct.add(tuple(tuple(x) for x in c["hist"]))
        if rep is not None:
            print("replay history=%s\n impl : %s\n model: %s\n spec : %s" % ([(QUERIES[q][0], k) for q, k in c["hist"]], got_s, m, sp))
        cc = {"id": cid, "hist": c["hist"], "impl": c["impl"], "model": c["model"], "queries": [QUERIES[q][0] for q, _ in c["hist"]]}
        if got_s == sp == m:
            agree += 1
            continue
        # find the first query of the history that deviates from its stand-alone prefix
        exp = sp.split(" | ")
        bad = next((j for j in range(len(got)) if j >= len(exp) or got[j] != exp[j]), 0)
        prev = [QUERIES[q][0] + "@%d" % k for q, k in c["hist"][:bad]]
        sig = {"family": "embed", "query": QUERIES[c["hist"][bad][0]][0], "consumed": str(c["hist"][bad][1]),
               "after": " ".join(prev[-2:]), "impl": got[bad] if bad < len(got) else "", "fresh": exp[bad] if bad < len(exp) else "",
               "impl_raw": impl.get("%s_%d" % (cid, bad), "missing")[:200]}
        if got_s != sp:
            findings.append(core.Finding("violation", sig, "a query in a history on one Machine does not deliver the prefix of the answers it gives on a fresh Machine", cc))
        else:
            findings.append(core.Finding("disagreement", sig, "the protocol model (Model/Embed.lean) differs from implementation and specification", cc))
    # oracle 2: bindings equal to findall inside Prolog
    f_ok = 0
    for qi, (q, vs) in enumerate(QUERIES):
        if not vs:
            continue
        fa = base.get("b_f%d" % qi, "missing")
        n_ans = len([it for it in streams[qi] if it.startswith("A")])
        m = re.search(r"Len=(\d+)\}$", fa)
        if m is None:
            findings.append(core.Finding("violation", {"family": "embed-findall", "query": q, "impl": fa},
                                         "findall/3 cross-check did not return a list", {"query": q}))
            continue
        cnt = int(m.group(1))
        total += 1
        if cnt == n_ans:
            f_ok += 1
            agree += 1
        else:
            findings.append(core.Finding("violation", {"family": "embed-findall", "query": q, "answers": str(n_ans), "findall": str(cnt)},
                                         "run_query delivers a different number of answers than findall/3 collects inside Prolog", {"query": q}))
    return {
        "evaluations": total,
        "distinct_nontrivial": len(distinct),
        "rule": "histories of 2-7 queries from a %d-query vocabulary (deterministic, nondeterministic, failing, throwing early/late, residual constraints) on one Machine, each consumed to a random prefix (0, 1, 2, all, all+1) and dropped; each query's stand-alone stream comes from a fresh Machine; non-trivial = at least two different queries and a non-empty prefix; distinct by (query, prefix) sequence" % len(QUERIES),
        "samples": [[(QUERIES[q][0], k) for q, k in c["hist"]] for c in cases[:3]],
        "traces_validated_against_impl": agree,
        "disagreements_checked": total - agree,
        "histories_sensitive_to_ball_clearing": stale_sensitive,
        "findall_crosschecks_ok": f_ok,
        "findings": findings,
    }
