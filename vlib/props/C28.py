"""C28 — Embedded queries return faithful answers across a query history.

Histories of queries on ONE Machine (each consumed to a prefix of k items, then the iterator is dropped)
are compared with
  O1  the same query on a FRESH Machine holding the same database (the property's own oracle),
  O2  findall/3 inside Prolog on a fresh Machine with the same database (bindings),
  O3  the protocol model (Model/Embed.lean, `runHistory Cfg.repaired`), which Props/C28.lean proves equal
      to the specification `specHistory` for every history.
Queries: (a) a vocabulary of database-independent queries whose stand-alone stream is taken from a fresh
Machine, (b) templates over a dynamic predicate f/1 (assertz/asserta/retract/retractall, enumeration with
side effects, throwing after side effects) whose or-tree the model computes from the database.
"""
import re
import time
from .. import core, diff

LEVEL = "proof"
TRUSTED_BASE = [
    "Model/Embed.lean abstracts the WAM search of one query to an or-tree (fail / answer / uncaught throw / push choice point / database update) and mirrors run_query / QueryState::next / Drop and the shared choice-point stack, ball and database around it; heap, trail, registers are not modelled",
    "Tpl.sem (Model/Embed.lean) + render() (vlib/props/C28.py): or-trees of the f/1 query templates, incl. which answers leave a choice point (last clause / last list element is deterministic); validated per (query, database) against a fresh Machine in every run",
    "database-independent queries: their or-tree is a try-chain reconstructed from their stream on a fresh Machine",
    "the database after a PARTIALLY consumed query is predicted by the model (observed through later snapshot queries in the same history)",
    "sv-harness `Q` line: max_answers=k asks for at most k items then drops the iterator; k=0 drops it unasked",
]
ASSUMPTIONS = [
    "database-independent vocabulary queries have no side effects on the database, flags or streams",
    "a fresh Machine plus consult_module_string of `:- dynamic(f/1).` and facts is 'a fresh Machine given the same database'",
]

# ---------------------------------------------------------------- vocabulary (database independent)
# (query text, findall template variables or None)
PURE = [
    ("X = 1.", "X"), ("X is 2+3.", "X"), ("true.", ""), ("atom_length(abc, N).", "N"),
    ("X = f(Y, \"str\", [1,2|T]).", "X,Y,T"),
    ("member(X, [a,b,c]).", "X"), ("(X = 1 ; X = 2).", "X"), ("between(1, 3, X).", "X"),
    ("(X = 1 ; X = 2), (Y = a ; Y = b).", "X,Y"), ("append(X, Y, [1,2]).", "X,Y"),
    ("member(X, [1,2,3]), X > 1.", "X"), ("member(X, [1,2,3]), X < 3.", "X"), ("length(L, N), N >= 2, !.", "L,N"),
    ("fail.", ""), ("1 = 2.", ""), ("member(x, [a]).", ""), ("\\+ true.", ""),
    ("throw(e).", ""), ("throw(f(X, 1)).", None), ("X is foo + 1.", "X"), ("atom_length(X, Y).", "X,Y"),
    ("(X = 1 ; throw(oops)).", "X"), ("(X = 1 ; X = 2 ; throw(late)).", "X"), ("member(X, [1,2]), X > 1, throw(found(X)).", "X"),
    ("catch(throw(a), _, true).", None), ("catch(member(X,[1,2]), _, true).", None),
    ("dif(X, a).", None), ("X = \"abc\", atom_chars(A, X).", "X,A"), ("X is 2 ** 100.", "X"),
    ("findall(Y, member(Y,[1,2,3]), L).", "L"), ("select(X, [1,2,3], R).", "X,R"), ("nth0(I, [a,b], E).", "I,E"),
    ("atom(a), !.", ""), ("(member(X,[1,2,3]), X >= 2 -> true ; X = none).", "X"),
    ("call_with_inference_limit(member(X,[1,2]), 1000, R).", "X,R"),
    ("setof(X, member(X,[c,a,b]), L).", "X,L"), ("bagof(X-Y, member(X-Y,[1-a,2-b]), L).", "L"),
    ("sort([c,a,b,a], L).", "L"), ("number_chars(N, \"42\").", "N"), ("sub_atom(abc, B, 1, A, S).", "B,A,S"),
    ("member(X, [1,2,3]), member(Y, [a,b]), X >= 2.", "X,Y"), ("between(1, 4, X), X mod 2 =:= 0.", "X"),
    ("catch((member(X,[1,2,3]), X >= 2, throw(t(X))), t(Y), true).", "X,Y"),
    # variable-free queries with several solutions (the `LeafAnswer::True` branch of next)
    ("(true ; true).", ""), ("member(a, [a,b,a]).", ""), ("(true ; fail).", ""), ("(true ; throw(x)).", ""),
    ("member(a, [a,b,a,c]).", ""),
]
PRE = ["use_module(library(lists)).", "use_module(library(between)).", "use_module(library(dif)).", "use_module(library(iso_ext))."]
# no query of this check runs long; under heavy machine load the default 10 s harness watchdog fired inside the
# bootstrap of a fresh Machine (panics in load_top_level / corrupted library state) — give it a minute instead
ENV = {"SV_TIMEOUT_MS": "60000"}
FULL = 60   # "ask until None" (no stream in the check has more items)


def ilist(xs):
    return "[" + ",".join(str(x) for x in xs) + "]"


def render(q):
    """query (JSON-able list) -> Prolog text. MUST match Tpl.sem in Model/Embed.lean."""
    t = q[0]
    if t == "pure":
        return PURE[q[1]][0]
    a = q[1:]
    return {
        "enum": lambda: "f(X).",
        "addz": lambda: "assertz(f(%d))." % a[0],
        "adda": lambda: "asserta(f(%d))." % a[0],
        "retr": lambda: "retract(f(X)).",
        "retrGt": lambda: "retract(f(X)), X > %d." % a[0],
        "enumAdd": lambda: "f(X), Y is X+%d, assertz(f(Y))." % a[0],
        "enumAddLt": lambda: "f(X), Y is X+%d, assertz(f(Y)), X < %d." % (a[0], a[1]),
        "enumThrow": lambda: "f(X), ( X >= %d -> throw(hit(X)) ; true )." % a[0],
        "addThrow": lambda: "assertz(f(%d)), throw(oops(%d))." % (a[0], a[0]),
        "enumOrThrow": lambda: "( f(X) ; throw(late) ).",
        "membAdd": lambda: "member(X, %s), assertz(f(X))." % ilist(a[0]),
        "pairs": lambda: "member(X, %s), member(Y, %s)." % (ilist(a[0]), ilist(a[1])),
        "pairsAdd": lambda: "member(X, %s), member(Y, %s), Z is X*10+Y, assertz(f(Z))." % (ilist(a[0]), ilist(a[1])),
        "snap": lambda: "findall(X, f(X), L).",
        "clear": lambda: "retractall(f(_)).",
        "has": lambda: "( f(%d) -> R = yes ; R = no )." % a[0],
        "retrThrow": lambda: "retract(f(X)), X >= %d, throw(got(X))." % a[0],
    }[t]()


TVARS = {"enum": "X", "addz": "", "adda": "", "retr": "X", "retrGt": "X", "enumAdd": "X,Y", "enumAddLt": "X,Y",
         "enumThrow": "X", "addThrow": "", "enumOrThrow": "X", "membAdd": "X", "pairs": "X,Y", "pairsAdd": "X,Y,Z",
         "snap": "L", "clear": "", "has": "R", "retrThrow": ""}


def qvars(q):
    return PURE[q[1]][1] if q[0] == "pure" else TVARS[q[0]]


def csv(xs):
    return ",".join(str(x) for x in xs) if xs else "-"


def qkey(q):
    return repr(q)


class Voc:
    """stand-alone streams of the database-independent vocabulary (from fresh Machines) as model scripts."""

    def __init__(self):
        cases = []
        for qi, (q, _vs) in enumerate(PURE):
            cases.append(["R\tb_r%d" % qi] + ["Q\tb_p%d_%d\t1\t%s" % (qi, j, p) for j, p in enumerate(PRE)]
                         + ["Q\tb_q%d\t%d\t%s" % (qi, FULL, q)])
        res = core.run_impl_parallel(cases, env=ENV)
        self.retried, self.failing = run_robust(cases, res)
        self.stream = {qi: items_of(res.get("b_q%d" % qi, "missing")) for qi in range(len(PURE))}
        self.tok = {}
        self.enc = {}
        for qi, items in self.stream.items():
            answers, end = [], "det"
            for it in items:
                if it == "false":
                    end = "fails"
                    break
                if it.startswith("exception(") or it.startswith("error("):
                    self.tok[(qi, it)] = "q%de" % qi
                    end = "throws=q%de" % qi
                    break
                if (qi, it) not in self.tok:
                    self.tok[(qi, it)] = "q%dn%d" % (qi, len(answers))
                answers.append(self.tok[(qi, it)])
            if not answers and end == "det":
                end = "fails"
            self.enc[qi] = " ".join(["pure", end] + answers)

    def tokens(self, qi, items):
        return [it if it == "false" else self.tok.get((qi, it), it) for it in items]


RETRY_REASONS = []


def setup_problem(lines, res, setup_only=False):
    """Reasons to re-run a case: a line timed out / is missing / the process aborted / a Rust panic was reported
    (under heavy machine load the 10 s harness watchdog can fire inside `use_module`, and thread or process
    creation can fail with EAGAIN), or a set-up line (library import / consult) did not succeed, after which
    the case's queries would run without their libraries. Genuine panics are deterministic and survive the
    re-runs; they are then judged like any other result."""
    for l in lines:
        i = core.line_id(l)
        r = res.get(i, "missing")
        is_setup = (l.startswith("Q\t") and re.search(r"_p\d+(_\d+)?$", i)) or l.startswith("L\t") or l.startswith("R\t")
        if not setup_only and (r in ("timeout", "missing") or r.startswith("abort(") or r.startswith("panic(") or r.startswith("skipped(")):
            return "%s: %s" % (i, r[:80])
        if is_setup:
            want = "true" if l.startswith("Q\t") else ("loaded" if l.startswith("L\t") else "reset")
            if not r.startswith(want):
                return "%s: %s" % (i, r[:80])
    return None


def run_robust(cases, res):
    """re-run (sequentially, up to twice) the cases with a problem (see setup_problem); returns
    (number of re-runs, [(case, problem)] whose SET-UP still fails)."""
    retried, failing = 0, []
    for c in cases:
        lines = c["impl"] if isinstance(c, dict) else c
        prob = setup_problem(lines, res)
        n = 0
        while prob and n < 2:
            RETRY_REASONS.append(prob)
            res.update(core.run_impl(lines, env=ENV))
            retried += 1
            n += 1
            prob = setup_problem(lines, res)
        prob = setup_problem(lines, res, setup_only=True)
        if prob:
            failing.append((c, prob))
    return retried, failing


def items_of(result):
    return [a for a in result.split(" ;; ") if a != "..."] if result else []


def enc(q, voc):
    if q[0] == "pure":
        return voc.enc[q[1]]
    return " ".join([q[0]] + [csv(x) if isinstance(x, list) else str(x) for x in q[1:]])


def hist_enc(hist, voc):
    return "|".join("%d:%s" % (k, enc(q, voc)) for q, k in hist)


def setup_lines(cid, db, pre=PRE):
    """a fresh Machine holding the database `db` (the libraries the queries need are loaded first)."""
    prog = ":- dynamic(f/1).\\n" + "".join("f(%d).\\n" % v for v in db)
    return ["R\t%s_r" % cid] + ["Q\t%s_p%d\t1\t%s" % (cid, j, p) for j, p in enumerate(pre)] + ["L\t%s_l\tuser\t%s" % (cid, prog)]


# ---------------------------------------------------------------- generator
def gen_query(rng):
    r = rng.random()
    if r < 0.30:
        return ["pure", rng.randrange(len(PURE))]
    n = lambda: rng.choice([0, 1, 2, 3, 4, 5, 7, 9, -1])
    small = lambda: [rng.randint(0, 9) for _ in range(rng.choice([0, 1, 2, 2, 3]))]
    t = rng.choice(["enum", "enum", "addz", "adda", "retr", "retr", "retrGt", "enumAdd", "enumAdd", "enumAddLt", "enumThrow",
                    "addThrow", "enumOrThrow", "membAdd", "pairs", "pairs", "pairsAdd", "snap", "clear", "has", "retrThrow"])
    if t in ("enum", "retr", "enumOrThrow", "snap", "clear"):
        return [t]
    if t in ("addz", "adda", "retrGt", "enumThrow", "addThrow", "has", "retrThrow"):
        return [t, n()]
    if t == "enumAdd":
        return [t, rng.choice([1, 10, 10, 20])]
    if t == "enumAddLt":
        return [t, rng.choice([1, 10]), n()]
    if t == "membAdd":
        return [t, small()]
    return [t, small(), small()]      # pairs, pairsAdd


def gen_history(rng, voc):
    db0 = [rng.randint(0, 9) for _ in range(rng.choice([0, 1, 2, 3, 3, 4]))]
    hist = []
    for _ in range(rng.randint(2, 8)):
        q = gen_query(rng)
        if q[0] == "pure":
            full = len(voc.stream[q[1]])
            k = rng.choice([0, 1, 1, 2, full, full + 1, rng.randint(0, full + 1)])
        else:
            k = rng.choice([0, 1, 1, 2, 2, 3, 4, FULL, FULL, rng.randint(0, 6)])
        hist.append([q, k])
        if rng.random() < 0.25:
            hist.append([["snap"], FULL])
    hist.append([["snap"], FULL])
    return db0, hist


# regression histories for the two repaired defects and the boundaries the proofs single out
FIXED = [
    ([1, 2], [[["pure", 17], 1], [["pure", 0], 1], [["snap"], FULL]]),                       # throw, then a plain query (stale ball)
    ([1, 2], [[["addThrow", 5], FULL], [["enum"], FULL], [["enumThrow", 2], FULL], [["addz", 3], 1], [["snap"], FULL]]),
    ([1, 2, 3], [[["pairs", [1, 2], [3, 4]], 1], [["pure", 0], 1], [["enum"], FULL], [["snap"], FULL]]),  # two choice points left at drop
    ([1, 2, 3], [[["enum"], 1], [["retr"], 2], [["enumAdd", 10], 1], [["enum"], 0], [["addz", 8], 0], [["snap"], FULL]]),
    ([3, 1], [[["enumAddLt", 10, 2], 1], [["snap"], FULL], [["enumAddLt", 10, 2], 2], [["snap"], FULL], [["enumAddLt", 10, 2], FULL], [["snap"], FULL]]),
    ([], [[["enum"], FULL], [["retr"], 1], [["enumOrThrow"], FULL], [["pure", 13], 1], [["pure", 13], 2], [["snap"], FULL]]),
]


# ---------------------------------------------------------------- findall oracle helpers
def strip_quoted(s):
    return re.sub(r"'(?:[^'\\]|\\.)*'|\"(?:[^\"\\]|\\.)*\"", "q", s)


def split_top(s):
    out, depth, cur, inq = [], 0, "", None
    i = 0
    while i < len(s):
        c = s[i]
        if inq:
            cur += c
            if c == "\\" and i + 1 < len(s):
                cur += s[i + 1]
                i += 1
            elif c == inq:
                inq = None
        elif c in "'\"":
            inq = c
            cur += c
        elif c in "([{":
            depth += 1
            cur += c
        elif c in ")]}":
            depth -= 1
            cur += c
        elif c == "," and depth == 0:
            out.append(cur)
            cur = ""
        else:
            cur += c
        i += 1
    if cur:
        out.append(cur)
    return out


def findall_expect(vs, answers):
    """the text of `L` in findall(v(Vs…), Q, L) that the answers of run_query imply, or None when an answer
    leaves a variable unbound / contains variables (then only the number of answers is compared)."""
    names = [v for v in vs.split(",") if v]
    els = []
    for a in answers:
        if a == "true" or a == "{}":
            b = {}
        elif a.startswith("{") and a.endswith("}"):
            b = {}
            for part in split_top(a[1:-1]):
                n, _, v = part.partition("=")
                b[n] = v
        else:
            return None
        if set(b) != set(names):
            return None
        if any(re.search(r"(?<![\w])[A-Z_]\w*", strip_quoted(v)) for v in b.values()):
            return None
        els.append("'vv'(%s)" % ",".join(b[n] for n in names) if names else "'vv'")
    return "[" + ",".join(els) + "]"


# ---------------------------------------------------------------- run
def run(ctx):
    rng, tier = ctx["rng"], ctx["tier"]
    rep = diff.replay_case(ctx)
    del RETRY_REASONS[:]
    t0 = time.time()
    voc = Voc()
    t1 = time.time()
    findings = []

    # ---- histories
    hs = []
    if rep is not None:
        for c in rep:
            hs.append((c["db0"], c["hist"]))
    else:
        for c in diff.load_corpus("C28"):
            if "hist" in c and "db0" in c:
                hs.append((c["db0"], c["hist"]))
        hs += [(d, h) for d, h in FIXED]
        n = 55 if tier == "quick" else 400
        for _ in range(n):
            hs.append(gen_history(rng, voc))

    # ---- model pass: specification (gives the database before every query), repaired model, pre-repair models
    mlines = []
    for i, (db0, hist) in enumerate(hs):
        he = hist_enc(hist, voc)
        mlines += ["spec\th%d_s\t%s\t%s" % (i, csv(db0), he), "hist\th%d_m\t1\t1\t%s\t%s" % (i, csv(db0), he),
                   "hist\th%d_nb\t0\t1\t%s\t%s" % (i, csv(db0), he), "hist\th%d_nd\t1\t0\t%s\t%s" % (i, csv(db0), he)]
    model = core.run_model(mlines)

    spec_items, db_before = {}, {}
    for i, (db0, hist) in enumerate(hs):
        s = model.get("h%d_s" % i, "bad-op")
        if s == "bad-op":
            raise RuntimeError("model driver rejected history %r" % (hist,))
        body = s.rsplit(" # ", 1)[0]
        cur = list(db0)
        for j, part in enumerate(body.split(" | ")):
            its, _, dbt = part.rpartition(" @ ")
            spec_items[(i, j)] = [x for x in its.split(" ;; ") if x != ""]
            db_before[(i, j)] = cur
            cur = [int(x) for x in dbt.strip()[1:-1].split(",") if x != ""]

    # ---- isolated runs on fresh machines for every distinct (template query, database): O1 + O2
    iso = {}
    for i, (db0, hist) in enumerate(hs):
        for j, (q, k) in enumerate(hist):
            if q[0] != "pure":
                iso.setdefault((qkey(q), tuple(db_before[(i, j)])), q)
    iso_keys = sorted(iso, key=repr)
    # O2 on a sample of the pairs (each needs one more fresh machine)
    fa_max = 50 if tier == "quick" else 600
    fa_keys = set(iso_keys) if len(iso_keys) <= fa_max or rep is not None else set(rng.sample(iso_keys, fa_max))
    cases, iso_model = [], []
    for n_, key in enumerate(iso_keys):
        q, db = iso[key], list(key[1])
        cid = "i%d" % n_
        text = render(q)
        vs = qvars(q)
        tmpl = "vv(%s)" % vs if vs else "vv"
        cases.append({"id": cid, "impl": setup_lines(cid, db, PRE[:1]) + ["Q\t%s_q\t%d\t%s" % (cid, FULL, text), "Q\t%s_d\t2\tfindall(X, f(X), L)." % cid]})
        if key in fa_keys:
            cases.append({"id": cid + "f", "impl": setup_lines(cid + "f", db, PRE[:1]) + ["Q\t%s_f\t3\tfindall(%s, (%s), L)." % (cid, tmpl, text[:-1])]})
        iso_model.append("spec\t%s_s\t%s\t%d:%s" % (cid, csv(db), FULL, enc(q, voc)))
    # the vocabulary's findall cross-check (database independent)
    for qi, (text, vs) in enumerate(PURE):
        if vs is None:
            continue
        tmpl = "vv(%s)" % vs if vs else "vv"
        cases.append({"id": "pf%d" % qi, "impl": setup_lines("pf%d" % qi, []) + ["Q\tpf%d_f\t3\tfindall(%s, (%s), L)." % (qi, tmpl, text[:-1])]})
    # ---- the histories themselves on ONE machine each
    for i, (db0, hist) in enumerate(hs):
        cid = "h%d" % i
        cases.append({"id": cid, "impl": setup_lines(cid, db0) + ["Q\t%s_%d\t%d\t%s" % (cid, j, k, render(q)) for j, (q, k) in enumerate(hist)]})
    t2 = time.time()
    impl, _ = diff.run_cases(cases, impl_env=ENV)
    t3 = time.time()
    retried, failing = run_robust(cases, impl)
    retried += voc.retried
    for c, prob in failing + [({"impl": c}, prob) for c, prob in voc.failing]:
        findings.append(core.Finding("disagreement", {"family": "embed-setup", "problem": prob},
                                     "setting up a fresh Machine (library import / consult of the f/1 facts) failed three times", {"lines": c["impl"][:12]}))
    iso_spec = core.run_model(iso_model) if iso_model else {}

    total = agree = 0
    f_exact = f_count = 0
    iso_stream = {}
    iso_bad = set()

    def check_findall(label, text, vs, stream, fres, case):
        """O2: findall/3 inside Prolog against the run_query stream."""
        nonlocal f_exact, f_count
        answers = [s for s in stream if s != "false" and not s.startswith("exception(") and not s.startswith("error(")]
        exc = [s for s in stream if s.startswith("exception(") or s.startswith("error(")]
        fit = items_of(fres)
        if exc:
            ok = fit == exc
            want = exc[0]
        else:
            exp = findall_expect(vs, answers)
            if exp is not None:
                ok = fit == ["{L=%s}" % exp]
                want = "{L=%s}" % exp
                f_exact += ok
            else:
                m = re.match(r"^\{L=(.*)\}$", fit[0]) if len(fit) == 1 else None
                cnt = None
                if m:
                    inner = m.group(1)
                    cnt = 0 if inner == "[]" else (len(split_top(inner[1:-1])) if inner.startswith("[") else None)
                ok = cnt == len(answers)
                want = "a list of %d solutions" % len(answers)
                f_count += ok
        if not ok:
            findings.append(core.Finding("violation", {"family": "embed-findall", "query": text, "db": label, "run_query": " ;; ".join(stream)[:200],
                                                       "findall": fres[:200]},
                                         "run_query delivers other solutions/bindings than findall/3 collects inside Prolog (expected %s)" % want, case))
        return ok

    for n_, key in enumerate(iso_keys):
        q, db = iso[key], list(key[1])
        cid = "i%d" % n_
        text = render(q)
        stream = items_of(impl.get(cid + "_q", "missing"))
        iso_stream[key] = stream
        sp = iso_spec.get(cid + "_s", "missing").rsplit(" # ", 1)
        sp_items = [x for x in sp[0].rpartition(" @ ")[0].split(" ;; ") if x != ""]
        sp_db = "{L=%s}" % (sp[1] if len(sp) > 1 else "?")
        case = {"db0": db, "hist": [[q, FULL], [["snap"], FULL]]}
        total += 1
        if stream != sp_items or items_of(impl.get(cid + "_d", "missing")) != [sp_db]:
            iso_bad.add(key)
            findings.append(core.Finding("disagreement", {"family": "embed-template", "query": text, "db": csv(db), "impl": " ;; ".join(stream)[:200],
                                                          "model": " ;; ".join(sp_items)[:200], "impl_db": impl.get(cid + "_d", "missing")[:80], "model_db": sp_db[:80]},
                                         "on a FRESH machine the query's stream / final database differs from the or-tree the model assigns to the template", case))
            continue
        if key not in fa_keys or check_findall(csv(db), text, qvars(q), stream, impl.get(cid + "_f", "missing"), case):
            agree += 1
    for qi, (text, vs) in enumerate(PURE):
        if vs is None:
            continue
        total += 1
        if check_findall("-", text, vs, voc.stream[qi], impl.get("pf%d_f" % qi, "missing"), {"db0": [], "hist": [[["pure", qi], FULL]]}):
            agree += 1

    distinct = set()
    sens_ball = sens_drop = 0
    kinds = {}
    samples = []
    for i, (db0, hist) in enumerate(hs):
        cid = "h%d" % i
        case = {"id": cid, "db0": db0, "hist": hist, "queries": [render(q) for q, _ in hist]}
        total += 1
        m_rep = model.get(cid + "_m", "missing")
        sp_all = " | ".join(" ;; ".join(spec_items[(i, j)]) for j in range(len(hist)))
        if m_rep.split(" # ")[0] != sp_all or not m_rep.endswith("depth=0 ball=0"):
            findings.append(core.Finding("disagreement", {"family": "embed-model", "hist": hist_enc(hist, voc)[:300]},
                                         "compiled model and specification differ (contradicts C28_history_faithful)", case))
            continue
        if model.get(cid + "_nb", "").split(" # ")[0] != sp_all:
            sens_ball += 1
        nd = model.get(cid + "_nd", "")
        if nd.split(" # ")[0] != sp_all or not nd.endswith("depth=0 ball=0"):
            sens_drop += 1
        for q, k in hist:
            kinds[q[0]] = kinds.get(q[0], 0) + 1
        if len(set(qkey(q) for q, _ in hist)) > 2 and any(k not in (0, FULL) for _, k in hist):
            distinct.add(repr(hist))
        if len(samples) < 3 and i >= len(FIXED):
            samples.append({"db0": db0, "history": [[render(q), k] for q, k in hist]})
        bad = None
        for j, (q, k) in enumerate(hist):
            got = items_of(impl.get("%s_%d" % (cid, j), "missing"))
            if q[0] == "pure":
                got_c = voc.tokens(q[1], got)
                fresh = voc.tokens(q[1], voc.stream[q[1]])[:k]
            else:
                got_c = got
                key = (qkey(q), tuple(db_before[(i, j)]))
                fresh = iso_stream.get(key, ["missing"])[:k]
                if key in iso_bad:
                    fresh = None      # the template model is off for this (query, db): already reported
            want = spec_items[(i, j)]
            if fresh is not None and got_c != fresh:
                bad = (j, "fresh-machine", got, fresh)
                break
            if got_c != want:
                bad = (j, "model", got, want)
                break
        if rep is not None:
            print("replay db0=%s history=%s\n impl : %s\n spec : %s" % (db0, [[render(q), k] for q, k in hist],
                  " | ".join(impl.get("%s_%d" % (cid, j), "missing") for j in range(len(hist))), sp_all))
        if bad is None:
            agree += 1
            continue
        j, which, got, want = bad
        q, k = hist[j]
        prev = ["%s@%d" % (render(qq), kk) for qq, kk in hist[:j]]
        sig = {"family": "embed", "oracle": which, "query": render(q), "consumed": str(k), "after": " ".join(prev[-2:])[:160],
               "impl": " ;; ".join(got)[:160], "expected": " ;; ".join(want)[:160]}
        if which == "fresh-machine":
            findings.append(core.Finding("violation", sig, "a query in a history on one Machine does not deliver the prefix of the items it delivers on a fresh Machine with the same database", case))
        elif q[0] == "snap":
            findings.append(core.Finding("violation", sig, "the database after the preceding (partially consumed) queries is not the one the stand-alone course of those queries reaches after the same number of items", case))
        else:
            findings.append(core.Finding("disagreement", sig, "the protocol model (Model/Embed.lean) differs from the implementation", case))

    return {
        "evaluations": total,
        "distinct_nontrivial": len(distinct),
        "rule": "histories of 2-8 queries (+ database snapshots) on one Machine: %d database-independent queries (deterministic, nondeterministic, failing, throwing early/late, residual constraints) and 17 templates over a dynamic f/1 (assertz/asserta/retract/retractall, enumeration with side effects, throw after side effects); each query consumed to k items (0, 1, 2, …, all, all+1) and dropped; every (template, database) pair is also run on a fresh Machine and through findall/3; non-trivial = more than two different queries and at least one partial consumption; distinct by the whole history" % len(PURE),
        "samples": samples,
        "traces_validated_against_impl": agree,
        "disagreements_checked": total - agree,
        "histories": len(hs),
        "isolated_runs": len(iso_keys),
        "findall_exact": f_exact,
        "findall_count_only": f_count,
        "histories_sensitive_to_ball_clearing": sens_ball,
        "histories_sensitive_to_drop_discard": sens_drop,
        "query_kinds": kinds,
        "retried": retried,
        "retry_reasons": RETRY_REASONS[:10],
        "phase_seconds": {"vocabulary": round(t1 - t0, 1), "model": round(t2 - t1, 1), "implementation": round(t3 - t2, 1), "impl_lines": sum(len(c["impl"]) for c in cases)},
        "findings": findings,
    }
