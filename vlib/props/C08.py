"""C08 — Static, dynamic and meta-called code give the same answers.

The same abstract clause list (generator of C07) is presented to the implementation in five ways, under
five different sets of predicate names so that all live in one machine:
  S  consulted as static text, clauses of each predicate contiguous (the C07 configuration)
  P  consulted in discontiguous pieces: the clauses of different predicates interleaved at random (the
     relative order of the clauses of one predicate is kept), with `:- discontiguous` directives
  D  `:- dynamic` + one `assertz/1` per clause, in order
  C  static, every body goal without a cut at its control level wrapped in call/1
  M  a vanilla meta-interpreter over clause/2 running on the D database (only for programs without cut,
     where it is exact: theorem-free configuration, see notes/design/C08.md)
The property's own oracle is cross-configuration equality of the answer sequences (answers, order,
multiplicity, ball); in addition S is compared with the reference interpreter `Scryer.Solve.solve`
(drv_C08 = the C07 driver). Queries where the static code itself deviates from the reference (the C07
defects) are counted and left to C07.
"""
import os
import re
import time

from .. import core, diff
from . import C07
from .C07 import S, V, A, I, TRUE, conj, pl, canon, term_vars

LEVEL = "proof"
TRUSTED_BASE = [
    "the generator, renderer, runners and answer canonicaliser of vlib/props/C07.py",
    "Scryer.Solve.solve as the reference semantics; a program is a clause list, so the loading mode is not a parameter of the model: C08_static_eq_dynamic / C08_presentation_invariant state that the model's answers depend only on the per-predicate clause sequences",
    "the meta-interpreter configuration is tied to the others only by the differential run (no theorem about a meta-interpreter inside the model)",
]
ASSUMPTIONS = [
    "programs in the C07 space; queries undecided by the reference (fuel, cyclic terms) are dropped",
    "configuration M only for programs without cut and without calls to undefined predicates through variables",
    "queries whose STATIC answers already differ from the reference are left to C07 (counted as static_deviates_from_reference)",
]

CONFIGS = ["S", "P", "D", "C", "M"]


def rename_suffix(t, old, new):
    """functor / atom names ending in `_<old>` get `_<new>` instead."""
    k = t[0]
    if k == 's':
        f = t[1][:-len(old)] + new if t[1].endswith("_" + old) else t[1]
        return ('s', f, [rename_suffix(a, old, new) for a in t[2]])
    if k == 'a' and t[1].endswith("_" + old):
        return A(t[1][:-len(old)] + new)
    return t


def rename_vars(t, sfx):
    k = t[0]
    if k == 'v':
        return V(t[1] + sfx)
    if k == 's':
        return ('s', t[1], [rename_vars(a, sfx) for a in t[2]])
    return t


def has_cut_anywhere(t):
    if t == C07.CUT:
        return True
    return t[0] == 's' and any(has_cut_anywhere(a) for a in t[2])


def pred_key(h):
    return (h[1], len(h[2]) if h[0] == 's' else 0)


def exports_cut(t):
    """can running t cut the enclosing clause? a cut at the control level, not counting the conditions
    of if-then(-else), where a cut is local (ISO 7.8.8)."""
    if t == C07.CUT:
        return True
    if t[0] == 's' and len(t[2]) == 2:
        if t[1] in (',', ';'):
            return exports_cut(t[2][0]) or exports_cut(t[2][1])
        if t[1] == '->':
            return exports_cut(t[2][1])
    return False


def has_control_var(t):
    """a variable at the control level of t: `(V ; G)` in a clause body means `(call(V) ; G)`, but
    call((V ; G)) converts the body when V is bound — to an if-then-else if V = (C -> T), to a real cut
    if V = ! — so wrapping such a goal in call/1 is not an identity."""
    if t[0] == 'v':
        return True
    if t[0] == 's' and t[1] in (',', ';', '->') and len(t[2]) == 2:
        return has_control_var(t[2][0]) or has_control_var(t[2][1])
    return False


def wrap_calls(b):
    """every conjunct of the body's top-level conjunction that cannot cut the clause => call(G)."""
    if b[0] == 's' and b[1] == ',' and len(b[2]) == 2:
        return S(',', wrap_calls(b[2][0]), wrap_calls(b[2][1]))
    if b == TRUE or exports_cut(b) or has_control_var(b):
        return b
    return S('call', b)


BUILTINS = (["=", "\\=", "==", "\\==", "is", "functor", "arg"] + C07.TYPE_TESTS + C07.CMPS)


def mi_clauses(cid, keys):
    """vanilla meta-interpreter mi_<cid>/1 over clause/2 for the cut-free fragment."""
    m = "mi_" + cid
    G, Ax, B, C_, T, E, L, N, Ar, H, R = [V(x) for x in "G Ax B C T E L N Ar H R".split()]
    mi = lambda g: S(m, g)
    cs = [
        (mi(G), conj([S('var', G), C07.CUT, S('throw', S('error', A('instantiation_error'), A('mi')))])),
        (mi(TRUE), C07.CUT),
        (mi(A('fail')), conj([C07.CUT, A('fail')])),
        (mi(A('false')), conj([C07.CUT, A('fail')])),
        (mi(S(',', Ax, B)), conj([C07.CUT, mi(Ax), mi(B)])),
        (mi(S(';', S('->', C_, T), E)), conj([C07.CUT, S(';', S('->', mi(C_), mi(T)), mi(E))])),
        (mi(S(';', Ax, B)), conj([C07.CUT, S(';', mi(Ax), mi(B))])),
        (mi(S('->', C_, T)), conj([C07.CUT, S('->', mi(C_), mi(T))])),
        (mi(S('\\+', G)), conj([C07.CUT, S('\\+', mi(G))])),
        (mi(S('once', G)), conj([C07.CUT, S('once', mi(G))])),
        (mi(S('call', G)), conj([C07.CUT, mi(G)])),
        (mi(S('findall', T, G, L)), conj([C07.CUT, S('findall', T, mi(G), L)])),
        (mi(S('catch', G, C_, R)), conj([C07.CUT, S('catch', mi(G), C_, mi(R))])),
        (mi(S('throw', B)), conj([C07.CUT, S('throw', B)])),
        (mi(G), conj([S('functor', G, N, Ar), S('bi_' + cid, N, Ar), C07.CUT, S('call', G)])),
        (mi(H), conj([S('functor', H, N, Ar), S(';', S('->', S('def_' + cid, N, Ar), conj([S('clause', H, B), mi(B)])),
                                                  S('throw', S('error', S('existence_error', A('procedure'), S('/', N, Ar)), A('mi'))))])),
    ]
    for b in BUILTINS:
        ar = 3 if b in ("functor", "arg") else 1 if b in C07.TYPE_TESTS else 2
        cs.append((S('bi_' + cid, A(b), I(ar)), TRUE))
    for (n, a) in keys:
        cs.append((S('def_' + cid, A(n), I(a)), TRUE))
    return cs


def mi_compatible(allc):
    """no cut, no call/N with extra arguments, no variable goals: the vanilla interpreter is exact."""
    def bad(t, goalpos):
        if t == C07.CUT:
            return True
        if t[0] == 'v':
            return goalpos
        if t[0] != 's':
            return False
        n, args = t[1], t[2]
        if n == 'call' and len(args) != 1:
            return True
        if n == 'call' and args[0][0] == 'v':
            return True
        if n in (',', ';', '->') and len(args) == 2:
            return any(bad(a, True) for a in args)
        if n in ('\\+', 'once', 'call') and len(args) == 1:
            return bad(args[0], True)
        if n == 'catch' and len(args) == 3:
            return bad(args[0], True) or bad(args[2], True) or has_cut_anywhere(args[1])
        if n == 'findall' and len(args) == 3:
            return bad(args[1], True) or has_cut_anywhere(args[0]) or has_cut_anywhere(args[2])
        return any(has_cut_anywhere(a) for a in args)      # a cut hidden in data could be called later
    return not any(bad(b, True) for _h, b in allc)


def qline(qid, head):
    return "Q\t%s\t%d\tcatch(%s,_B,true),copy_term(_R-_B,R-B)." % (qid, C07.MAXA, pl(head).replace("(R)", "(_R)"))


def esc(text):
    return text.replace("\\", "\\\\").replace("\n", "\\n")


def make_case(rng, cid, given=None):
    if given is None:
        g = C07.Gen(rng, cid)
        clauses = g.program()
        queries = g.queries(3)
    else:
        clauses, queries = given
    allc = clauses + queries
    keys = []
    for h, _b in allc:
        if pred_key(h) not in keys:
            keys.append(pred_key(h))
    impl, qids = [], {}
    use_m = mi_compatible(allc)
    configs = [c for c in CONFIGS if c != "M" or use_m]
    texts = {}
    for cf in configs:
        new = cid + cf.lower()
        ren = lambda t: rename_suffix(t, cid, new)
        cl = [(ren(h), ren(b)) for h, b in allc]
        ks = [(n[:-len(cid)] + new if n.endswith("_" + cid) else n, a) for n, a in keys]
        if cf == "S":
            text = "\n".join(C07.clause_pl(c) for c in cl)
            impl.append("L\t%s_lS\tuser\t%s" % (cid, esc(text)))
        elif cf == "P":
            # random interleaving that keeps the order within each predicate
            queues = {}
            for c in cl:
                queues.setdefault(pred_key(c[0]), []).append(c)
            order = []
            live = [k for k in queues]
            while live:
                k = rng.choice(live)
                order.append(queues[k].pop(0))
                if not queues[k]:
                    live.remove(k)
            text = "\n".join(":- discontiguous(%s/%d)." % (pl(A(n)), a) for n, a in ks) + "\n" + \
                   "\n".join(C07.clause_pl(c) for c in order)
            impl.append("L\t%s_lP\tuser\t%s" % (cid, esc(text)))
        elif cf == "C":
            text = "\n".join(C07.clause_pl((h, wrap_calls(b))) for h, b in cl)
            impl.append("L\t%s_lC\tuser\t%s" % (cid, esc(text)))
        elif cf == "D":
            text = "\n".join(":- dynamic(%s/%d)." % (pl(A(n)), a) for n, a in ks)
            impl.append("L\t%s_lD\tuser\t%s" % (cid, esc(text)))
            for j, (h, b) in enumerate(cl):
                c = S(':-', rename_vars(h, "_%d" % j), rename_vars(b, "_%d" % j)) if b != TRUE else rename_vars(h, "_%d" % j)
                t = pl(c) if b == TRUE else "(" + pl(c[2][0]) + " :- " + pl(c[2][1]) + ")"
                impl.append("Q\t%s_aD%d\t1\tassertz(%s)." % (cid, j, esc(t)))
        elif cf == "M":
            # the interpreter runs on the D database (names of configuration D)
            dnew = cid + "d"
            dks = [(n[:-len(cid)] + dnew if n.endswith("_" + cid) else n, a) for n, a in keys]
            text = "\n".join(C07.clause_pl(c) for c in mi_clauses(new, dks))
            impl.append("L\t%s_lM\tuser\t%s" % (cid, esc(text)))
        texts[cf] = text
        for k, (h, _b) in enumerate(queries):
            qid = "%s_q%d%s" % (cid, k, cf)
            qids[(k, cf)] = qid
            if cf == "M":
                dh = rename_suffix(h, cid, cid + "d")
                impl.append(qline(qid, S("mi_" + new, dh)))
            else:
                impl.append(qline(qid, ren(h)))
    prog = " ;; ".join(C07.clause_canon(c) for c in allc)
    model = ["run\t%s_q%dR\t%s\t%s\tR\t%d" % (cid, k, prog, canon(h), C07.MAXA) for k, (h, _b) in enumerate(queries)]
    return {"id": cid, "clauses": allc, "nq": len(queries), "configs": configs, "qids": {"%d%s" % k: v for k, v in qids.items()},
            "text": "\n".join(C07.clause_pl(c) for c in allc), "impl": impl, "model": model, "seed_state": None}


def directed(cid):
    """the hand-written C07 programs (cut in every position, allocator shapes, exceptions, meta-calls)
    in all presentations."""
    d = [x for x in C07.directed_cases() if x["id"] == cid][0]
    allc = d["clauses"]
    import random
    c = make_case(random.Random(7), cid, (allc[:len(allc) - d["nq"]], allc[len(allc) - d["nq"]:]))
    c["case_seed"] = 0
    return c


def run(ctx):
    rng, tier = ctx["rng"], ctx["tier"]
    t0 = time.time()
    rep = diff.replay_case(ctx)
    if rep is not None:
        import random
        cases = [directed(c["id"]) if c["case_seed"] == 0 else make_case(random.Random(c["case_seed"]), c["id"])
                 for c in rep]
        for c, r in zip(cases, rep):
            c["case_seed"] = r["case_seed"]
    else:
        n = 120 if tier == "quick" else 250
        n = int(os.environ.get("C08_N", n))
        import random
        cases = [directed(d["id"]) for d in C07.directed_cases()]
        for i in range(n):
            sd = rng.getrandbits(48)
            c = make_case(random.Random(sd), "k%d" % i)
            c["case_seed"] = sd
            cases.append(c)
    model = C07.run_model_guarded([l for c in cases for l in c["model"]])
    impl = C07.run_impl_guarded([c["impl"] for c in cases], per_line_timeout=12.0, env=C07.IMPL_ENV)
    retried = 0
    for c in cases:
        rs = [impl.get(core.line_id(l)) for l in c["impl"]]
        if any(r is None or r == "hang" or r.startswith("timeout") or r.startswith("skipped") for r in rs) \
                and retried < (8 if tier == "quick" else 20):
            retried += 1
            impl.update(C07.run_impl_guarded([c["impl"]], per_line_timeout=40.0, jobs=1, env={"SV_TIMEOUT_MS": "30000"}))
    stats = {"evaluations": 0, "agree": 0, "static_dev": 0, "undecided": 0,
             "per_config": {cf: 0 for cf in CONFIGS}, "distinct": set()}

    def judge_case(c, count):
        out = []
        loads_ok = all(impl.get("%s_l%s" % (c["id"], cf)) == "loaded" for cf in c["configs"])
        for k in range(c["nq"]):
            mres = model.get("%s_q%dR" % (c["id"], k))
            mi = C07.model_items(mres)
            if not isinstance(mi, tuple):
                if count:
                    stats["undecided"] += 1
                continue
            res = {cf: impl.get(c["qids"]["%d%s" % (k, cf)]) for cf in c["configs"]}
            items = {cf: C07.impl_items2(r) for cf, r in res.items()}
            if rep is not None and count:
                print("replay %s query %d\n%s\n  reference: %s" % (c["id"], k, c["text"], mres))
                for cf in c["configs"]:
                    print("  %s: %s" % (cf, res[cf]))
            if count:
                stats["evaluations"] += len(c["configs"])
            st, _pr = C07.judge_query(c, mres, res["S"], impl.get(c["id"] + "_lS"))
            if st in ("skip-arith", "skip-domain"):
                continue
            if st != 'agree':
                if count:
                    stats["static_dev"] += 1
                continue
            if mi[0] and count:
                stats["distinct"].add((c["text"], k))
            bad = []
            for cf in c["configs"]:
                if cf == "S":
                    if count:
                        stats["per_config"][cf] += 1
                    continue
                ok = loads_ok and items[cf] is not None and items[cf] != 'hang' and \
                    C07.compare(mi, items[cf]) is None
                if not ok and items[cf] not in (None, 'hang') and C07.out_of_domain(mi, items[cf]):
                    continue
                if ok:
                    if count:
                        stats["per_config"][cf] += 1
                else:
                    bad.append(cf)
            if not bad:
                if count:
                    stats["agree"] += 1
                continue
            sig = {"family": "modes", "configs": "S-vs-" + "".join(bad)}
            # identify the program independently of the case numbering, so that a listed finding covers
            # exactly this program and query
            import hashlib as _hl, re as _re
            sig["program"] = _hl.sha1((_re.sub(r"_[a-z]+\d+", "_N", c["text"]) + "#%d" % k).encode()).hexdigest()[:12]
            detail = "query %d of\n%s\nreference: %s\n" % (k, c["text"], mres) + \
                     "\n".join("%s: %s" % (cf, res[cf]) for cf in c["configs"])
            out.append(core.Finding("violation", sig, detail,
                                    {"id": c["id"], "case_seed": c["case_seed"], "query": k, "text": c["text"],
                                     "results": res, "reference": mres}))
        return out

    findings = []
    confirmed_reruns = 0
    for c in cases:
        fs = judge_case(c, True)
        if fs and rep is None:
            # confirmation: run the case again, alone, with long watchdogs; keep what persists
            confirmed_reruns += 1
            impl.update(C07.run_impl_guarded([c["impl"]], per_line_timeout=40.0, jobs=1, env={"SV_TIMEOUT_MS": "30000"}))
            fs = judge_case(c, False)
        for f in fs:
            if rep is not None:
                print("  PROBLEM %s" % f.sig)
            findings.append(f)
    evaluations, agree, static_dev, undecided = stats["evaluations"], stats["agree"], stats["static_dev"], stats["undecided"]
    per_config, distinct = stats["per_config"], stats["distinct"]
    return {
        "evaluations": evaluations,
        "distinct_nontrivial": len(distinct),
        "rule": "programs and queries of the C07 generator, each presented as S static, P discontiguous pieces (random interleaving of the predicates' clause sequences), D dynamic+assertz, C body goals wrapped in call/1, M vanilla meta-interpreter over clause/2 (cut-free programs only); non-trivial = the reference gives at least one answer or a ball; distinct by program text + query",
        "samples": [{"program": c["text"], "configs": c["configs"]} for c in cases[:2]],
        "traces_validated_against_impl": agree,
        "disagreements_checked": len(findings),
        "programs": len(cases),
        "queries_undecided_by_reference": undecided,
        "static_deviates_from_reference_left_to_C07": static_dev,
        "agreeing_query_runs_per_configuration": per_config,
        "cases_rerun_serially": retried,
        "cases_rerun_for_confirmation": confirmed_reruns,
        "wall_seconds": round(time.time() - t0, 1),
        "exhaustive": False,
        "findings": findings,
    }
