"""C30 — Memory exhaustion at any allocation raises a catchable error.

Tie (fault enumeration): for every workload template and every heap-growth event k = 1..K that the
unfaulted run of the template triggers (K is learned by a counting run, hook
`verif_hooks::set_grow_fault(0, _)` / `grow_fault_stats`), the template is run on a FRESH machine with
the k-th growth denied (harness op `QF`; mode `p`: that and every later growth of the query fail —
an exhausted allocator; mode `o`: only that one — a transient failure).  The goal is wrapped in
`catch/3` (four wrapper shapes).  Oracle of the statement:
  * the outcome is the caught `resource_error(memory)` — or the unfaulted answer, when the code
    tolerates the failed growth — never a panic, an abort of the process, a time-out, a failure or
    another answer / error;
  * afterwards, on the same machine and with the fault plan cleared, a fixed probe and the template
    itself give their known answers.
The model side (`drv_C30`, `Model/Fault.lean`) predicts the outcome class of every case from the
protocol machine (`exec`: op trace of the wrapper shape with K allocation events under the fault
schedule) and from `solveInj` on a reference program; the judge compares.
"""
import json
import os
import re

from .. import core, diff

LEVEL = "partial"
TRUSTED_BASE = [
    "hook patch notes/hooks/C30-repo.diff: verif_hooks::set_grow_fault / grow_fault_stats and the cfg(feature=verif) fault point at the top of InnerHeap::grow (a denied grow returns false exactly like a null realloc); harness ops QF / LF (notes/hooks/fam_c30.rs)",
    "the translation wrapper shape -> op trace for the protocol machine (vlib/props/C30.py: shape_trace) and the template programs below",
]
ASSUMPTIONS = [
    "PARTIAL: the theorems cover the control flow after the failure (a fault is an injected throw of the pre-stored ball: unwinding to the innermost matching catch/3, state restored, continuation unaffected) on the reference interpreter and the protocol machine; that every one of the ~150 AllocError propagation sites converts the failure correctly is shown by this enumeration only for the growth events the templates reach",
    "only Heap growth (InnerHeap::grow: machine heap, ball, findall's lifted heap, term-copy targets) is a fault point: allocations of the arena (big integers, rationals, streams), of the atom table, of the code area, of the and/or stack and of Rust collections (Vec/IndexMap/String) abort or panic on failure by Rust's default and are NOT covered",
    "the real allocator is replaced by the fault plan; K (number of growths) depends on the initial heap capacity of a fresh machine",
]

PROG = r"""
:- dynamic(big30/1).
:- dynamic(f30/1).
mk30(0,[]) :- !.
mk30(N,[N|T]) :- M is N-1, mk30(M,T).
len30([],N,N).
len30([_|T],A,N) :- A1 is A+1, len30(T,A1,N).
tree30(0,l) :- !.
tree30(D,n(L,R)) :- D1 is D-1, tree30(D1,L), tree30(D1,R).
dbl30(0,A,A) :- !.
dbl30(K,A0,A) :- atom_concat(A0,A0,A1), K1 is K-1, dbl30(K1,A1,A).
pairs30(0,[]) :- !.
pairs30(N,[K-N|T]) :- K is (N*7919) mod 10007, M is N-1, pairs30(M,T).
fill30([],_).
fill30([X|T],X) :- fill30(T,X).
as30(0) :- !.
as30(N) :- assertz(f30(g(N,[N,N],"abc"))), M is N-1, as30(M).
last30([X],X) :- !.
last30([_|T],X) :- last30(T,X).
sum30([],S,S).
sum30([X|T],A,S) :- A1 is A+X, sum30(T,A1,S).
probe30(N,A,X,Ys,At,C) :- mk30(50,L), len30(L,0,N), atom_length(abc,A), X is N*A, findall(Y,member(Y,[a,b]),Ys), atom_chars(At,"xyz"), copy_term(f(V,V,1),C).
add30(X,A0,A) :- A is A0+X.
mkf30(f(Y,Y)).
dig30(0,[]) :- !.
dig30(N,[C|T]) :- D is N mod 10, number_codes(D,[Cd]), char_code(C,Cd), M is N-1, dig30(M,T).
"""

USES = ["lists", "charsio", "format", "assoc", "iso_ext", "between", "dcgs"]

PROBE = "probe30(N,A,X,Ys,At,C)."
PROBE_EXPECT = "{A=3,At='xyz',C='f'(_G0,_G0,1),N=50,X=150,Ys=\"ab\"} ;; ..."

# name, goal (binds R to a small deterministic result), subsystem
TEMPLATES = [
    ("list_build", "mk30(300000,L), len30(L,0,R)", "list construction (put_list/unify_* in compiled code)"),
    ("length_var", "length(L,400000), len30(L,0,R)", "length/2 creating a list of fresh variables"),
    ("tree", "tree30(17,T), T = n(A,_), A = n(_,_), R = ok", "structure construction (put_structure)"),
    ("copy_term", "mk30(150000,L), copy_term(L,L2), len30(L2,0,R)", "copy_term/2 (copier.rs)"),
    ("copy_attr", "length(L,100000), copy_term(L,L2,Gs), len30(L2,0,R0), Gs = [], R = R0", "copy_term/3"),
    ("findall_ints", "findall(X, between(1,100000,X), L), len30(L,0,R)", "findall/3: lifted heap + copy back"),
    ("findall_terms", "findall(f(X,Y,[X,Y]), (between(1,30000,X), Y is X*2), L), len30(L,0,R)", "findall/3 with compound results"),
    ("findall4", "findall(X, between(1,100000,X), L, [z]), len30(L,0,R)", "findall/4"),
    ("setof", "setof(X, between(1,60000,X), L), len30(L,0,R)", "setof/3 (findall + sort)"),
    ("bagof", "bagof(X-Y, (between(1,30000,X), Y = a), L), len30(L,0,R)", "bagof/3"),
    ("assertz_big", "retractall(big30(_)), mk30(20000,L), assertz(big30(L)), big30(L2), len30(L2,0,R), retract(big30(_))", "assertz of a big clause, clause retrieval"),
    ("assertz_many", "retractall(f30(_)), as30(8000), findall(X, f30(X), L), len30(L,0,R), retractall(f30(_))", "many small assertz + findall over them"),
    ("atom_chars_out", "dbl30(17,abcdefgh,A), atom_chars(A,Cs), atom_length(A,R), Cs = [a|_]", "atom_chars/2 atom -> partial string"),
    ("atom_chars_in", "dbl30(17,abcdefgh,A), atom_chars(A,Cs), atom_chars(B,Cs), atom_length(B,R)", "atom_chars/2 chars -> atom"),
    ("atom_codes_out", "dbl30(15,abcdefgh,A), atom_codes(A,Cs), len30(Cs,0,R)", "atom_codes/2 (code list)"),
    ("number_chars_out", "X is 7^600000, number_chars(X,Cs), length(Cs,R)", "number_chars/2 of a bignum (arena + heap string)"),
    ("number_chars_in", "dig30(100000,Cs), number_chars(X,['1'|Cs]), R is X mod 1000", "number_chars/2 parsing a long digit list"),
    ("number_codes_out", "X is 3^300000, number_codes(X,Cs), len30(Cs,0,R)", "number_codes/2"),
    ("bignum_arith", "X is 7^300000, Y is X*X+X, R is Y mod 1000003", "big integer arithmetic (arena, not the heap)"),
    ("string_append", "dbl30(16,abcdefgh,A), atom_chars(A,Cs), append(Cs,Cs,Cs2), length(Cs2,R)", "append/3 on long strings"),
    ("sort", "pairs30(100000,L), sort(L,L2), len30(L2,0,R)", "sort/2"),
    ("keysort", "pairs30(100000,L), keysort(L,L2), len30(L2,0,R)", "keysort/2"),
    ("read_chars", "mk30(30000,L), write_term_to_chars(L,[],Cs0), append(Cs0,\" .\",Cs), read_from_chars(Cs,T), len30(T,0,R)", "write_term_to_chars + read_from_chars (parser -> heap)"),
    ("format_chars", "mk30(40000,L), phrase(format_(\"~w and ~a\", [L,x]), Cs), length(Cs,R)", "format_//2 to chars"),
    ("univ", "length(L,200), findall(T, (between(1,1500,_), T =.. [f|L]), Ts), len30(Ts,0,R)", "=../2 building structures of arity 200"),
    ("term_variables", "length(L,200000), term_variables(f(L,L),Vs), len30(Vs,0,R)", "term_variables/2"),
    ("lists_append", "mk30(150000,L), append(L,[x],L2), last30(L2,X), X == x, len30(L2,0,R)", "library(lists) append/3"),
    ("reverse", "mk30(150000,L), reverse(L,L2), L2 = [R|_]", "reverse/2"),
    ("maplist", "length(L,200000), maplist(=(x),L), len30(L,0,R)", "maplist/2"),
    ("foldl", "mk30(100000,L), foldl(add30,L,0,R)", "foldl/4 (call/N)"),
    ("assoc", "findall(K-K, between(1,20000,K), L), list_to_assoc(L,As), put_assoc(k,As,v,As2), get_assoc(k,As2,R)", "library(assoc) AVL trees"),
    ("bb", "mk30(150000,L), bb_put(k30,L), bb_get(k30,L2), len30(L2,0,R)", "bb_put/bb_get (global variable copy)"),
    ("throw_big", "mk30(150000,L), catch(throw(b(L)),b(L2),true), len30(L2,0,R)", "throw/1 with a big ball (ball heap) caught by catch/3"),
    ("nested_findall", "findall(L1, (between(1,400,I), findall(J, between(1,I,J), L1)), Ls), len30(Ls,0,R)", "nested findall/3"),
    ("phrase_seq", "mk30(100000,L), phrase(seq(L2),L), len30(L2,0,R)", "DCG seq//1"),
    ("numlist_sum", "findall(X, between(1,100000,X), L), sum30(L,0,R)", "findall then a consumer"),
    ("call_n", "length(L,100000), maplist(mkf30,L), len30(L,0,R)", "maplist + call/N building terms"),
    ("atom_concat", "dbl30(17,abcdefgh,A), atom_length(A,R)", "atom_concat/3 doubling (atom table, not the heap)"),
    ("sub_chars", "dbl30(16,abcdefgh,A), atom_chars(A,Cs), length(P,200000), append(P,S,Cs), length(S,R)", "splitting a long string (partial-string traversal)"),
]

# wrapper shapes: how the goal G (binding R) is embedded; E is bound to the caught formal.
SHAPES = {
    "plain": "catch(%s, error(E,_), true).",
    "inner_nomatch": "catch(catch(%s, foo30, true), error(E,_), true).",
    "scc": "catch(setup_call_cleanup(true, %s, C = done), error(E,_), true).",
    "in_findall": "findall(E-R, catch(%s, error(E,_), true), [E-R]).",
}


def full_prog():
    """helper predicates + one clause t30_<name>(R) per template (big terms stay clause-local, so the
    answer only shows R and E)."""
    return PROG + "".join("t30_%s(R) :- %s.\n" % (t[0], t[1]) for t in TEMPLATES)

# consult-time template (LF): a program big enough to grow the heap while it is read and compiled
def consult_prog(n):
    cl = ["cf30(%d, g(%d,[%d,%d],\"abcdefgh\"))." % (i, i, i, i + 1) for i in range(n)]
    return "\n".join(cl) + "\n"


def esc(s):
    return s.replace("\\", "\\\\").replace("\n", "\\n").replace("\t", "\\t")


def setup_lines(cid):
    ls = ["R\t%s.r" % cid]
    for i, u in enumerate(USES):
        ls.append("Q\t%s.u%d\t1\tuse_module(library(%s))." % (cid, i, u))
    ls.append("L\t%s.l\tuser\t%s" % (cid, esc(full_prog())))
    return ls


def mk_case(name, shape, k, mode, goal=None):
    t = [x for x in TEMPLATES if x[0] == name][0]
    q = SHAPES[shape] % ("t30_%s(R)" % t[0])
    cid = "%s/%s/%d%s" % (name, shape, k, mode)
    ls = setup_lines(cid)
    ls.append("QF\t%s.f\t%d\t%s\t1\t%s" % (cid, k, mode, q))
    ls.append("Q\t%s.p\t1\t%s" % (cid, PROBE))
    ls.append("QF\t%s.a\t0\tp\t1\t%s" % (cid, q))
    return {"id": cid, "template": name, "shape": shape, "k": k, "mode": mode, "impl": ls, "query": q}


QF_RE = re.compile(r"g=(\d+) d=(\d+) \| (.*)$", re.S)


def parse_qf(r):
    m = QF_RE.match(r or "")
    if not m:
        return None, None, r or "missing"
    return int(m.group(1)), int(m.group(2)), m.group(3)


def rval(text):
    """the binding of R in an answer text (the wrapper shapes add other bindings)."""
    m = re.search(r"[{,]R=([^,}]*)", text or "")
    if m:
        return m.group(1)
    m = re.search(r"'-'\(_G?\w*,([^)]*)\)", text or "")   # in_findall: E-R with E unbound
    return m.group(1) if m else None


def classify(res, ref):
    """outcome class of a faulted run; ref = the unfaulted answer text."""
    if res is None:
        return "missing"
    if res.startswith("panic("):
        return "panic"
    if res.startswith("abort(") or res.startswith("skipped("):
        return "abort"
    if res.startswith("timeout"):
        return "timeout"
    if "E='resource_error'('memory')" in res or "'-'('resource_error'('memory'),_" in res:
        return "caught"
    if res.startswith("error('error'('resource_error'('memory')"):
        return "uncaught_resource_error"
    if ref is not None and rval(res) is not None and rval(res) == rval(ref):
        return "absorbed"
    if res.startswith("false"):
        return "failed"
    if res.startswith("error(") or res.startswith("exception("):
        return "other_error"
    return "wrong_answer"


def shape_of(rng, k, K):
    return "plain"


def consult_case(k, mode, n=6000):
    """consult-time template: LF = consult_module_string under the fault plan."""
    cid = "consult/%d%s" % (k, mode)
    ls = setup_lines(cid)
    ls.append("LF\t%s.f\t%d\t%s\tuser\t%s" % (cid, k, mode, esc(consult_prog(n))))
    ls.append("Q\t%s.p\t1\t%s" % (cid, PROBE))
    ls.append("L\t%s.a\tuser\t%s" % (cid, esc(consult_prog(50))))
    ls.append("Q\t%s.b\t1\tcf30(17,X)." % cid)
    return {"id": cid, "template": "consult", "shape": "consult", "k": k, "mode": mode, "impl": ls}


CONSULT_EXPECT = "{X='g'(17,[17,18],\"abcdefgh\")} ;; ..."


def s_cases():
    """reference-interpreter tie: an explicit throw of the resource error at label j on the
    implementation vs solveInj with the oracle at label j."""
    prog = ("mkt30(0,_,[]).\nmkt30(N,J,[N|T]) :- N > 0, ( N =:= J -> throw(error(resource_error(memory), [])) ; true ), "
            "M is N-1, mkt30(M,J,T).\n")
    out = []
    for j in range(0, 8):
        cid = "S/%d" % j
        ls = ["L\t%s.l\tuser\t%s" % (cid, esc(prog)),
              "Q\t%s.q\t1\tcatch(mkt30(5,%d,L), error(E,_), true), X = done, ( var(L) -> LB = unbound ; LB = bound ), ( var(E) -> EB = none ; EB = E )." % (cid, j)]
        out.append({"id": cid, "impl": ls, "model": ["S\t%s.m\t5\t%d" % (cid, j)], "j": j})
    return out


def judge_s(c, impl, model):
    r = impl.get(c["id"] + ".q", "missing")
    m = model.get(c["id"] + ".m", "missing")
    mm = re.match(r"E=(\S+) L=(\S+) X=(\S+)", m)
    if not mm:
        return "model:%s" % m
    e, l, x = mm.groups()
    exp_e = "EB='none'" if e == "-" else "EB='resource_error'('memory')"
    ok = (exp_e in r) and ("LB='%s'" % l in r) and ("X='%s'" % x in r)
    return None if ok else "impl=%s model=%s" % (r[:200], m)


def run(ctx):
    tier, rng = ctx["tier"], ctx["rng"]
    env = {"SV_TIMEOUT_MS": "60000"}
    findings = []

    rep = diff.replay_case(ctx)
    if rep is not None:
        for c in rep:
            impl, model = diff.run_cases([c], impl_env=env, parallel=False)
            for l in c["impl"]:
                i = core.line_id(l)
                if not re.search(r"\.u\d+$", i):
                    print("impl", i, (impl.get(i) or "")[:300])
            for i, v in model.items():
                print("model", i, v)
        return {"evaluations": len(rep), "distinct_nontrivial": 0, "rule": "replay", "samples": [],
                "traces_validated_against_impl": 0, "disagreements_checked": 0, "findings": []}

    names = [t[0] for t in TEMPLATES]
    if tier == "quick":
        sel = rng.sample(names, 7)
        kcap = 3
    else:
        sel = names
        kcap = 12

    # ---- phase 1: counting runs (fresh machine each): K and the reference answer
    ccases = [mk_case(n, "plain", 0, "p") for n in sel] + [consult_case(0, "p")]
    impl, _ = diff.run_cases(ccases, impl_env=env)
    for c in ccases:   # retry load flakes once, sequentially
        if any((impl.get(core.line_id(l)) or "missing").startswith(("timeout", "missing")) or "timeout" in (impl.get(core.line_id(l)) or "") for l in c["impl"][-4:]):
            impl.update(core.run_impl(c["impl"], env=env))
    evaluations = 0
    info = {}
    no_growth = []
    consult_K = 0
    for c in ccases:
        evaluations += 1
        K, d, ref = parse_qf(impl.get(c["id"] + ".f"))
        if c["template"] == "consult":
            if K is None or ref != "loaded" or impl.get(c["id"] + ".b") != CONSULT_EXPECT:
                findings.append(core.Finding("violation", {"template": "consult", "class": "unfaulted-run-broken"},
                                             "unfaulted consult: %s / %s" % (ref, impl.get(c["id"] + ".b")), c))
            else:
                consult_K = K
            continue
        if K is None or not ref.startswith("{R=") or impl.get(c["id"] + ".p") != PROBE_EXPECT:
            findings.append(core.Finding("violation", {"template": c["template"], "class": "unfaulted-run-broken"},
                                         "unfaulted run: %s probe: %s" % ((ref or "")[:200], (impl.get(c["id"] + ".p") or "")[:200]), c))
            continue
        if K == 0:
            no_growth.append(c["template"])
        info[c["template"]] = (K, ref)

    # ---- phase 2: every growth event k = 1..K (capped), both fault modes, wrapper shapes
    cases = []
    shapes = list(SHAPES)
    for name in sel:
        if name not in info:
            continue
        K, ref = info[name]
        ks = list(range(1, K + 1))
        if len(ks) > kcap:
            ks = sorted(set([1, K] + rng.sample(ks, kcap - 2)))
        for k in ks:
            if tier == "quick":
                combos = [("plain", "o" if (k + ctx["seed"]) % 2 else "p")]
                if k == ks[0]:
                    combos.append((rng.choice(shapes[1:]), "o"))
            else:
                combos = [("plain", "o"), ("plain", "p")]
                if k in (ks[0], ks[-1]):
                    combos += [(sh, "o") for sh in shapes[1:]] + [(rng.choice(shapes[1:]), "p")]
            for sh, mode in combos:
                c = mk_case(name, sh, k, mode)
                c["K"] = K
                c["ref"] = ref
                c["model"] = ["P\t%s.m\t%s\t%d\t%d\t%s" % (c["id"], sh, K, k, mode)]
                cases.append(c)
    for k in (range(1, consult_K + 1) if tier != "quick" else range(1, min(consult_K, 2) + 1)):
        for mode in ("o", "p") if tier != "quick" else ("o",):
            cases.append(consult_case(k, mode))
    cases += s_cases()
    impl, model = diff.run_cases(cases, impl_env=env)

    classes = {}
    pairs = set()
    agree = disagree = retried = 0
    samples = []
    for c in cases:
        evaluations += 1
        if "j" in c:
            bad = judge_s(c, impl, model)
            if bad:
                disagree += 1
                findings.append(core.Finding("disagreement", {"kind": "reference-interpreter", "j": str(c["j"])}, bad, c))
            else:
                agree += 1
            continue
        cid = c["id"]
        g, d, r = parse_qf(impl.get(cid + ".f"))
        flaky = lambda x: x is None or x.startswith(("timeout", "missing", "skipped")) or "| timeout" in x
        if (flaky(impl.get(cid + ".f")) or flaky(impl.get(cid + ".p"))) and retried < 30:
            retried += 1
            impl.update(core.run_impl(c["impl"], env=env))
            g, d, r = parse_qf(impl.get(cid + ".f"))
        if c["template"] == "consult":
            cls = "panic" if r.startswith("panic") else "abort" if r.startswith(("abort", "skipped")) else "timeout" if r.startswith("timeout") else "loaded" if r == "loaded" else "other"
            classes["consult:" + cls] = classes.get("consult:" + cls, 0) + 1
            pairs.add(("consult", c["k"], c["mode"]))
            if cls != "loaded":
                findings.append(core.Finding("violation", {"template": "consult", "class": cls, "mode": c["mode"]},
                                             "consult with growth %d failing (%s): %s" % (c["k"], c["mode"], r[:300]), c))
            elif impl.get(cid + ".p") != PROBE_EXPECT or impl.get(cid + ".b") != CONSULT_EXPECT:
                findings.append(core.Finding("violation", {"template": "consult", "class": "followup-wrong", "mode": c["mode"]},
                                             "after a consult with growth %d failing: probe %s, reload %s" % (
                                                 c["k"], (impl.get(cid + ".p") or "")[:200], (impl.get(cid + ".b") or "")[:200]), c))
            continue
        ref = c["ref"]
        cls = classify(r, ref)
        classes[cls] = classes.get(cls, 0) + 1
        pairs.add((c["template"], c["k"], c["mode"], c["shape"]))
        if len(samples) < 6:
            samples.append({"query": c["query"], "k": c["k"], "mode": c["mode"], "K": c["K"], "impl": (impl.get(cid + ".f") or "")[:160],
                            "model": model.get(cid + ".m")})
        if d == 0 and cls == "absorbed":
            # the k-th growth was never requested in this run (K varies slightly between runs)
            classes["fault-not-reached"] = classes.get("fault-not-reached", 0) + 1
            continue
        sig = None
        if cls not in ("caught", "absorbed"):
            sig = {"template": c["template"], "class": cls, "mode": c["mode"], "shape": c["shape"]}
            detail = "growth %d of %d failing (%s): %s" % (c["k"], c["K"], "persistently" if c["mode"] == "p" else "once", r[:300])
        else:
            pr = impl.get(cid + ".p")
            g2, d2, r2 = parse_qf(impl.get(cid + ".a"))
            if pr != PROBE_EXPECT:
                sig = {"template": c["template"], "class": "probe-wrong", "mode": c["mode"], "shape": c["shape"]}
                detail = "after recovery from growth %d failing the probe answers %s" % (c["k"], (pr or "missing")[:300])
            elif rval(r2) != rval(ref):
                sig = {"template": c["template"], "class": "rerun-wrong", "mode": c["mode"], "shape": c["shape"]}
                detail = "after recovery from growth %d failing the template answers %s instead of %s" % (c["k"], (r2 or "missing")[:200], ref[:100])
        if sig is not None:
            findings.append(core.Finding("violation", sig, detail, c))
            continue
        m = model.get(cid + ".m", "")
        mcls = m.split(" ")[0] if m else "?"
        if mcls == "caught" and cls in ("caught", "absorbed"):
            agree += 1
        else:
            disagree += 1
            findings.append(core.Finding("disagreement", {"template": c["template"], "class": "model-" + mcls, "shape": c["shape"]},
                                         "model predicts %s, implementation %s" % (m, cls), c))
    return {
        "evaluations": evaluations,
        "distinct_nontrivial": len(pairs),
        "rule": "one fresh machine per (template, growth event k, fault mode, wrapper shape); distinct = distinct such tuples actually run with the k-th growth of the query denied",
        "samples": samples,
        "traces_validated_against_impl": agree,
        "disagreements_checked": disagree,
        "findings": findings,
        "outcome_classes": classes,
        "templates": sel,
        "growths_per_template": {n: info[n][0] for n in info},
        "templates_without_heap_growth": no_growth,
        "consult_growths": consult_K,
        "pairs": len(pairs),
        "retried": retried,
        "exhaustive": False,
    }
