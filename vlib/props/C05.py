"""C05 — Equal integers behave identically regardless of how they were produced."""
from .. import core, diff

LEVEL = "proof"
TRUSTED_BASE = [
    "Model/IntRepr.lean mirrors unify_fixnum/unify_big_integer, the integer arm of the standard order and integer first-argument indexing (index_constant + constant_key_alternatives + select_switch_on_term_index)",
    "the literal production path is the property's own oracle for the path x consumer matrix (no model needed for that comparison)",
]
ASSUMPTIONS = ["library predicates used as consumers (lists, between, format) are loaded with use_module at the start of every case"]

FIX_MIN, FIX_MAX = -(2 ** 55), 2 ** 55 - 1
VALUES = [0, 1, 2, 3, 5, 65, 97, 255, 700, -1, -2, 2 ** 31, 2 ** 32 + 1, FIX_MAX - 1, FIX_MAX, FIX_MAX + 1,
          FIX_MIN + 1, FIX_MIN, FIX_MIN - 1, 2 ** 62, 2 ** 63 - 1, 2 ** 63, 2 ** 64, -(2 ** 63), -(2 ** 63) - 1, 10 ** 20]


def lit(v):
    return str(v) if v >= 0 else "(%d)" % v


def paths(v):
    """(name, goal producing X, representation the model assumes: f or b)"""
    norm = "f" if FIX_MIN <= v <= FIX_MAX else "b"
    ps = [("literal", "X = %s" % lit(v), norm),
          ("is_literal", "X is %s" % lit(v), norm),
          ("bignum_detour", "X is 2^80 + %s - 2^80" % lit(v), "b"),
          ("mul_div", "X is (%s * 2^70) // 2^70" % lit(v), "b"),
          ("number_chars", "number_chars(X, \"%d\")" % v, norm),
          ("read_term", "read_term_from_chars(\"%d.\", X, [])" % v, norm),
          ("max", "X is max(%s, %s - 1)" % (lit(v), lit(v)), norm),
          ("shift", "X is (%s << 70) >> 70" % lit(v), "b"),
          ("rational_floor", "X is floor((%s * 3) rdiv 3)" % lit(v), norm),
          ]
    if 0 <= v <= 700:
        ps.append(("length", "findall(X0, (length(L0, %d), length(L0, X0)), [X])" % v, "f"))
        ps.append(("atom_length", "atom_length('%s', X)" % ("a" * v), "f"))
    if v >= 1:
        ps.append(("succ", "findall(X0, (P0 is %s - 1, succ(P0, X0)), [X])" % lit(v), norm))
    return ps


def consumers(v):
    """(name, goal using X with observable outputs)"""
    L = lit(v)
    cs = [("unify", "X = %s" % L),
          ("unify_rev", "%s = X" % L),
          ("not_unify_succ", "Y is %s + 1, \\+ X = Y" % L),
          ("identical", "X == %s" % L),
          ("compare", "compare(O, X, %s), compare(O2, %s, X)" % (L, L)),
          ("std_order", "X @=< %s, X @>= %s" % (L, L)),
          ("sort", "sort([X, %s, 1, X], S)" % L),
          ("keysort", "keysort([X-a, 0-b, %s-c], S)" % L),
          ("arith_eq", "X =:= %s, Y is X + 1" % L),
          ("univ", "T =.. [f, X], T == f(%s)" % L),
          ("copy", "copy_term(f(X), C), C == f(%s)" % L),
          ("findall", "findall(X, true, Fs), Fs == [%s]" % L),
          ("number_codes", "number_codes(X, Cs)"),
          ("integer_test", "integer(X), number(X), atomic(X), \\+ float(X)"),
          ("format_d", "phrase(format_(\"~d|~a\", [X, x]), Cs)"),
          ("write", "write_term_to_chars(f(X), [], Cs)"),
          ]
    if 1 <= v <= 3:
        cs += [("arg", "arg(X, f(a,b,c), A)"), ("functor", "functor(T, foo, X)"), ("nth1", "nth1(X, [a,b,c], E)"),
               ("sub_atom", "sub_atom(abcde, X, 1, After, S)")]
    if 0 <= v <= 5:
        cs += [("length", "length(Ls, X)"), ("nth0", "nth0(X, [a,b,c,d,e,f], E)"), ("between", "findall(Y, between(0, X, Y), Ys)"),
               ("numlist", "numlist(0, X, Ns)")]
    if 1 <= v <= 0x10ffff and not (0xd800 <= v <= 0xdfff):
        cs += [("char_code", "char_code(Ch, X)")]
    if 1 <= v <= 1200:
        cs += [("op", "op(X, xfx, zzzop), current_op(Pr, xfx, zzzop), op(0, xfx, zzzop)")]
    return cs


PRE = ["use_module(library(lists)).", "use_module(library(between)).", "use_module(library(format)).", "use_module(library(charsio)).", "use_module(library(iso_ext))."]


def run(ctx):
    rng, tier = ctx["rng"], ctx["tier"]
    rep = diff.replay_case(ctx)
    cases = []
    if rep is not None:
        cases = rep
    else:
        cases = diff.load_corpus("C05")
        k = len(cases)
        # (B) path x consumer matrix, oracle = literal path
        vals = VALUES if tier == "thorough" else rng.sample(VALUES, 12)
        for v in vals:
            for cn, cg in consumers(v):
                impl = ["Q\tm%d_pre%d\t1\t%s" % (k, j, p) for j, p in enumerate(PRE)]
                names = []
                for pn, pg, rp in paths(v):
                    names.append(pn)
                    impl.append("Q\tm%d_%s\t3\t%s, %s." % (k, pn, pg, cg))
                cases.append({"id": "m%d" % k, "kind": "matrix", "value": v, "consumer": cn, "paths": names, "impl": impl, "model": []})
                k += 1
        # (A) database lookup: static and dynamic predicates with integer first arguments
        n_db = 150 if tier == "quick" else 3000
        for _ in range(n_db):
            nc = rng.randint(1, 8)
            pool = rng.sample(VALUES, 4)
            heads = [rng.choice(pool) for _ in range(nc)]
            dynamic = rng.random() < 0.5
            pname = "p%d" % k
            impl = ["Q\td%d_pre%d\t1\t%s" % (k, j, p) for j, p in enumerate(PRE[:1])]
            head_tokens = []
            if dynamic:
                impl.append("Q\td%d_dyn\t1\t(dynamic(%s/2))." % (k, pname))
                for i, h in enumerate(heads):
                    if rng.random() < 0.5:
                        impl.append("Q\td%d_a%d\t1\tX is 2^80 + %s - 2^80, assertz(%s(X, %d))." % (k, i, lit(h), pname, i))
                        head_tokens.append("b%d" % h)
                    else:
                        impl.append("Q\td%d_a%d\t1\tassertz(%s(%s, %d))." % (k, i, pname, lit(h), i))
                        head_tokens.append(("f%d" if FIX_MIN <= h <= FIX_MAX else "b%d") % h)
            else:
                prog = " ".join("%s(%s, %d)." % (pname, lit(h), i) for i, h in enumerate(heads))
                impl.append("L\td%d_load\tuser\t%s" % (k, prog))
                head_tokens = [("f%d" if FIX_MIN <= h <= FIX_MAX else "b%d") % h for h in heads]
            model = []
            calls = []
            for a in pool + [rng.choice(VALUES)]:
                for pn, pg, rp in rng.sample(paths(a), 3):
                    cid = "d%d_c%d" % (k, len(calls))
                    impl.append("Q\t%s\t2\t%s, findall(I, %s(X, I), Is)." % (cid, pg, pname))
                    model.append("lookup\t%s\t%s\t%s%d" % (cid, " ".join(head_tokens), rp, a))
                    calls.append((cid, a, pn))
            cases.append({"id": "d%d" % k, "kind": "db", "heads": head_tokens, "dynamic": dynamic, "calls": calls, "impl": impl, "model": model})
            k += 1
    impl, model = diff.run_cases(cases)
    findings, agree, total = [], 0, 0
    distinct = set()
    consumers_hit, paths_hit = {}, {}
    for c in cases:
        cc = {x: c[x] for x in c if x not in ("nontrivial",)}
        if c["kind"] == "matrix":
            base = impl.get("%s_literal" % c["id"], "missing")
            consumers_hit[c["consumer"]] = consumers_hit.get(c["consumer"], 0) + 1
            for pn in c["paths"]:
                total += 1
                paths_hit[pn] = paths_hit.get(pn, 0) + 1
                r = impl.get("%s_%s" % (c["id"], pn), "missing")
                if rep is not None:
                    print("replay value=%s consumer=%s path=%s -> %s" % (c["value"], c["consumer"], pn, r))
                if pn != "literal":
                    distinct.add((c["value"], c["consumer"], pn))
                if r == base and not r.startswith(("panic", "missing", "timeout", "abort")):
                    agree += 1
                else:
                    sig = {"family": "intpaths", "value": str(c["value"]), "consumer": c["consumer"], "path": pn,
                           "impl": r, "literal": base}
                    findings.append(core.Finding("violation", sig,
                                                 "an integer produced by this path behaves differently from the same integer written literally", cc))
        else:
            for cid, a, pn in c["calls"]:
                total += 1
                r = impl.get(cid, "missing")
                m = model.get(cid, "missing")
                got = None
                import re
                mm = re.search(r"Is=\[([0-9,]*)\]", r)
                if mm:
                    got = " ".join(x for x in mm.group(1).split(",") if x)
                if rep is not None:
                    print("replay heads=%s call=%s(%s) impl=%s model=%s" % (c["heads"], a, pn, r, m))
                distinct.add((tuple(c["heads"]), a, pn, c["dynamic"]))
                if got is not None and got == m:
                    agree += 1
                else:
                    sig = {"family": "intdb", "heads": " ".join(c["heads"]), "dynamic": str(c["dynamic"]), "arg": str(a), "path": pn,
                           "impl": r, "model": m}
                    findings.append(core.Finding("violation", sig,
                                                 "clause lookup by an integer first argument does not return exactly the clauses with that value", cc))
    return {
        "evaluations": total,
        "distinct_nontrivial": len(distinct),
        "rule": "(B) values at the fixnum/i64 boundaries x production paths (literal, is/2, through a bignum and back, mul/div, shifts, number_chars, read_term, length, atom_length, succ, rational floor) x integer consumers; outcome must equal the literal path's. (A) static/dynamic predicates with 1-8 integer first arguments (literal or asserted from an un-normalised bignum) called with each value produced by 3 paths; answers compared with the Lean model's lookup. Non-trivial = non-literal path; distinct by (value, consumer/path) resp. (heads, arg, path).",
        "samples": [c["impl"][-1] for c in cases[:3]] + [c["impl"][-1] for c in cases[-2:]],
        "traces_validated_against_impl": agree,
        "disagreements_checked": total - agree,
        "consumers_hit": consumers_hit,
        "paths_hit": paths_hit,
        "findings": findings,
    }
