"""C44 — Prolog flags read back what was set.

Histories of flag reads / writes / behavioural probes are run on the implementation (one
query per step, all steps of a history on one machine, flags reset to their defaults before and
after) and on the Lean model `drv_C44` (clause-level model with the corrected clauses, which
the theorems of Props/C44.lean are about; plus the table specification, which a theorem says
is equal). Every step's answer text is compared.
"""
import json

from .. import core, diff

LEVEL = "proof"
TRUSTED_BASE = [
    "reading of builtins.pl's flag clauses into the clause lists of Model/Flags.lean (cpfPinned/spfPinned mirror the pinned commit clause by clause; cpfFixed/spfFixed carry the corrections of findings C44-1..4 and are what the theorems are about)",
    "the behavioural effect of double_quotes / occurs_check / unknown is a specification-level function of the state (readDoubleQuoted, unifyCyclic, callUndefined); the real reader, unifier and call mechanism are tied only by the probes of the correspondence run",
    "vlib/props/C44.py: rendering of one abstract term to Prolog text and to the driver's prefix tokens; normalisation of harness answers ({} = true, trailing ';; false' dropped)",
]
ASSUMPTIONS = [
    "Flag and Value are distinct variables when both are unbound; a nonvar Value given to current_prolog_flag/2 is ground (the model treats unification with a stored value as identity then)",
    "flags are per machine: each history starts and ends with a query that restores double_quotes, unknown, occurs_check and answer_write_options to their defaults",
    "for unknown=warning only the failure of the call is compared, not the text printed on stdout",
    "occurs_check=error: only that X = f(X) raises an error is compared, not which error",
]

FLAGS = ["max_arity", "bounded", "integer_rounding_function", "double_quotes", "unknown",
         "max_integer", "min_integer", "occurs_check", "answer_write_options"]
WRITABLE = ["double_quotes", "unknown", "occurs_check", "answer_write_options"]


# ------------------------------------------------------------------ abstract terms
def A(n): return ("a", n)
def I(n): return ("i", n)
def C1(f, a): return ("c1", f, a)
def C2(f, a, b): return ("c2", f, a, b)
def L(*ts): return ("L", list(ts))
def P(ts, tl): return ("P", list(ts), tl)
V = ("v",)
FLOATS = {"3ff0000000000000": "1.0", "4004000000000000": "2.5"}


def tup(t):
    """JSON lists -> tuples (corpus / replay)."""
    if isinstance(t, (list, tuple)):
        if t and t[0] in ("L",):
            return ("L", [tup(x) for x in t[1]])
        if t and t[0] == "P":
            return ("P", [tup(x) for x in t[1]], tup(t[2]))
        return tuple(tup(x) if isinstance(x, (list, tuple)) else x for x in t)
    return t


def is_plain(n):
    return n and n[0].islower() and all(c.isalnum() or c == "_" for c in n)


def patom(n):
    return n if (is_plain(n) or n == "[]") else "'%s'" % n


def to_prolog(t):
    k = t[0]
    if k == "v":
        return "_"
    if k == "a":
        return patom(t[1])
    if k == "i":
        return str(t[1]) if t[1] >= 0 else "(%d)" % t[1]
    if k == "x":
        return FLOATS[t[1]]
    if k == "c1":
        return "%s(%s)" % (patom(t[1]), to_prolog(t[2]))
    if k == "c2":
        return "%s(%s,%s)" % (patom(t[1]), to_prolog(t[2]), to_prolog(t[3]))
    if k == "L":
        return "[" + ",".join(to_prolog(x) for x in t[1]) + "]"
    if k == "P":
        return "[" + ",".join(to_prolog(x) for x in t[1]) + "|" + to_prolog(t[2]) + "]"
    raise ValueError(t)


def to_model(t, ctr=None):
    """prefix tokens for drv_C44; variables are numbered by first occurrence in this term."""
    ctr = ctr if ctr is not None else [0]
    k = t[0]
    if k == "v":
        ctr[0] += 1
        return "v%d" % (ctr[0] - 1)
    if k == "a":
        return "a:" + t[1]
    if k == "i":
        return "i:%d" % t[1]
    if k == "x":
        return "x:" + t[1]
    if k == "c1":
        return "c1:%s %s" % (t[1], to_model(t[2], ctr))
    if k == "c2":
        a = to_model(t[2], ctr)
        return "c2:%s %s %s" % (t[1], a, to_model(t[3], ctr))
    if k == "L":
        return " ".join(["L%d" % len(t[1])] + [to_model(x, ctr) for x in t[1]])
    if k == "P":
        xs = [to_model(x, ctr) for x in t[1]]
        return " ".join(["P%d" % len(t[1])] + xs + [to_model(t[2], ctr)])
    raise ValueError(t)


def ground(t):
    k = t[0]
    if k == "v":
        return False
    if k in ("c1",):
        return ground(t[2])
    if k == "c2":
        return ground(t[2]) and ground(t[3])
    if k == "L":
        return all(ground(x) for x in t[1])
    if k == "P":
        return all(ground(x) for x in t[1]) and ground(t[2])
    return True


# ------------------------------------------------------------------ value catalogue
XN = C2("=", A("X"), V)
AWO_OK = [L(), L(C1("quoted", A("true"))), L(C1("max_depth", I(3))),
          L(C1("quoted", A("true")), C1("max_depth", I(0))),
          L(C1("ignore_ops", A("false")), C1("numbervars", A("true")), C1("double_quotes", A("true"))),
          L(C1("variable_names", L())), L(C1("variable_names", L(XN))),
          L(C1("variable_names", L(C2("=", A("X"), I(1)), C2("=", A("Yy"), A("foo"))))),
          L(C1("max_depth", I(3)), C1("max_depth", I(4))),
          L(C1("max_depth", I(2 ** 70)))]
AWO_BAD = [A("foo"), I(3), L(A("foo")), L(C1("quoted", A("foo"))), L(C1("max_depth", I(-1))),
           L(C1("max_depth", A("abc"))), P([C1("quoted", A("true"))], A("bar")),
           L(C1("variable_names", A("foo"))), L(C1("variable_names", L(C1("f", A("xx"))))),
           L(C1("variable_names", L(C2("=", I(1), A("xx"))))), L(C2("quoted", A("true"), A("false"))),
           L(A("quoted")), L(C1("quoted", A("foo")), C1("max_depth", V)),
           L(C1("variable_names", P([C2("=", A("X"), I(1))], A("foo")))),
           L(C1("quoted", A("true")), C1("bogus", A("true"))), L(C1("max_depth", ("x", "3ff0000000000000")))]
AWO_INST = [L(C1("quoted", V)), L(V), P([C1("quoted", A("true"))], V), L(C1("max_depth", V)),
            L(C1("variable_names", V)), L(C1("variable_names", P([C2("=", A("X"), I(1))], V))),
            L(C1("variable_names", L(C2("=", V, I(1))))), L(C1("variable_names", L(V))),
            L(A("foo"), V), L(C1("max_depth", V), C1("quoted", A("foo")))]
INTS = [I(255), I(0), I(256), I(-1), I(2 ** 70), I(-(2 ** 70))]
JUNK = [A("foo"), A("warn"), A("on"), A("off"), A("[]"), A("true"), A("false"), A("error"), A("chars"),
        A("down"), A("toward_zero"), I(0), I(1), I(255), ("x", "3ff0000000000000"), C1("f", A("xx")),
        C1("f", V), L(A("chars")), L(A("foo"), A("bar")), C2("-", A("aa"), I(1))]

VALID = {
    "max_arity": INTS, "max_integer": INTS, "min_integer": INTS,
    "bounded": [A("false"), A("true")],
    "integer_rounding_function": [A("toward_zero"), A("down")],
    "double_quotes": [A("chars"), A("codes"), A("atom")],
    "unknown": [A("error"), A("fail"), A("warning")],
    "occurs_check": [A("false"), A("true"), A("error")],
    "answer_write_options": AWO_OK,
}
CURRENT_RO = {"max_arity": I(255), "bounded": A("false"), "integer_rounding_function": A("toward_zero")}
BAD_FLAGS = [A("foo"), A("max_arity_"), A("double_quote"), A("[]"), A("flag"), I(1), I(0),
             ("x", "3ff0000000000000"), C1("f", A("xx")), C1("f", V), C1("double_quotes", A("chars")),
             L(A("double_quotes")), C2("-", A("unknown"), A("error"))]


def appropriate(flag, v):
    """is v in the value domain of the flag (Python-side classification, for signatures and
    generation only; the oracle is the Lean model)."""
    if flag in ("max_arity", "max_integer", "min_integer"):
        return v[0] == "i"
    if flag == "answer_write_options":
        return v in AWO_OK
    return v in VALID[flag]


def invalid_values(flag):
    if flag == "answer_write_options":
        return AWO_BAD
    return [v for v in JUNK if not appropriate(flag, v) and v[0] != "v"]


def short(t):
    s = to_prolog(t)
    return s if len(s) <= 24 else "long"


def vclass(flag, v, op="S"):
    """class of a value for the signature of a finding."""
    if v[0] == "v":
        return "unbound"
    if flag[0] == "v":
        return "value:" + short(v)
    if flag[0] != "a" or flag[1] not in FLAGS:
        return "any"
    f = flag[1]
    if f == "answer_write_options":
        return ("valid:" + short(v)) if v in AWO_OK else ("inst" if v in AWO_INST else "invalid")
    if appropriate(f, v):
        if f in CURRENT_RO:
            return "valid:current" if v == CURRENT_RO[f] else "valid:other"
        if f in ("max_integer", "min_integer"):
            return "valid:other"
        return "valid:" + v[1]
    return "invalid"


# ------------------------------------------------------------------ steps
RESET = ("set_prolog_flag(double_quotes, chars), set_prolog_flag(unknown, error), "
         "set_prolog_flag(occurs_check, false), set_prolog_flag(answer_write_options, []).")


def step_queries(s, uid):
    """implementation queries of one step (all must give the model's answer)."""
    k = s[0]
    if k in ("G", "S"):
        f = "F" if s[1][0] == "v" else to_prolog(s[1])
        v = "V" if s[2][0] == "v" else to_prolog(s[2])
        p = "current_prolog_flag" if k == "G" else "set_prolog_flag"
        return ["catch(%s(%s, %s), error(E,_), true)." % (p, f, v)]
    if k == "PDQ":
        cs = ",".join(s[1])
        return ['X = "%s".' % s[1],
                "read_term_from_chars(['\"',%s,'\"','.'], X, [])." % cs]
    if k == "POC":
        return ["catch((\\+ \\+ (Y = f(Y)) -> R = yes ; R = no), error(Err,_), R = err)."]
    if k == "PUNK":
        return ["catch(c44_undefined_%s, error(E,_), true)." % uid]
    raise ValueError(s)


def step_model(s):
    k = s[0]
    if k in ("G", "S"):
        f = "v100" if s[1][0] == "v" else to_model(s[1])
        v = "v101" if s[2][0] == "v" else to_model(s[2])
        return "%s %s %s" % (k, f, v)
    if k == "PDQ":
        return "PDQ " + s[1]
    return k


def norm_impl(s, r, uid):
    """harness answer text -> the model's answer syntax."""
    k = s[0]
    if r.endswith(" ;; false") and r != "false":
        r = r[:-len(" ;; false")]
    parts = ["true" if p == "{}" else p for p in r.split(" ;; ")]
    r = " ;; ".join(parts)
    if k == "POC":
        if "R='yes'" in r:
            return "succeeds"
        if "R='no'" in r:
            return "fails"
        if "R='err'" in r:
            return "raises"
        return r
    if k == "PUNK":
        if r == "{E='existence_error'('procedure','/'('c44_undefined_%s',0))}" % uid:
            return "existence_error"
        if r == "false":
            return "fails"
        return r
    return r


def norm_model(s, r):
    if s[0] == "PUNK" and r == "fails_warning":
        return "fails"
    return r


def make_case(cid, steps, note=None):
    steps = [tuple(s) for s in steps]
    impl = ["Q\t%s.u\t1\tuse_module(library(charsio))." % cid, "Q\t%s.r0\t2\t%s" % (cid, RESET)]
    idx = []
    for n, s in enumerate(steps):
        qs = step_queries(s, cid)
        ids = []
        for j, q in enumerate(qs):
            i = "%s.%d.%d" % (cid, n, j)
            impl.append("Q\t%s\t20\t%s" % (i, q))
            ids.append(i)
        idx.append(ids)
    impl.append("Q\t%s.r1\t2\t%s" % (cid, RESET))
    mtxt = " ; ".join(step_model(s) for s in steps)
    model = ["hist\t%s.fixed\tfixed\t%s" % (cid, mtxt), "hist\t%s.spec\tspec\t%s" % (cid, mtxt),
             "hist\t%s.pinned\tpinned\t%s" % (cid, mtxt)]
    return {"id": cid, "steps": steps, "impl": impl, "model": model, "qids": idx, "note": note,
            "queries": [step_queries(s, cid) for s in steps]}


# ------------------------------------------------------------------ generation
def fl(name): return A(name)


def probes_for(flag):
    return {"double_quotes": [("PDQ", "ab")], "occurs_check": [("POC",)], "unknown": [("PUNK",)]}.get(flag, [])


ALL_PROBES = [("PDQ", "ab"), ("POC",), ("PUNK",)]


def write_block(f, v):
    """a write, the read-back with the same value, the read with unbound value, probes."""
    out = [("S", f, v)]
    if f[0] != "v" and v[0] != "v" and (ground(v) or v in AWO_OK):
        # (a non-ground inappropriate value is not read back: the model treats a nonvar Value as ground)
        out.append(("G", f, v))
    if f[0] != "v":
        out.append(("G", f, V))
    if f[0] == "a":
        out.extend(probes_for(f[1]))
    return out


def sweep_cases():
    """every flag x every catalogued value (appropriate, inappropriate, insufficiently instantiated,
    unbound), every invalid flag, each from the default state and from a non-default state."""
    hs = []
    for f in FLAGS:
        vals = list(VALID[f]) + invalid_values(f) + [V]
        if f == "answer_write_options":
            vals += AWO_INST
        for v in vals:
            hs.append([("G", V, V)] + write_block(fl(f), v) + [("G", V, V)] + ALL_PROBES)
    for bf in BAD_FLAGS:
        for v in [A("true"), I(1), V, C1("f", V)]:
            hs.append(write_block(bf, v) + [("G", V, V)])
    hs.append([("S", V, A("true")), ("S", V, V), ("G", V, V), ("G", V, A("false")), ("G", V, I(255)),
               ("G", V, A("error")), ("G", V, A("toward_zero")), ("G", V, L())])
    # reads of every flag, value given (current / other) and unbound, in a non-default state
    pre = [("S", fl("double_quotes"), A("codes")), ("S", fl("unknown"), A("fail")),
           ("S", fl("occurs_check"), A("true")),
           ("S", fl("answer_write_options"), L(C1("quoted", A("true"))))]
    for f in FLAGS:
        rd = [("G", fl(f), V)] + [("G", fl(f), v) for v in VALID[f][:4]] + [("G", fl(f), A("foo"))]
        hs.append(rd + [("G", V, V)])
        hs.append(pre + rd + [("G", V, V)] + ALL_PROBES)
    return hs


def pair_cases():
    """thorough: every ordered pair of writes to writable flags (appropriate values), with reads."""
    hs = []
    ws = [(f, v) for f in WRITABLE for v in (VALID[f] if f != "answer_write_options" else AWO_OK[:4])]
    for (f1, v1) in ws:
        for (f2, v2) in ws:
            hs.append(write_block(fl(f1), v1) + write_block(fl(f2), v2) + [("G", V, V)] + ALL_PROBES)
    return hs


def rand_value(rng, f):
    r = rng.random()
    if r < 0.55:
        return rng.choice(VALID[f])
    if r < 0.80:
        return rng.choice(invalid_values(f))
    if r < 0.90 and f == "answer_write_options":
        return rng.choice(AWO_INST)
    if r < 0.93:
        return V
    return rng.choice(JUNK)


def rand_history(rng):
    n = rng.randint(1, 10)
    h = []
    for _ in range(n):
        r = rng.random()
        if r < 0.55:
            # writes are biased to the writable flags (they make the state evolve)
            f = rng.choice(WRITABLE) if rng.random() < 0.6 else rng.choice(FLAGS)
            if rng.random() < 0.08:
                h.extend(write_block(rng.choice(BAD_FLAGS + [V]), rng.choice(JUNK + [V])))
            else:
                h.extend(write_block(fl(f), rand_value(rng, f)))
        elif r < 0.70:
            f = rng.choice(FLAGS)
            h.append(("G", fl(f), V))
        elif r < 0.78:
            f = rng.choice(FLAGS)
            v = rng.choice(VALID[f] + invalid_values(f)[:3])
            h.append(("G", fl(f), v if ground(v) else A("foo")))
        elif r < 0.86:
            h.append(("G", V, V))
        elif r < 0.90:
            h.append(("G", V, rng.choice([A("false"), A("true"), A("error"), A("chars"), I(255), L(), A("foo")])))
        elif r < 0.93:
            h.append(("G", rng.choice(BAD_FLAGS), V))
        else:
            h.append(rng.choice(ALL_PROBES))
    h.append(("G", V, V))
    h.extend(ALL_PROBES)
    return h


# ------------------------------------------------------------------ judging
def kind(r):
    """coarse class of an answer text for signatures."""
    if r in ("true", "false", "succeeds", "fails", "raises", "existence_error"):
        return r
    if r.startswith("{E='instantiation_error'"):
        return "inst"
    if r.startswith("{E='type_error'('atom',"):
        return "type_atom"
    if r.startswith("{E='domain_error'('prolog_flag',"):
        return "dom_prolog_flag"
    if r.startswith("{E='domain_error'('flag_value',"):
        return "dom_flag_value"
    if r.startswith("{E="):
        return "error:" + r[3:40]
    if " ;; " in r:
        return "answers:%d" % (r.count(" ;; ") + 1)
    if r.startswith("panic") or r.startswith("timeout") or r.startswith("abort"):
        return r.split("(")[0]
    if len(r) <= 48:
        return r
    return "binding"


def step_sig(s, iv, mv):
    k = s[0]
    op = {"G": "get", "S": "set", "PDQ": "probe_double_quotes", "POC": "probe_occurs_check",
          "PUNK": "probe_unknown"}[k]
    sig = {"family": "flags", "op": op, "impl": kind(iv), "model": kind(mv)}
    if k in ("G", "S"):
        if k == "G" and s[1][0] == "v":
            sig["op"] = "enum"
        sig["flag"] = "_" if s[1][0] == "v" else to_prolog(s[1])
        sig["vclass"] = vclass(s[1], s[2])
    return sig


def judge(cases, impl, model, replay=False):
    findings, agree = [], 0
    cov = {"set": {}, "err_kinds": {}, "probes": {}, "steps": 0}
    for c in cases:
        cid = c["id"]
        fx = model.get(cid + ".fixed", "missing").split(" ## ")
        sp = model.get(cid + ".spec", "missing").split(" ## ")
        pn = model.get(cid + ".pinned", "missing").split(" ## ")
        ok = True
        steps = c["steps"]
        if not (len(fx) == len(sp) == len(steps)):
            findings.append(core.Finding("disagreement", {"family": "flags", "op": "driver", "id": cid},
                                         "model driver output does not match the number of steps", slim(c)))
            continue
        if not str(impl.get(cid + ".u")).startswith("true"):
            findings.append(core.Finding("violation", {"family": "flags", "op": "setup", "impl": kind(str(impl.get(cid + ".u")))},
                                         "use_module(library(charsio)) did not succeed at the start of the history (twice)", slim(c)))
            continue
        if norm_impl(("R",), str(impl.get(cid + ".r0")), cid) != "true":
            ok = False
            findings.append(core.Finding("violation", {"family": "flags", "op": "reset", "impl": kind(str(impl.get(cid + ".r0")))},
                                         "restoring the default values of the writable flags did not succeed", slim(c)))
        for n, s in enumerate(steps):
            mv = norm_model(s, fx[n])
            cov["steps"] += 1
            if s[0] == "S":
                key = "%s/%s" % (to_prolog(s[1]) if s[1][0] != "v" else "_", vclass(s[1], s[2]))
                cov["set"][key] = cov["set"].get(key, 0) + 1
                if mv.startswith("{E="):
                    cov["err_kinds"][kind(mv)] = cov["err_kinds"].get(kind(mv), 0) + 1
            if s[0].startswith("P"):
                cov["probes"][s[0] + ":" + mv] = cov["probes"].get(s[0] + ":" + mv, 0) + 1
            if norm_model(s, sp[n]) != mv:
                ok = False
                findings.append(core.Finding("disagreement", {"family": "flags", "op": "spec-vs-clauses", "step": step_model(s)},
                                             "table specification and clause model differ (a theorem says they cannot)", slim(c)))
                break
            bad = None
            for qi in c["qids"][n]:
                iv = norm_impl(s, impl.get(qi, "missing"), cid)
                if replay:
                    print("replay %s  impl=%s  model=%s  pinned-model=%s" % (qi, iv, mv, norm_model(s, pn[n]) if n < len(pn) else "?"))
                if iv != mv:
                    bad = (qi, iv)
                    break
            if bad is None:
                continue
            ok = False
            qi, iv = bad
            sig = step_sig(s, iv, mv)
            pin = norm_model(s, pn[n]) if n < len(pn) else "?"
            # does the clause model of the pinned commit give the implementation's answer? (yes for the
            # deviations documented in notes/findings/C44-*.md; no for anything new)
            sig["pinned_clauses_predict_impl"] = "yes" if pin == iv else "no"
            detail = ("step %d of the history: implementation answers %s, the proved model (ISO 8.17 table, corrected clauses) answers %s; "
                      "the clause model of the pinned commit %s the implementation (%s)"
                      % (n, iv, mv, "predicts" if pin == iv else "does NOT predict", pin))
            findings.append(core.Finding("violation", sig, detail, dict(slim(c), failing_step=n,
                                                                        failing_query=c["queries"][n])))
            if s[0] == "S" and (kind(iv) == "true") != (kind(mv) == "true") and s[1][0] == "a" and s[1][1] in WRITABLE:
                break  # the states may have diverged: later differences would be echoes
        if norm_impl(("R",), str(impl.get(cid + ".r1")), cid) != "true" and ok:
            ok = False
            findings.append(core.Finding("violation", {"family": "flags", "op": "reset", "impl": kind(str(impl.get(cid + ".r1")))},
                                         "restoring the default values of the writable flags did not succeed", slim(c)))
        if ok:
            agree += 1
    return findings, agree, cov


def infra_failed(c, impl):
    ids = [c["id"] + ".u", c["id"] + ".r0", c["id"] + ".r1"] + [q for qs in c["qids"] for q in qs]
    if not str(impl.get(c["id"] + ".u")).startswith("true"):
        return True
    for i in ids:
        r = impl.get(i)
        if r is None or r.startswith(("panic(", "timeout", "abort(", "skipped(")):
            return True
    return False


def slim(c):
    return {"id": c["id"], "steps": c["steps"], "note": c.get("note")}


def nontrivial(steps):
    """a history is non-trivial when it has a write followed by a read or probe."""
    seen_w = False
    for s in steps:
        if s[0] == "S":
            seen_w = True
        elif seen_w:
            return True
    return False


def run(ctx):
    rng, tier = ctx["rng"], ctx["tier"]
    rep = diff.replay_case(ctx)
    hists = []
    if rep is not None:
        hists = [([tuple(tup(s)) for s in c["steps"]], c.get("note")) for c in rep]
    else:
        for c in diff.load_corpus("C44"):
            hists.append(([tuple(tup(s)) for s in c["steps"]], "corpus " + c.get("corpus", "")))
        hists += [(h, "sweep") for h in sweep_cases()]
        if tier == "thorough":
            hists += [(h, "pairs") for h in pair_cases()]
        n = 1500 if tier == "quick" else 40000
        hists += [(rand_history(rng), "random") for _ in range(n)]
    cases = [make_case("c%d" % i, h, note) for i, (h, note) in enumerate(hists)]
    # flag queries never run long: the watchdog is only there for a hang introduced by a change, and
    # must not fire because the machine is busy (an interrupt during library loading can panic)
    env = {"SV_TIMEOUT_MS": "120000"}
    impl, model = diff.run_cases(cases, impl_env=env)
    # infrastructure failures (a worker died, a library did not load, a watchdog interrupt): run the
    # affected histories again, one after the other on one fresh process, before judging them
    again = [c for c in cases if infra_failed(c, impl)]
    retried = len(again)
    if again:
        impl2 = core.run_impl(["R\t%s.R" % again[0]["id"]] + [l for c in again for l in c["impl"]], env=env)
        impl.update(impl2)
    findings, agree, cov = judge(cases, impl, model, replay=rep is not None)
    # deviations that the clause model of the pinned commit does not predict are reported first
    findings.sort(key=lambda f: 0 if f.sig.get("pinned_clauses_predict_impl") == "no" else 1)
    distinct = set()
    lens = {}
    for c in cases:
        nw = sum(1 for s in c["steps"] if s[0] == "S")
        lens[nw] = lens.get(nw, 0) + 1
        if nontrivial(c["steps"]):
            distinct.add(c["model"][0].split("\t", 3)[3])
    return {
        "evaluations": len(cases),
        "distinct_nontrivial": len(distinct),
        "rule": "histories = (1) sweep: every flag x every catalogued value (appropriate / inappropriate / insufficiently instantiated / unbound) and every invalid flag term, each write followed by the read-back with the same value, the read with unbound value, the behavioural probe, a full enumeration and all three probes, from the default and from a non-default state; (2) thorough: every ordered pair of appropriate writes to writable flags; (3) random histories of 1..10 operations (55% writes biased to writable flags, 45% reads given/enumerated/by value/invalid flag and probes). non-trivial = a write followed by at least one read or probe; distinct by the sequence of steps",
        "samples": [" ; ".join(step_model(s) for s in c["steps"]) for c in (cases[:2] + cases[-2:])],
        "traces_validated_against_impl": agree,
        "disagreements_checked": len(cases) - agree,
        "steps_compared": cov["steps"],
        "histories_rerun_after_infrastructure_failure": retried,
        "writes_by_flag_and_value_class": cov["set"],
        "error_kinds_hit": cov["err_kinds"],
        "probe_outcomes_hit": cov["probes"],
        "histories_by_number_of_writes": {str(k): v for k, v in sorted(lens.items())},
        "exhaustive": False,
        "findings": findings,
    }
