"""C27 — clp(Z) labeling is sound and complete on finite domains.

One abstract *system* = bounded domains for variables V0..Vn-1 plus a list of constraints
(nested tuples).  From it we render
  * Prolog text for the implementation (library(clpz) through the harness) and
  * the S-expression line for the Lean reference solver drv_C27 (Model/Fd.lean).
The theorems in Props/C27.lean are about the reference solver (`solutions`, `labelWith`);
clpz's propagators are NOT mirrored, they are tied to the reference only by this run:
  label/1        : same answers, each once, in the model's (lexicographic) order
  labeling(Opts) : leftmost -> exact order (up: ascending, down: descending lexicographic);
                   ff/ffc/min/max selection -> same multiset of answers (order depends on propagation)
  min(E)/max(E)  : same multiset, and the sequence of E values is monotone
  before labeling: fd_dom/fd_inf/fd_sup of every variable contain the projection of the solution set
  ground         : ground constraints decide like the model and like is/2 + comparison
  domains        : `X in D`, `X in D1, X in D2` denote the set / the intersection
"""
import time

from .. import core, diff

LEVEL = "partial"
TRUSTED_BASE = [
    "vlib/props/C27.py renders one abstract constraint system both as Prolog text (library(clpz) syntax) and as the S-expression line of drv_C27; the two renderers are a dozen lines each, side by side",
    "the reference semantics in Model/Fd.lean (what each clp(Z) functor means on integers: // truncates, div floors, mod takes the divisor's sign, / is exact division, ^ with negative exponent only for ±1, undefined sub-expression makes the atomic relation false) was read off clpz.pl's parse_clpz/parse_reified tables and the library documentation; the run compares it with is/2 on ground instances",
    "the Python judge compares answer lists (equality, multiset equality, subset of a parsed fd_dom term)",
]
ASSUMPTIONS = [
    "clpz's propagators (src/lib/clpz.pl, about 8000 lines of Prolog) are not modelled: a pruning bug is found only if a generated system reaches it",
    "systems are small: 2-5 variables, at most 5 constraints, box of at most 3000 assignments; domains within -8..8, or narrow windows (width <= 5) around 0, ±2^31, ±2^55, ±2^63, ±2^64 in the large-magnitude stream",
    "every variable has a bounded domain (no inf/sup), as in the property statement",
    "bitwise functors (msb, lsb, popcount, xor, <<, >>, /\\, \\/, \\) and the global constraints circuit/cumulative/automaton/global_cardinality/lex_chain/… are outside the model",
]

IMPL_ENV = {"SV_TIMEOUT_MS": "60000"}

# ------------------------------------------------------------------ abstract syntax
# expr : ("v", i) | ("lit", n) | ("un", op, e) | ("bin", op, l, r)
# dom  : ("s", n) | ("r", l, h) | ("u", d1, d2)
# form : ("b", i) | ("k", 0|1) | ("rel", r, e1, e2) | ("in", i, dom) | ("not", f) | ("conn", c, f, g)
# con  : ("form", f) | ("alldiff", flavour, [e]) | ("sum", r, [e], e) | ("scalar", r, [n], [e], e)
#      | ("tuples", [[e]], [[n]]) | ("element", e, [e], e)

UN_PL = {"neg": "-(%s)", "abs": "abs(%s)", "sign": "sign(%s)"}
BIN_PL = {"add": "(%s + %s)", "sub": "(%s - %s)", "mul": "(%s * %s)", "tdiv": "(%s // %s)",
          "fdiv": "(%s div %s)", "mod": "(%s mod %s)", "rem": "(%s rem %s)", "exdiv": "(%s / %s)",
          "pow": "(%s ^ %s)", "min": "min(%s,%s)", "max": "max(%s,%s)"}
REL_PL = {"eq": "#=", "ne": "#\\=", "lt": "#<", "le": "#=<", "gt": "#>", "ge": "#>="}
CONN_PL = {"and": "#/\\", "or": "#\\/", "imp": "#==>", "rimp": "#<==", "iff": "#<==>", "xor": "#\\"}


def lit_pl(n):
    return str(n) if n >= 0 else "(%d)" % n


def e_pl(e):
    t = e[0]
    if t == "v":
        return "V%d" % e[1]
    if t == "lit":
        return lit_pl(e[1])
    if t == "un":
        return UN_PL[e[1]] % e_pl(e[2])
    return BIN_PL[e[1]] % (e_pl(e[2]), e_pl(e[3]))


def e_md(e):
    t = e[0]
    if t == "v":
        return "( v %d )" % e[1]
    if t == "lit":
        return str(e[1])
    if t == "un":
        return "( %s %s )" % (e[1], e_md(e[2]))
    return "( %s %s %s )" % (e[1], e_md(e[2]), e_md(e[3]))


def d_pl(d):
    if d[0] == "s":
        return lit_pl(d[1])
    if d[0] == "r":
        return "%s..%s" % (lit_pl(d[1]), lit_pl(d[2]))
    return "(%s \\/ %s)" % (d_pl(d[1]), d_pl(d[2]))


def d_md(d):
    if d[0] == "s":
        return "( s %d )" % d[1]
    if d[0] == "r":
        return "( r %d %d )" % (d[1], d[2])
    return "( u %s %s )" % (d_md(d[1]), d_md(d[2]))


def f_pl(f):
    t = f[0]
    if t == "b":
        return "V%d" % f[1]
    if t == "k":
        return str(f[1])
    if t == "rel":
        return "(%s %s %s)" % (e_pl(f[2]), REL_PL[f[1]], e_pl(f[3]))
    if t == "in":
        return "(V%d in %s)" % (f[1], d_pl(f[2]))
    if t == "not":
        return "(#\\ %s)" % f_pl(f[1])
    return "(%s %s %s)" % (f_pl(f[2]), CONN_PL[f[1]], f_pl(f[3]))


def f_md(f):
    t = f[0]
    if t == "b":
        return "( b %d )" % f[1]
    if t == "k":
        return "( k %d )" % f[1]
    if t == "rel":
        return "( rel %s %s %s )" % (f[1], e_md(f[2]), e_md(f[3]))
    if t == "in":
        return "( in %d %s )" % (f[1], d_md(f[2]))
    if t == "not":
        return "( not %s )" % f_md(f[1])
    return "( %s %s %s )" % (f[1], f_md(f[2]), f_md(f[3]))


def el_pl(es):
    return "[" + ",".join(e_pl(e) for e in es) + "]"


def il_pl(ns):
    return "[" + ",".join(str(n) for n in ns) + "]"


def c_pl(c):
    t = c[0]
    if t == "form":
        return f_pl(c[1])
    if t == "alldiff":
        return "%s(%s)" % (c[1], el_pl(c[2]))
    if t == "sum":
        return "sum(%s, %s, %s)" % (el_pl(c[2]), REL_PL[c[1]], e_pl(c[3]))
    if t == "scalar":
        return "scalar_product(%s, %s, %s, %s)" % (il_pl(c[2]), el_pl(c[3]), REL_PL[c[1]], e_pl(c[4]))
    if t == "tuples":
        return "tuples_in([%s], [%s])" % (",".join(el_pl(x) for x in c[1]), ",".join(il_pl(x) for x in c[2]))
    if t == "element":
        return "element(%s, %s, %s)" % (e_pl(c[1]), el_pl(c[2]), e_pl(c[3]))
    raise ValueError(t)


def el_md(es):
    return "( " + " ".join(e_md(e) for e in es) + " )" if es else "( )"


def il_md(ns):
    return "( " + " ".join(str(n) for n in ns) + " )" if ns else "( )"


def c_md(c):
    t = c[0]
    if t == "form":
        return "( form %s )" % f_md(c[1])
    if t == "alldiff":
        return "( alldiff %s )" % " ".join(e_md(e) for e in c[2])
    if t == "sum":
        return "( sum %s %s %s )" % (c[1], el_md(c[2]), e_md(c[3]))
    if t == "scalar":
        return "( scalar %s %s %s %s )" % (c[1], il_md(c[2]), el_md(c[3]), e_md(c[4]))
    if t == "tuples":
        return "( tuples ( %s ) ( %s ) )" % (" ".join(el_md(x) for x in c[1]), " ".join(il_md(x) for x in c[2]))
    if t == "element":
        return "( element %s %s %s )" % (e_md(c[1]), el_md(c[2]), e_md(c[3]))
    raise ValueError(t)


def sys_md(doms, cons):
    return "( sys ( %s ) ( %s ) )" % (" ".join(d_md(d) for d in doms), " ".join(c_md(c) for c in cons))


def ops_of(x, acc):
    """functor names used in an abstract term (for signatures / coverage)."""
    if isinstance(x, (list, tuple)):
        if x and isinstance(x[0], str):
            if x[0] in ("un", "bin", "rel", "conn"):
                acc.add(x[1])
            elif x[0] not in ("v", "lit", "s", "r", "u", "k"):
                acc.add(x[0])
        for y in x:
            ops_of(y, acc)
    return acc


def tup(x):
    """JSON round trip turns tuples into lists; normalise to lists."""
    if isinstance(x, (list, tuple)):
        return [tup(y) for y in x]
    return x


# ------------------------------------------------------------------ generators

BIG_BASES = [2 ** 31, -2 ** 31, 2 ** 55, -2 ** 55, 2 ** 63, -2 ** 63, 2 ** 64, -2 ** 64, 2 ** 62, 2 ** 32, 0]


def dom_size(d):
    return len(dom_set(d))


def dom_set(d):
    if d[0] == "s":
        return {d[1]}
    if d[0] == "r":
        return set(range(d[1], d[2] + 1))
    return dom_set(d[1]) | dom_set(d[2])


def gen_dom_small(rng, maxw):
    k = rng.random()
    if k < 0.12:
        return ("r", 0, 1)
    lo = rng.randint(-8, 8 - 1)
    w = rng.randint(1, max(1, min(maxw, 8 - lo + 1)))
    d = ("r", lo, lo + w - 1)
    if k > 0.8:
        # union with a singleton or a second range
        if rng.random() < 0.5:
            d = ("u", d, ("s", rng.randint(-8, 8)))
        else:
            l2 = rng.randint(-8, 7)
            d2 = ("r", l2, min(8, l2 + rng.randint(0, 2)))
            d = ("u", d, d2) if rng.random() < 0.5 else ("u", d2, d)
    return d


def gen_dom_big(rng):
    b = rng.choice(BIG_BASES) + rng.randint(-3, 3)
    w = rng.randint(1, 5)
    d = ("r", b, b + w - 1)
    if rng.random() < 0.15:
        b2 = rng.choice(BIG_BASES) + rng.randint(-2, 2)
        d = ("u", d, ("r", b2, b2 + rng.randint(0, 1)))
    return d


def gen_lit(rng, big):
    if big and rng.random() < 0.4:
        return ("lit", rng.choice(BIG_BASES) + rng.randint(-2, 2))
    return ("lit", rng.choice([0, 1, 1, 2, 2, 3, -1, -1, -2, -3, 4, 5, -4, 7]))


def gen_leaf(rng, n, big, pvar=0.7):
    if n > 0 and rng.random() < pvar:
        return ("v", rng.randrange(n))
    return gen_lit(rng, big)


BIN_W = [("add", 10), ("sub", 8), ("mul", 8), ("tdiv", 3), ("fdiv", 3), ("mod", 3), ("rem", 3),
         ("exdiv", 2), ("pow", 3), ("min", 2), ("max", 2)]
BIN_POP = [o for o, w in BIN_W for _ in range(w)]
LIN_POP = ["add"] * 5 + ["sub"] * 4 + ["mul"]


def gen_expr(rng, n, depth, big, nopow=False, pvar=0.7):
    if depth <= 0 or rng.random() < 0.25:
        return gen_leaf(rng, n, big, pvar)
    if rng.random() < 0.12:
        return ("un", rng.choice(["neg", "abs", "abs", "sign"]), gen_expr(rng, n, depth - 1, big, nopow, pvar))
    op = rng.choice(BIN_POP)
    if op == "pow":
        if nopow:
            op = "mul"
        else:
            base = gen_expr(rng, n, min(depth - 1, 1), big, True, pvar)
            if big:
                ex = ("lit", rng.choice([0, 1, 2, 2, 3, -1]))
            elif rng.random() < 0.6:
                ex = ("lit", rng.choice([0, 1, 2, 2, 3, 3, 4, -1, -2]))
            else:
                ex = ("v", rng.randrange(n)) if n else ("lit", 2)
            return ("bin", "pow", base, ex)
    return ("bin", op, gen_expr(rng, n, depth - 1, big, nopow, pvar), gen_expr(rng, n, depth - 1, big, nopow, pvar))


def gen_rel(rng, n, big, depth=2, pvar=0.7):
    r = rng.choice(["eq", "eq", "eq", "ne", "lt", "le", "gt", "ge"])
    return ("rel", r, gen_expr(rng, n, depth, big, pvar=pvar), gen_expr(rng, n, rng.choice([0, 1, depth]), big, pvar=pvar))


def gen_form(rng, n, big, depth, bools, top=False):
    k = rng.random()
    if depth <= 0 or (not top and k < 0.3):
        a = rng.random()
        if a < 0.55:
            return gen_rel(rng, n, big, depth=1)
        if a < 0.8 and bools:
            # only variables whose domain is within 0..1: clpz raises a domain/type error (instead of
            # failing) when a variable already bound to another integer is used as a truth value
            return ("b", rng.choice(bools))
        if a < 0.9 and n:
            return ("in", rng.randrange(n), gen_dom_big(rng) if big and rng.random() < 0.5 else gen_dom_small(rng, 5))
        return ("k", rng.choice([0, 1]))
    if k < 0.45:
        return ("not", gen_form(rng, n, big, depth - 1, bools))
    c = rng.choice(["and", "or", "or", "imp", "imp", "rimp", "iff", "iff", "xor"])
    return ("conn", c, gen_form(rng, n, big, depth - 1, bools), gen_form(rng, n, big, depth - 1, bools))


def gen_terms(rng, n, k, big, pvar=0.85):
    return [gen_leaf(rng, n, big, pvar) for _ in range(k)]


def gen_con(rng, n, big, bools):
    k = rng.random()
    if k < 0.45:
        return ("form", gen_rel(rng, n, big))
    if k < 0.65:
        return ("form", gen_form(rng, n, big, rng.choice([1, 2, 2, 3]), bools, top=True))
    if k < 0.73:
        m = rng.randint(2, max(2, min(n + 1, 5)))
        if rng.random() < 0.7 and n >= 2:
            vs = [("v", i) for i in rng.sample(range(n), min(n, m))]
            if rng.random() < 0.3:
                vs.insert(rng.randrange(len(vs) + 1), gen_lit(rng, big))
        else:
            vs = gen_terms(rng, n, m, big)
        return ("alldiff", rng.choice(["all_different", "all_distinct"]), vs)
    if k < 0.80:
        m = rng.randint(1, 4)
        return ("sum", rng.choice(["eq", "eq", "ne", "lt", "le", "gt", "ge"]), gen_terms(rng, n, m, big, 0.9),
                gen_expr(rng, n, rng.choice([0, 0, 1]), big))
    if k < 0.87:
        m = rng.randint(1, 4)
        cs = [(rng.choice(BIG_BASES) + rng.randint(-1, 1)) if big and rng.random() < 0.3 else rng.randint(-3, 3)
              for _ in range(m)]
        return ("scalar", rng.choice(["eq", "eq", "ne", "lt", "le", "gt", "ge"]), cs, gen_terms(rng, n, m, big, 0.9),
                gen_expr(rng, n, rng.choice([0, 0, 1]), big))
    if k < 0.94:
        m = rng.randint(1, 4)
        return ("element", gen_leaf(rng, n, False, 0.85), gen_terms(rng, n, m, big, 0.6), gen_leaf(rng, n, big, 0.8))
    ar = rng.randint(1, min(3, max(1, n)))
    nt = rng.randint(1, 2)
    ts = [gen_terms(rng, n, ar, big, 0.85) for _ in range(nt)]
    rel = [[(rng.choice(BIG_BASES) + rng.randint(-2, 2)) if big and rng.random() < 0.5 else rng.randint(-4, 6)
            for _ in range(ar)] for _ in range(rng.randint(0, 6))]
    return ("tuples", ts, rel)


MAXBOX = 3000


def gen_system(rng, big):
    n = rng.choice([2, 2, 3, 3, 3, 4, 4, 5])
    while True:
        if big:
            doms = [gen_dom_big(rng) if rng.random() < 0.6 else gen_dom_small(rng, 5) for _ in range(n)]
        else:
            doms = [gen_dom_small(rng, rng.choice([3, 5, 9, 17])) for _ in range(n)]
        box = 1
        for d in doms:
            box *= dom_size(d)
        if box <= MAXBOX:
            break
    bools = [i for i, d in enumerate(doms) if dom_set(d) <= {0, 1}]
    cons = [gen_con(rng, n, big, bools) for _ in range(rng.choice([1, 2, 2, 3, 3, 4, 5]))]
    # large-magnitude stream: domains are always posted first (a constraint such as all_distinct posted
    # while a variable still has a 2^64-wide interval makes clpz enumerate that interval)
    return {"n": n, "doms": doms, "cons": cons, "big": big, "box": box,
            "interleave": (not big) and rng.random() < 0.3, "perm": rng.random()}


SELS = ["leftmost", "ff", "ffc", "min", "max"]
ORDS = ["up", "down"]
CHOICES = ["step", "enum", "bisect"]


def all_option_sets():
    out = []
    for s in [None] + SELS:
        for o in [None] + ORDS:
            for c in [None] + CHOICES:
                opts = [x for x in (s, o, c) if x is not None]
                if opts:
                    out.append(opts)
    return out


OPTION_SETS = all_option_sets()


def post_goals(sysd, rng_perm):
    """the goals that post domains and constraints (domains first, or interleaved deterministically)."""
    doms = ["V%d in %s" % (i, d_pl(d)) for i, d in enumerate(sysd["doms"])]
    cons = [c_pl(c) for c in sysd["cons"]]
    if not sysd.get("interleave"):
        return doms + cons
    # deterministic interleaving derived from the stored number `perm`
    import random as _r
    r = _r.Random(int(sysd["perm"] * 1e9))
    # the domains of 0/1 variables stay in front: a constraint posted earlier could bind such a variable to
    # another integer, and clpz raises a domain_error (instead of failing) when it is then used as a truth value
    first = [g for g, d in zip(doms, sysd["doms"]) if dom_set(tuple_deep(d)) <= {0, 1}]
    goals = [g for g in doms if g not in first] + cons
    r.shuffle(goals)
    return first + goals


def make_system_case(cid, sysd, optsets, optim=None):
    n = sysd["n"]
    vs = "[" + ",".join("V%d" % i for i in range(n)) + "]"
    goals = post_goals(sysd, None)
    post = ", ".join(goals)
    md = sys_md(sysd["doms"], sysd["cons"])
    impl = ["Q\t%s.u\t1\tuse_module(library(clpz))." % cid]
    model = ["solve\t%s.m\tleftmost\tup\tref\t%s" % (cid, md)]
    queries = {}
    q = "catch(findall(%s, (%s, label(%s)), L), error(E,_), true)." % (vs, post, vs)
    impl.append("Q\t%s.l\t2\t%s" % (cid, q))
    queries["l"] = q
    for j, opts in enumerate(optsets):
        q = "catch(findall(%s, (%s, labeling([%s], %s)), L), error(E,_), true)." % (vs, post, ",".join(opts), vs)
        impl.append("Q\t%s.o%d\t2\t%s" % (cid, j, q))
        queries["o%d" % j] = q
    if optim:
        # optimisation options: answers paired with the value of the objective
        ostr = ",".join("%s(%s)" % (d, e_pl(e)) for d, e in optim)
        keys = "[" + ",".join("K%d" % i for i in range(len(optim))) + "]"
        kgoals = ", ".join("K%d #= %s" % (i, e_pl(e)) for i, (d, e) in enumerate(optim))
        q = "catch(findall(%s-%s, (%s, labeling([%s], %s), %s), L), error(E,_), true)." % (vs, keys, post, ostr, vs, kgoals)
        impl.append("Q\t%s.x\t2\t%s" % (cid, q))
        queries["x"] = q
    # domains before labeling
    dq = ", ".join("fd_dom(V%d,D%d), fd_inf(V%d,I%d), fd_sup(V%d,S%d)" % (i, i, i, i, i, i) for i in range(n))
    outs = ",".join("D%d,I%d,S%d" % (i, i, i) for i in range(n))
    q = "catch((%s, %s, R = r(%s)), error(E,_), true)." % (post, dq, outs)
    impl.append("Q\t%s.d\t2\t%s" % (cid, q))
    queries["d"] = q
    return {"id": cid, "kind": "system", "sys": sysd, "optsets": optsets, "optim": optim,
            "impl": impl, "model": model, "queries": queries}


IS_UN = {"neg": "-(%s)", "abs": "abs(%s)", "sign": "sign(%s)"}


def make_ground_case(cid, g):
    """g: {"kind": "rel"|"value"|"con", …}"""
    impl = ["Q\t%s.u\t1\tuse_module(library(clpz))." % cid]
    model = []
    queries = {}
    if g["kind"] == "rel":
        f = g["form"]
        q = "catch((%s -> R = true ; R = false), error(E,_), true)." % f_pl(f)
        impl.append("Q\t%s.g\t2\t%s" % (cid, q))
        queries["g"] = q
        model.append("ground\t%s.g\t%s" % (cid, c_md(("form", f))))
        if g.get("is_ok"):
            cmp_ = {"eq": "=:=", "ne": "=\\=", "lt": "<", "le": "=<", "gt": ">", "ge": ">="}[f[1]]
            q = "catch((A is %s, B is %s, (A %s B -> R = true ; R = false)), error(_,_), R = undefined)." % (
                e_pl(f[2]), e_pl(f[3]), cmp_)
            impl.append("Q\t%s.i\t2\t%s" % (cid, q))
            queries["i"] = q
    elif g["kind"] == "value":
        e = g["expr"]
        q = "catch(findall(X, X #= %s, L), error(E,_), true)." % e_pl(e)
        impl.append("Q\t%s.g\t2\t%s" % (cid, q))
        queries["g"] = q
        model.append("eval\t%s.g\t%s" % (cid, e_md(e)))
        if g.get("is_ok"):
            q = "catch((Y is %s, R = ok(Y)), error(_,_), R = undefined)." % e_pl(e)
            impl.append("Q\t%s.i\t2\t%s" % (cid, q))
            queries["i"] = q
    else:
        c = g["con"]
        q = "catch((%s -> R = true ; R = false), error(E,_), true)." % c_pl(c)
        impl.append("Q\t%s.g\t2\t%s" % (cid, q))
        queries["g"] = q
        model.append("ground\t%s.g\t%s" % (cid, c_md(c)))
    return {"id": cid, "kind": "ground", "g": g, "impl": impl, "model": model, "queries": queries}


def make_dom_case(cid, d1, d2):
    impl = ["Q\t%s.u\t1\tuse_module(library(clpz))." % cid]
    queries = {}
    if d2 is None:
        post = "X in %s" % d_pl(d1)
        model = ["dom\t%s.m\t%s" % (cid, d_md(d1))]
    else:
        post = "X in %s, X in %s" % (d_pl(d1), d_pl(d2))
        model = ["inter\t%s.m\t%s %s" % (cid, d_md(d1), d_md(d2))]
    q = "catch(findall(X, (%s, label([X])), L), error(E,_), true)." % post
    impl.append("Q\t%s.l\t2\t%s" % (cid, q))
    queries["l"] = q
    q = "catch((%s, fd_dom(X,D0), fd_inf(X,I0), fd_sup(X,S0), fd_size(X,N0), R = r(D0,I0,S0,N0)), error(E,_), true)." % post
    impl.append("Q\t%s.d\t2\t%s" % (cid, q))
    queries["d"] = q
    return {"id": cid, "kind": "dom", "d1": d1, "d2": d2, "impl": impl, "model": model, "queries": queries}


def has_op(e, name):
    return name in ops_of(e, set())


def gen_ground(rng, big):
    k = rng.random()
    if k < 0.4:
        f = gen_rel(rng, 0, big, depth=3, pvar=0.0)
        return {"kind": "rel", "form": f, "is_ok": not has_op(f, "exdiv")}
    if k < 0.7:
        e = gen_expr(rng, 0, 3, big, pvar=0.0)
        return {"kind": "value", "expr": e, "is_ok": not has_op(e, "exdiv")}
    if k < 0.85:
        f = gen_form(rng, 0, big, 3, [], top=True)
        return {"kind": "con", "con": ("form", f)}
    while True:
        c = gen_con(rng, 0, big, [])
        if c[0] != "form":
            return {"kind": "con", "con": c}


# ------------------------------------------------------------------ parsing results

def split_top(s, sep=","):
    out, depth, cur, inq = [], 0, [], False
    i = 0
    while i < len(s):
        ch = s[i]
        if inq:
            cur.append(ch)
            if ch == "\\":
                i += 1
                if i < len(s):
                    cur.append(s[i])
            elif ch == "'":
                inq = False
        elif ch == "'":
            inq = True
            cur.append(ch)
        elif ch in "([{":
            depth += 1
            cur.append(ch)
        elif ch in ")]}":
            depth -= 1
            cur.append(ch)
        elif ch == sep and depth == 0:
            out.append("".join(cur))
            cur = []
        else:
            cur.append(ch)
        i += 1
    if cur or out:
        out.append("".join(cur))
    return out


def bindings(ans):
    """'{A=t,B=u}' -> dict; 'true' -> {}; other -> None"""
    ans = ans.strip()
    if ans == "true":
        return {}
    if not (ans.startswith("{") and ans.endswith("}")):
        return None
    d = {}
    for part in split_top(ans[1:-1]):
        k, _, v = part.partition("=")
        d[k] = v
    return d


def first_answer(res):
    return res.split(" ;; ")[0]


def parse_intlist(t):
    t = t.strip()
    if t == "[]":
        return []
    if not (t.startswith("[") and t.endswith("]")):
        raise ValueError(t)
    return [int(x) for x in split_top(t[1:-1])]


def parse_sol_list(t):
    """'[[1,2],[3,4]]' -> [(1,2),(3,4)]"""
    t = t.strip()
    if t == "[]":
        return []
    if not (t.startswith("[") and t.endswith("]")):
        raise ValueError(t)
    return [tuple(parse_intlist(x)) for x in split_top(t[1:-1])]


def parse_pair_list(t):
    """"['-'([1,2],[3]),…]" -> [((1,2),(3,)),…]"""
    t = t.strip()
    if t == "[]":
        return []
    out = []
    for x in split_top(t[1:-1]):
        if not (x.startswith("'-'(") and x.endswith(")")):
            raise ValueError(x)
        a, b = split_top(x[4:-1])
        out.append((tuple(parse_intlist(a)), tuple(parse_intlist(b))))
    return out


def parse_drep(t):
    """canonical fd_dom term -> list of (lo, hi) with None for inf/sup"""
    t = t.strip()
    if t.startswith("'\\\\/'(") and t.endswith(")"):
        a, b = split_top(t[6:-1])
        return parse_drep(a) + parse_drep(b)
    if t.startswith("'..'(") and t.endswith(")"):
        a, b = split_top(t[5:-1])
        return [(None if a == "'inf'" else int(a), None if b == "'sup'" else int(b))]
    return [(int(t), int(t))]


def in_drep(iv, x):
    return any((lo is None or lo <= x) and (hi is None or x <= hi) for lo, hi in iv)


def bound(t, inf):
    t = t.strip()
    if t in ("'inf'", "'sup'"):
        return None
    return int(t)


def parse_model_sols(r):
    """'n=K a,b;c,d' -> list of tuples"""
    if not r.startswith("n="):
        raise ValueError(r)
    head, _, rest = r.partition(" ")
    k = int(head[2:])
    if k == 0:
        return []
    sols = [tuple(int(x) for x in s.split(",")) for s in rest.split(";")]
    if len(sols) != k:
        raise ValueError(r)
    return sols


def transient(r):
    return r == "missing" or r.startswith("timeout") or r.startswith("abort") or r.startswith("skipped") or r.startswith("panic")


# ------------------------------------------------------------------ judge

def py_eval(e, env):
    """third opinion for the objective of optimisation options only (+ - * on integers)."""
    t = e[0]
    if t == "v":
        return env[e[1]]
    if t == "lit":
        return e[1]
    if t == "un":
        a = py_eval(e[2], env)
        return {"neg": -a, "abs": abs(a), "sign": (a > 0) - (a < 0)}[e[1]]
    a, b = py_eval(e[2], env), py_eval(e[3], env)
    return {"add": a + b, "sub": a - b, "mul": a * b, "min": min(a, b), "max": max(a, b)}[e[1]]


def classify(impl_sols, model_sols):
    si, sm = set(impl_sols), set(model_sols)
    if si - sm:
        return "unsound-extra-answer", sorted(si - sm)[:3]
    if sm - si:
        return "incomplete-missing-answer", sorted(sm - si)[:3]
    if len(impl_sols) != len(si):
        return "duplicate-answer", [s for s in si if impl_sols.count(s) > 1][:3]
    return None, None


def judge_system(c, impl, model, findings, stats, replay=False):
    cid = c["id"]
    sysd = c["sys"]
    ops = "+".join(sorted(ops_of(sysd["cons"], set())))
    mres = model.get(cid + ".m", "missing")
    try:
        msols = parse_model_sols(mres)
    except ValueError:
        findings.append(core.Finding("disagreement", {"family": "clpz", "kind": "model-error", "case": cid, "model": mres[:80]},
                                     "reference solver did not produce a solution list", slim(c)))
        return False
    stats["box"].append(sysd.get("box", 0))
    stats["nsol"].append(len(msols))
    ok = True

    def report(kind, what, q, detail, violation=True):
        sig = {"family": "clpz", "kind": kind, "query": what, "ops": ops, "big": str(bool(sysd.get("big"))),
               "goal": c["queries"].get(q, "")}
        findings.append(core.Finding("violation" if violation else "disagreement", sig, detail, slim(c)))

    def get_list(q, pairs=False):
        r = impl.get("%s.%s" % (cid, q), "missing")
        if transient(r):
            stats["timeouts"] += 1
            return None
        b = bindings(first_answer(r))
        if b is None or "L" not in b:
            stats["errors"] += 1
            report("error-instead-of-answers", q, q, "labeling raised or failed instead of enumerating: %s" % r[:200])
            return False
        try:
            return parse_pair_list(b["L"]) if pairs else parse_sol_list(b["L"])
        except ValueError:
            report("unparsable-answer", q, q, "answers are not integer lists: %s" % r[:200])
            return False

    # label/1: exact sequence
    sols = get_list("l")
    if replay:
        print("replay %s\n  model: %s\n  impl : %s" % (c["queries"]["l"], msols, sols))
    if sols is None:
        return None
    if sols is not False:
        kind, wit = classify(sols, msols)
        if kind:
            ok = False
            report(kind, "label", "l", "label/1 answers differ from the reference solution set; witnesses %s (impl %d answers, model %d)" % (wit, len(sols), len(msols)))
        elif sols != msols:
            ok = False
            report("order", "label", "l", "label/1 enumerates the right set in an order other than leftmost/ascending")
    else:
        ok = False
    # labeling with options
    for j, opts in enumerate(c["optsets"]):
        q = "o%d" % j
        sols = get_list(q)
        if replay:
            print("replay %s\n  impl : %s" % (c["queries"][q], sols))
        if sols is None:
            continue
        if sols is False:
            ok = False
            continue
        stats["opts"]["+".join(opts)] = stats["opts"].get("+".join(opts), 0) + 1
        kind, wit = classify(sols, msols)
        if kind:
            ok = False
            report(kind, "labeling[%s]" % ",".join(opts), q, "labeling(%s) answers differ from the reference solution set; witnesses %s" % (opts, wit))
            continue
        sel = [o for o in opts if o in SELS]
        if not sel or sel == ["leftmost"]:
            want = list(reversed(msols)) if "down" in opts else msols
            if sols != want:
                ok = False
                report("order", "labeling[%s]" % ",".join(opts), q, "labeling(%s) with leftmost selection is not in %s lexicographic order" % (opts, "descending" if "down" in opts else "ascending"))
    if c.get("optim"):
        prs = get_list("x", pairs=True)
        if replay:
            print("replay %s\n  impl : %s" % (c["queries"]["x"], prs))
        if prs is False:
            ok = False
        elif prs is not None:
            sols = [p[0] for p in prs]
            kind, wit = classify(sols, msols)
            if kind:
                ok = False
                report(kind, "labeling[optim]", "x", "labeling with min/max(Expr) answers differ from the reference solution set; witnesses %s" % (wit,))
            else:
                # keys as computed by the implementation must equal the objective and be sorted
                keys = []
                good = True
                for s, ks in prs:
                    want = tuple(py_eval(e, s) for d, e in c["optim"])
                    if want != ks:
                        good = False
                    keys.append(tuple(k if d == "min" else -k for k, (d, e) in zip(want, c["optim"])))
                if not good or keys != sorted(keys):
                    ok = False
                    report("optim-order", "labeling[optim]", "x", "answers of labeling([min/max(Expr)…]) are not ordered by the objectives")
                stats["optim"] += 1
    # domains before labeling
    r = impl.get(cid + ".d", "missing")
    if replay:
        print("replay %s\n  impl : %s" % (c["queries"]["d"], r))
    if transient(r):
        stats["timeouts"] += 1
    else:
        a = first_answer(r)
        if a == "false":
            stats["posting_failed"] += 1
            if msols:
                ok = False
                report("propagation-unsound", "post", "d", "posting the constraints fails although the reference has %d solutions, e.g. %s" % (len(msols), msols[0]))
        else:
            b = bindings(a)
            if b is None or "R" not in b:
                ok = False
                stats["errors"] += 1
                report("error-instead-of-answers", "post", "d", "posting raised: %s" % r[:200])
            else:
                parts = split_top(b["R"][len("'r'("):-1])
                for i in range(sysd["n"]):
                    iv = parse_drep(parts[3 * i])
                    lo, hi = bound(parts[3 * i + 1], True), bound(parts[3 * i + 2], False)
                    proj = {s[i] for s in msols}
                    bad = [x for x in proj if not in_drep(iv, x)]
                    if bad or (proj and ((lo is not None and lo > min(proj)) or (hi is not None and hi < max(proj)))):
                        ok = False
                        report("propagation-unsound", "fd_dom", "d",
                               "before labeling, the domain of V%d (%s, inf %s, sup %s) excludes value(s) %s that occur in solutions" % (i, parts[3 * i], lo, hi, sorted(bad)[:3] or sorted(proj)[:3]))
                        break
                    if lo is None or hi is None:
                        stats["unbounded_after_post"] += 1
                stats["dom_checks"] += 1
    return ok


def judge_ground(c, impl, model, findings, stats, replay=False):
    cid, g = c["id"], c["g"]
    r = impl.get(cid + ".g", "missing")
    m = model.get(cid + ".g", "missing")
    ri = impl.get(cid + ".i") if "i" in c["queries"] else None
    if replay:
        print("replay %s\n  model: %s\n  impl : %s\n  is/2 : %s" % (c["queries"]["g"], m, r, ri))
    if transient(r) or (ri is not None and transient(ri)):
        stats["timeouts"] += 1
        return None
    ops = "+".join(sorted(ops_of(g.get("form") or g.get("expr") or g.get("con"), set())))
    b = bindings(first_answer(r))

    def report(kind, detail, violation=True):
        sig = {"family": "clpz-ground", "kind": kind, "ops": ops, "goal": c["queries"]["g"], "impl": r[:80], "model": m}
        findings.append(core.Finding("violation" if violation else "disagreement", sig, detail, slim(c)))

    if b is None:
        report("error", "ground constraint did not decide: %s" % r[:120])
        return False
    if "E" in b:
        report("error", "ground constraint raised %s" % b["E"][:120])
        return False
    if g["kind"] == "value":
        try:
            vals = parse_intlist(b["L"])
        except (ValueError, KeyError):
            report("error", "unexpected answer %s" % r[:120])
            return False
        iv = "ok %d" % vals[0] if len(vals) == 1 else ("undefined" if not vals else "many")
        if iv != m:
            report("ground-value", "X #= E on ground E: implementation %s, reference %s" % (iv, m))
            return False
        if ri is not None:
            bi = bindings(first_answer(ri)) or {}
            t = bi.get("R", "?")
            isv = "ok " + t[len("'ok'("):-1] if t.startswith("'ok'(") else "undefined"
            if isv != iv:
                report("ground-vs-is", "X #= E gives %s but is/2 gives %s" % (iv, isv))
                return False
            stats["is_checked"] += 1
        return True
    iv = {"'true'": "true", "'false'": "false"}.get(b.get("R"), "?")
    if iv != m:
        report("ground-truth", "ground constraint decides %s, reference %s" % (iv, m))
        return False
    if ri is not None:
        bi = bindings(first_answer(ri)) or {}
        t = bi.get("R", "?")
        isv = {"'true'": "true", "'false'": "false", "'undefined'": "false"}.get(t, "?")
        if isv != iv:
            report("ground-vs-is", "ground relation decides %s but is/2 with comparison gives %s" % (iv, t))
            return False
        stats["is_checked"] += 1
    return True


def judge_dom(c, impl, model, findings, stats, replay=False):
    cid = c["id"]
    m = model.get(cid + ".m", "missing")
    want = [int(x) for x in m.split(",")] if m and m != "missing" else []
    rl, rd = impl.get(cid + ".l", "missing"), impl.get(cid + ".d", "missing")
    if replay:
        print("replay %s\n  model: %s\n  impl : %s | %s" % (c["queries"]["l"], m, rl, rd))
    if transient(rl) or transient(rd):
        stats["timeouts"] += 1
        return None

    def report(kind, detail):
        sig = {"family": "clpz-dom", "kind": kind, "goal": c["queries"]["l"], "impl": rl[:80], "model": m[:80]}
        findings.append(core.Finding("violation", sig, detail, slim(c)))

    b = bindings(first_answer(rl))
    try:
        got = parse_intlist(b["L"])
    except Exception:
        report("error", "domain query raised or failed: %s" % rl[:120])
        return False
    if got != want:
        report("domain-set", "labeling a variable with domain expression enumerates %s, the set denoted is %s" % (got[:8], want[:8]))
        return False
    a = first_answer(rd)
    if a == "false":
        if want:
            report("domain-set", "posting a non-empty domain fails")
            return False
        return True
    b = bindings(a)
    if b is None or "R" not in b:
        report("error", "fd_dom query raised: %s" % rd[:120])
        return False
    parts = split_top(b["R"][len("'r'("):-1])
    iv = parse_drep(parts[0])
    els = []
    for lo, hi in iv:
        els.extend(range(lo, hi + 1))
    if els != want or int(parts[1]) != want[0] or int(parts[2]) != want[-1] or int(parts[3]) != len(want):
        report("domain-set", "fd_dom/fd_inf/fd_sup/fd_size (%s) do not describe the set %s" % (b["R"][:80], want[:8]))
        return False
    return True


def slim(c):
    return {k: c[k] for k in ("id", "kind", "sys", "optsets", "optim", "g", "d1", "d2", "impl", "model", "queries") if k in c}


def rebuild(c):
    """re-render a stored case (corpus / replay) from its abstract part."""
    cid = c["id"]
    if c.get("kind") == "system":
        s = c["sys"]
        s = dict(s, doms=[tuple_deep(d) for d in s["doms"]], cons=[tuple_deep(x) for x in s["cons"]])
        optim = [(d, tuple_deep(e)) for d, e in c["optim"]] if c.get("optim") else None
        return make_system_case(cid, s, c.get("optsets", []), optim)
    if c.get("kind") == "ground":
        g = {k: (tuple_deep(v) if isinstance(v, list) else v) for k, v in c["g"].items()}
        return make_ground_case(cid, g)
    if c.get("kind") == "dom":
        return make_dom_case(cid, tuple_deep(c["d1"]), tuple_deep(c["d2"]) if c.get("d2") else None)
    return c


def tuple_deep(x):
    if isinstance(x, list):
        return tuple(tuple_deep(y) for y in x)
    return x


def gen_optim(rng, sysd):
    n = sysd["n"]
    out = []
    for _ in range(rng.choice([1, 1, 2])):
        k = rng.random()
        if k < 0.4:
            e = ("v", rng.randrange(n))
        else:
            op = rng.choice(["add", "sub", "mul", "max", "min"])
            e = ("bin", op, ("v", rng.randrange(n)), rng.choice([("v", rng.randrange(n)), ("lit", rng.randint(-2, 3))]))
            if rng.random() < 0.2:
                e = ("un", rng.choice(["abs", "neg"]), e)
        out.append((rng.choice(["min", "max"]), e))
    return out


def run(ctx):
    rng, tier = ctx["rng"], ctx["tier"]
    rep = diff.replay_case(ctx)
    cases = []
    if rep is not None:
        cases = [rebuild(c) for c in rep]
    else:
        for i, c in enumerate(diff.load_corpus("C27")):
            c = dict(c, id="k%d" % i)
            cases.append(rebuild(c))
        nsys, nbig, ngr, ndom = (170, 60, 300, 80) if tier == "quick" else (2200, 800, 6000, 1200)
        k = 0
        for big, cnt in ((False, nsys), (True, nbig)):
            # candidates are first solved by the reference; systems with at least one solution and
            # fewer than the whole box are preferred (about 80% of the stream)
            cand = [gen_system(rng, big) for _ in range(4 * cnt)]
            res = core.run_model(["solve\tp%d\tleftmost\tup\tref\t%s" % (i, sys_md(s["doms"], s["cons"])) for i, s in enumerate(cand)])
            good, dull = [], []
            for i, s in enumerate(cand):
                r = res.get("p%d" % i, "")
                ns = int(r.split(" ")[0][2:]) if r.startswith("n=") else -1
                (good if 0 < ns < s["box"] else dull).append(s)
            chosen = good[:int(cnt * 0.8)]
            chosen += dull[:cnt - len(chosen)]
            rng.shuffle(chosen)
            for sysd in chosen:
                if tier == "quick":
                    optsets = rng.sample(OPTION_SETS, 3)
                else:
                    optsets = rng.sample(OPTION_SETS, 6)
                optim = gen_optim(rng, sysd) if rng.random() < 0.3 else None
                cases.append(make_system_case("s%d" % k, sysd, optsets, optim))
                k += 1
        for j in range(ngr):
            cases.append(make_ground_case("g%d" % j, gen_ground(rng, rng.random() < 0.35)))
        for j in range(ndom):
            big = rng.random() < 0.3
            d1 = gen_dom_big(rng) if big else gen_dom_small(rng, 9)
            if rng.random() < 0.3:
                d1 = ("u", d1, gen_dom_big(rng) if big else gen_dom_small(rng, 5))
            d2 = None
            if rng.random() < 0.5:
                d2 = gen_dom_small(rng, 9) if not big else ("r", d1[1] - 1, d1[1] + 2) if d1[0] == "r" else gen_dom_big(rng)
                if rng.random() < 0.3:
                    d2 = ("u", d2, gen_dom_small(rng, 3))
            cases.append(make_dom_case("d%d" % j, d1, d2))
    t0 = time.time()
    impl, model = diff.run_cases(cases, impl_env=IMPL_ENV)
    # cases that hit the watchdog or lost their machine under load are run again, sequentially
    flaky = [c for c in cases if any(transient(impl.get(l.split("\t")[1], "missing")) for l in c["impl"])]
    retried = len(flaky)
    if flaky:
        impl2, _ = diff.run_cases([{"id": c["id"], "impl": c["impl"]} for c in flaky[:300]], impl_env=IMPL_ENV, parallel=False)
        impl.update(impl2)
    core.log("[C27] correspondence run: %d cases, %.1fs, %d retried" % (len(cases), time.time() - t0, retried))
    findings = []
    stats = {"box": [], "nsol": [], "timeouts": 0, "errors": 0, "opts": {}, "optim": 0, "posting_failed": 0,
             "dom_checks": 0, "unbounded_after_post": 0, "is_checked": 0}
    agree = total = 0
    distinct = set()
    opcount = {}
    kinds = {"system": 0, "system_big": 0, "ground": 0, "dom": 0}
    for c in cases:
        total += 1
        if c["kind"] == "system":
            ok = judge_system(c, impl, model, findings, stats, rep is not None)
            kinds["system_big" if c["sys"].get("big") else "system"] += 1
            ms = stats["nsol"][-1] if stats["nsol"] else 0
            bx = c["sys"].get("box", 0)
            for o in ops_of(c["sys"]["cons"], set()):
                opcount[o] = opcount.get(o, 0) + 1
            if ok and 0 < ms < bx:
                distinct.add(c["model"][0].split("\t", 5)[5])
        elif c["kind"] == "ground":
            ok = judge_ground(c, impl, model, findings, stats, rep is not None)
            kinds["ground"] += 1
        else:
            ok = judge_dom(c, impl, model, findings, stats, rep is not None)
            kinds["dom"] += 1
        if ok:
            agree += 1
    nsol = stats.pop("nsol")
    box = stats.pop("box")
    hist = {"0": 0, "1": 0, "2-9": 0, "10-99": 0, "100+": 0}
    for x in nsol:
        hist["0" if x == 0 else "1" if x == 1 else "2-9" if x < 10 else "10-99" if x < 100 else "100+"] += 1
    samples = [c["queries"].get("l") or c["queries"].get("g") for c in cases[:2] + cases[len(cases) // 2:len(cases) // 2 + 2] + cases[-2:]]
    return {
        "evaluations": sum(len(c["impl"]) - 1 for c in cases),
        "distinct_nontrivial": len(distinct),
        "rule": "random constraint systems (2-5 variables, 1-5 constraints from #= #\\= #< #=< #> #>= over + - * // div mod rem / ^ abs sign min max, reified #\\ #/\\ #\\/ #==> #<== #<==> #\\ with 0/1 variables and `in`, all_different/all_distinct, sum/3, scalar_product/4, element/3, tuples_in/2); small stream: domains within -8..8 (ranges and unions); large stream: windows of width <= 5 around 0, ±2^31, ±2^32, ±2^55, 2^62, ±2^63, ±2^64; non-trivial = the reference has at least one solution and fewer than the whole box; distinct by the model line of the system",
        "samples": samples,
        "traces_validated_against_impl": agree,
        "disagreements_checked": total - agree,
        "case_kinds": kinds,
        "functor_coverage": opcount,
        "solution_count_histogram": hist,
        "box_max": max(box) if box else 0,
        "retried_after_timeout": retried,
        "exhaustive": False,
        "findings": findings,
        **stats,
    }
