"""C33 — Heap writes never exceed the reserved capacity.

Tie: scripts of heap operations are run on the REAL `machine::heap::Heap` (harness op `HS`, hook
`verif_hooks::heap_script`) and on the Lean model `Model/Heap.lean` (`drv_C33`). After every
operation both report `(status, byte_len, byte_cap, returned cell, text read back)`; they must be
equal token by token. The hook itself flags `OVER` (`byte_len > byte_cap`), `GUARD` (while grows
are denied every operation runs with 512 guard bytes placed directly behind `byte_cap`; a
touched guard byte is an out-of-bounds write) and `DIRTY` (a failed operation changed `byte_len`).
"""
from .. import core, diff

LEVEL = "proof"
TRUSTED_BASE = [
    "hook verif_hooks::heap_script (+ the cfg(feature=verif) accessors in heap.rs: grow budget = fault injection in InnerHeap::grow, guard install/check/remove by realloc, verif_len_cap, verif_grow) drives the real Heap; harness op HS (notes/hooks/fam_c33.rs)",
    "the hook's read-back walk (PStrLoc -> char_iter + scan_slice_to_str, Lis -> character cell) mirrors HeapPStrIter::step; the model's `denote` is the same walk over model memory",
    "a HeapCellValue is modelled as eight opaque bytes; the allocator as a budget of successful grows; the allocation is 8-aligned (Layout align = size_of::<HeapCellValue>())",
]
ASSUMPTIONS = [
    "caller-side preconditions of the mirrored functions hold (copy_slice_to_end a <= b <= cell_len, truncate <= cell_len, sized_iter_to_heap_list iterator yields at most `size` items, a reservation's writer pushes at most the reserved number of cells, copy_pstr_within is given a location inside string data): calls that break them are refused by the model (`contract`) and never generated",
    "usize arithmetic does not overflow apart from the places the code checks itself (strings shorter than 2^59 bytes: theorem C33_compute_pstr_size_bound)",
    "byte_cap <= isize::MAX (guaranteed by Layout::from_size_align in grow / with_cell_capacity)",
]

E_ACUTE = "é".encode()
EURO = "€".encode()
SMILE = "😀".encode()


def hx(b):
    return b.hex() if b else "-"


def base_text(rng, n, kind):
    """n bytes of NUL-free text; kind: ascii | multi (multi-byte chars mixed in, still exactly n bytes)."""
    out = b""
    while len(out) < n:
        left = n - len(out)
        opts = [bytes([rng.choice(b"abcdefghijklmnopqrstuvwxyz")])]
        if kind == "multi":
            if left >= 2:
                opts.append(E_ACUTE)
            if left >= 3:
                opts.append(EURO)
            if left >= 4:
                opts.append(SMILE)
            out += rng.choice(opts[-2:]) if len(opts) > 1 and rng.random() < 0.6 else opts[0]
        else:
            out += opts[0]
    return out


NUL_CLASSES = ["none", "lead", "trail", "mid", "double", "lead+trail", "only", "many"]


def with_nuls(rng, text, cls):
    z = b"\x00"
    if cls == "none":
        return text
    if cls == "lead":
        return z + text
    if cls == "trail":
        return text + z
    if cls == "only":
        return z * rng.randint(1, 3)
    if cls == "lead+trail":
        return z + text + z
    # positions on character boundaries
    s = text.decode()
    if len(s) < 2:
        return text + z + text
    if cls == "mid":
        i = rng.randint(1, len(s) - 1)
        return s[:i].encode() + z + s[i:].encode()
    if cls == "double":
        i = rng.randint(1, len(s) - 1)
        return s[:i].encode() + z + z + s[i:].encode()
    # many
    out = b""
    for ch in s:
        out += ch.encode()
        if rng.random() < 0.4:
            out += z
    return out


def rand_string(rng, lens=None):
    n = rng.choice(lens or [0, 1, 2, 5, 6, 7, 7, 7, 8, 9, 14, 15, 15, 16, 17, 22, 23, 23, 24, 25, 31])
    kind = rng.choice(["ascii", "ascii", "multi"])
    cls = rng.choice(["none", "none", "none"] + NUL_CLASSES)
    t = base_text(rng, n, kind)
    if n == 0 and cls in ("mid", "double", "many"):
        cls = "only"
    return with_nuls(rng, t, cls), (n % 8, kind, cls)


def first_segment(s):
    """bytes of the first NUL-free segment if the string starts with one (PStrLoc), else None"""
    if not s or s[0] == 0:
        return None
    i = s.find(b"\x00")
    return s if i < 0 else s[:i]


def char_offsets(seg):
    t = seg.decode()
    offs, o = [], 0
    for ch in t:
        offs.append(o)
        o += len(ch.encode())
    return offs


OPKINDS = ["copypstr", "pstr", "cstr", "reserve", "list", "append", "copyslice", "functor", "push"]


class Script:
    """Builds the operation list. Discipline that keeps the read-back well defined on the real heap:
    `allocate_pstr` leaves the tail slot to its caller, so after a `pstr` the next thing written
    must be a cell: before any other writing operation `budget none; push 1; budget <previous>`
    is inserted (reads in between see the unwritten tail slot)."""

    def __init__(self):
        self.ops = []
        self.strings = []        # byte strings in the order the hook numbers them (None: dead)
        self.budget = "none"
        self.pending_tail = False

    def close_tail(self):
        if self.pending_tail:
            if self.budget != "none":
                self.ops += ["budget none", "push 1", "budget %s" % self.budget]
            else:
                self.ops.append("push 1")
            self.pending_tail = False

    def add(self, op):
        w = op.split()
        if w[0] == "budget":
            self.budget = w[1]
            self.ops.append(op)
            return
        if w[0] in ("read", "step"):
            self.ops.append(op)
            return
        self.close_tail()
        self.ops.append(op)
        if w[0] == "pstr":
            self.pending_tail = True
        if w[0] == "truncate":
            # the hook forgets strings that reach beyond the cut; we do not know extents here:
            # forget all but keep the numbering
            self.strings = [None] * len(self.strings)

    def live(self):
        return [(i, s) for i, s in enumerate(self.strings) if s is not None]


def gen_op(rng, kind, sc, cells_hint):
    """returns (op text, descriptor); sc: Script"""
    if kind == "copypstr":
        cands = [(i, first_segment(s)) for i, s in sc.live() if first_segment(s)]
        if not cands:
            return None
        i, seg = rng.choice(cands)
        off = rng.choice(char_offsets(seg))
        return "copypstr %d %d" % (i, off), ("copypstr", (len(seg) - off) % 8)
    if kind in ("pstr", "cstr", "functor"):
        s, d = rand_string(rng)
        if kind != "functor":
            sc.strings.append(s)
        return "%s %s" % (kind, hx(s)), (kind,) + d
    if kind == "reserve":
        n = rng.choice([0, 1, 2, 3, 5, 8, 13])
        k = rng.randint(0, n)
        return "reserve %d %d" % (n, k), ("reserve", n, k == n)
    if kind == "list":
        size = rng.choice([0, 1, 2, 3, 6])
        items = size if rng.random() < 0.7 else rng.randint(0, size)
        return "list %d %d" % (size, items), ("list", size, items == size)
    if kind == "append":
        n = rng.choice([0, 1, 2, 3, 7, 12])
        return "append %d" % n, ("append", n)
    if kind == "copyslice":
        b = rng.randint(0, max(0, cells_hint))
        a = rng.randint(0, b)
        return "copyslice %d %d" % (a, b), ("copyslice", min(b - a, 13))
    if kind == "push":
        n = rng.randint(1, 4)
        return "push %d" % n, ("push", n)
    return None


def fill_script(rng, i, kind, k, natural):
    """exact fill level cap - 8k, then one operation of `kind`, then read-backs and a few more ops"""
    cap = rng.choice([128, 130, 160, 192, 256])
    sc = Script()
    sc.add("budget 0")
    nstr = rng.randint(1, 3)
    for _ in range(nstr):
        s, _d = rand_string(rng, [1, 3, 6, 7, 7, 8, 9, 15, 15, 16, 23])
        if rng.random() < 0.7 or kind == "copypstr":
            # copypstr needs a string that starts with text: bias to 7 mod 8
            s = base_text(rng, rng.choice([7, 7, 15, 23, 5, 8, 1, 31]), rng.choice(["ascii", "multi"]))
            if rng.random() < 0.3:
                s = s + b"\x00" + base_text(rng, rng.randint(1, 9), "ascii")
        sc.strings.append(s)
        sc.add("%s %s" % (rng.choice(["pstr", "cstr"]), hx(s)))
        if rng.random() < 0.5:
            sc.add("push 1")
    sc.close_tail()
    sc.ops.append("push 99999")                 # budget 0: fills the heap exactly to byte_cap, then err
    keep = list(sc.strings)
    sc.ops.append("truncate %d" % (cap - k))    # fill level cap - 8k (the strings sit far below the cut)
    sc.strings = keep
    if natural:
        sc.add("budget none" if rng.random() < 0.7 else "budget %d" % rng.randint(1, 2))
    g = gen_op(rng, kind, sc, cap - k)
    if g is None:
        return None
    op, desc = g
    sc.add(op)
    # afterwards: read everything back, and go on a little
    for j, _s in sc.live():
        sc.add("read %d" % j)
        if rng.random() < 0.5:
            sc.add("step %d" % j)
    for _ in range(rng.randint(0, 3)):
        g2 = gen_op(rng, rng.choice(OPKINDS), sc, cap - k)
        if g2:
            sc.add(g2[0])
    if rng.random() < 0.5:
        sc.close_tail()
        for j, _s in sc.live():
            sc.add("read %d" % j)
    return mk_case(i, cap, sc.ops, "fill", (desc, k, natural))


def random_script(rng, i):
    cap = rng.choice([0, 2, 2, 4, 6, 8, 10, 16, 24, 32, 40, 64])
    sc = Script()
    if rng.random() < 0.4:
        sc.add("budget %d" % rng.randint(0, 3))
    n = rng.randint(3, 14)
    cells = 0
    for _ in range(n):
        r = rng.random()
        if r < 0.08:
            sc.add(rng.choice(["budget 0", "budget 1", "budget 2", "budget none"]))
            continue
        if r < 0.14:
            sc.add("grow")
            continue
        if r < 0.22 and sc.live():
            sc.add("%s %d" % (rng.choice(["read", "step"]), rng.choice(sc.live())[0]))
            continue
        if r < 0.27 and cells > 0:
            cells = rng.randint(0, cells)
            sc.add("truncate %d" % cells)
            continue
        g = gen_op(rng, rng.choice(OPKINDS), sc, 0 if cap == 0 else min(cells, 20))
        if g:
            sc.add(g[0])
            cells += 1
    return mk_case(i, cap, sc.ops, "random", None)


def readback_script(rng, i, n, kind, cls):
    """every length x character kind x NUL class: allocate, read back both ways, copy from every offset"""
    t = base_text(rng, n, kind)
    s = with_nuls(rng, t, cls if n > 0 or cls in ("none", "lead", "trail", "only", "lead+trail") else "only")
    cap = rng.choice([0, 64, 128, 256]) if len(s) < 6 else rng.choice([128, 256, 512])
    sc = Script()
    a = rng.choice(["pstr", "cstr"])
    if rng.random() < 0.5:
        sc.add("push %d" % rng.randint(1, 3))
    sc.strings.append(s)
    sc.add("%s %s" % (a, hx(s)))
    sc.add("read 0")
    if a == "pstr" and rng.random() < 0.6:
        sc.close_tail()       # a tail cell that is not a list
    sc.add("read 0")
    sc.add("step 0")
    seg = first_segment(s)
    if seg:
        for off in char_offsets(seg):
            sc.add("copypstr 0 %d" % off)
        sc.add("read 0")
    sc.strings.append(s)
    sc.add("cstr %s" % hx(s))
    sc.add("read 1")
    sc.add("step 1")
    return mk_case(i, cap, sc.ops, "readback", (n % 8, kind, cls))


def failure_script(rng, i):
    cap = rng.choice([0, 2, 4, 8, 16])
    b = rng.randint(0, 3)
    sc = Script()
    sc.add("budget %d" % b)
    sc.add("push %d" % rng.randint(0, 3))
    big = rng.choice(["reserve %d 0" % rng.choice([100, 1000, 5000, 70000, 2 ** 61, 2 ** 61 - 1 + 2 ** 40]),
                      "list %d 0" % rng.choice([2 ** 63, 2 ** 63 + 5, 400, 40000]),
                      "append %d" % rng.choice([30, 200, 1000]),
                      "cstr %s" % hx(b"\x00" * rng.choice([10, 40])),
                      "cstr %s" % hx(base_text(rng, rng.choice([100, 400]), "ascii")),
                      "push 300", "copyslice 0 %d" % rng.randint(0, 3)])
    sc.add(big)
    sc.add("push 2")
    sc.add("grow")
    sc.add("reserve 3 3")
    return mk_case(i, cap, sc.ops, "failure", (b, big.split()[0]))


SWEEP_STRINGS = [b"a\x00b\x00c", b"ab\x00cd\x00ef\x00g", b"abcdefg\x00hijklmno\x00p\x00q", b"\x00a\x00b\x00c\x00d",
                 "é\x00€\x00😀\x00x".encode(), b"a\x00\x00b\x00\x00c\x00\x00d", b"abcdefg", b"abcdefgh", b"\x00\x00\x00"]


def sweep_script(rng, i, s, kind, k, natural):
    """a string with several NUL-separated segments (where compute_pstr_size under-counts the link
    cells) allocated at EVERY free-space level k cells around the number of cells it occupies"""
    cap = 128
    sc = Script()
    sc.add("budget 0")
    sc.ops.append("push 99999")
    sc.ops.append("truncate %d" % (cap - k))
    if natural:
        sc.add("budget none")
    if kind == "functor":
        sc.add("functor %s" % hx(s))
    else:
        sc.strings.append(s)
        sc.add("%s %s" % (kind, hx(s)))
        sc.add("read 0")
        sc.add("step 0")
    sc.close_tail()
    sc.add("push 1")
    return mk_case(i, cap, sc.ops, "sweep", (kind, hx(s), k, natural))


def mk_case(i, cap, ops, family, desc):
    script = ";".join(ops)
    return {"id": "h%d" % i, "cap": cap, "script": script, "family": family, "desc": repr(desc),
            "impl": ["HS\th%d\t%d\t%s" % (i, cap, script)],
            "model": ["HS\th%d\t%d\t%s" % (i, cap, script)]}


def generate(rng, tier):
    cases = []
    i = 0
    reps = 2 if tier == "quick" else 24
    # A. every operation kind at every fill level cap - 8k, k = 0..12 (and a few larger), guarded and natural
    for _ in range(reps):
        for kind in OPKINDS:
            for k in list(range(0, 13)) + [rng.randint(13, 40)]:
                for natural in (False, True):
                    c = fill_script(rng, i, kind, k, natural)
                    if c:
                        cases.append(c)
                        i += 1
    # extra weight on the copy at the critical levels
    for _ in range(40 if tier == "quick" else 600):
        c = fill_script(rng, i, "copypstr", rng.choice([0, 1, 2, 3, 4, 5]), rng.random() < 0.5)
        if c:
            cases.append(c)
            i += 1
    # E. multi-segment strings at every free-space level around their size
    for s in SWEEP_STRINGS:
        for kind in ("cstr", "pstr", "functor"):
            for k in range(0, 26):
                for natural in ((False, True) if tier != "quick" else (k % 2 == 0,)):
                    cases.append(sweep_script(rng, i, s, kind, k, natural))
                    i += 1
    # B. every length mod 8 x character kind x NUL class
    lens = list(range(0, 18)) + [23, 24, 25, 31, 32, 33] if tier == "quick" else list(range(0, 42)) + [47, 48, 49, 63, 64, 65, 127, 128]
    for n in lens:
        for kind in ("ascii", "multi"):
            for cls in NUL_CLASSES:
                cases.append(readback_script(rng, i, n, kind, cls))
                i += 1
    # C. random sequences with natural growth from tiny capacities
    for _ in range(500 if tier == "quick" else 8000):
        cases.append(random_script(rng, i))
        i += 1
    # D. failing grows, overflow checks
    for _ in range(120 if tier == "quick" else 1500):
        cases.append(failure_script(rng, i))
        i += 1
    return cases


BAD_STATUS = ("GUARD", "OVER", "DIRTY", "PANIC")


def judge(c, it, mt, replaying=False):
    """returns (list of findings, agreed: bool, stats dict)"""
    findings = []
    ops = c["script"].split(";")
    itok, mtok = it.split(" "), mt.split(" ")
    sig0 = {"family": "heapops", "script_family": c.get("family", "?")}
    cc = {k: c[k] for k in ("id", "cap", "script", "impl", "model", "family", "desc") if k in c}
    if replaying:
        print("replay cap=%s\n script: %s" % (c["cap"], c["script"]))
        for j in range(max(len(itok), len(mtok))):
            print("  %-28s impl=%-44s model=%s" % (ops[j].strip() if j < len(ops) else "?", itok[j] if j < len(itok) else "-", mtok[j] if j < len(mtok) else "-"))
    if it.startswith("abort(") or it in ("missing", "PANIC") or it.startswith("skipped"):
        findings.append(core.Finding("violation", dict(sig0, what="crash", impl=it[:40]),
                                     "the harness process died / panicked while running the script on the real heap", cc))
        return findings, False
    for j, tk in enumerate(itok):
        f = tk.split(",")
        opname = ops[j].split()[0] if j < len(ops) and ops[j].split() else "?"
        over = False
        try:
            over = int(f[1]) > int(f[2])
        except Exception:
            pass
        if f[0] in BAD_STATUS or over:
            what = {"GUARD": "overrun", "OVER": "overrun", "DIRTY": "dirty-failure", "PANIC": "panic"}.get(f[0], "overrun")
            sig = dict(sig0, what=what, op=opname)
            if opname == "copypstr":
                # classify for known-finding matching: string length mod 8 and free space relative to copy size
                try:
                    prev = itok[j - 1].split(",")
                    free = int(prev[2]) - int(prev[1])
                    txt = tk.split(":")[1].split("@")[0]
                    slen = 0 if txt == "-" else len(txt) // 2
                    sig["slen_mod8"] = str(slen % 8)
                    sig["free"] = "copy_size" if free == slen + (8 - slen % 8) else str(free)
                except Exception:
                    pass
            findings.append(core.Finding(
                "violation", sig,
                "real heap: status %s after `%s` (byte_len=%s byte_cap=%s): a write outside the reserved region / a failed operation that changed the heap" % (f[0], ops[j].strip() if j < len(ops) else "?", f[1] if len(f) > 1 else "?", f[2] if len(f) > 2 else "?"), cc))
            return findings, False
    if itok != mtok:
        j = next((j for j in range(min(len(itok), len(mtok))) if itok[j] != mtok[j]), min(len(itok), len(mtok)))
        opname = ops[j].split()[0] if j < len(ops) and ops[j].split() else "?"
        findings.append(core.Finding(
            "disagreement", dict(sig0, what="impl-vs-model", op=opname,
                                 impl=itok[j] if j < len(itok) else "-", model=mtok[j] if j < len(mtok) else "-"),
            "after `%s` the real heap reports %s, the model %s" % (ops[j].strip() if j < len(ops) else "?",
                                                                    itok[j] if j < len(itok) else "-", mtok[j] if j < len(mtok) else "-"), cc))
        return findings, False
    return findings, True


def run(ctx):
    rng, tier = ctx["rng"], ctx["tier"]
    rep = diff.replay_case(ctx)
    if rep is not None:
        cases = rep
    else:
        cases = diff.load_corpus("C33") + generate(rng, tier)
        # corpus cases keep their ids; make ids unique
        seen = set()
        for n, c in enumerate(cases):
            if c["id"] in seen or "corpus" in c:
                nid = "k%d" % n
                c["impl"] = [l.replace("\t" + c["id"] + "\t", "\t" + nid + "\t", 1) for l in c["impl"]]
                c["model"] = [l.replace("\t" + c["id"] + "\t", "\t" + nid + "\t", 1) for l in c["model"]]
                c["id"] = nid
            seen.add(c["id"])
    impl, model = diff.run_cases(cases)
    findings, agree = [], 0
    distinct = set()
    ops_run = 0
    status_hit, opkinds_hit, fam_hit = {}, {}, {}
    grows = 0
    for c in cases:
        it, mt = impl.get(c["id"], "missing"), model.get(c["id"], "missing")
        fs, ok = judge(c, it, mt, replaying=rep is not None)
        findings.extend(fs)
        agree += 1 if ok else 0
        toks = it.split(" ")
        ops = c["script"].split(";")
        ops_run += len(toks)
        fam_hit[c.get("family", "?")] = fam_hit.get(c.get("family", "?"), 0) + 1
        prevcap = None
        for j, tk in enumerate(toks):
            f = tk.split(",")
            status_hit[f[0]] = status_hit.get(f[0], 0) + 1
            if j < len(ops) and ops[j].split():
                o = ops[j].split()[0]
                opkinds_hit[o] = opkinds_hit.get(o, 0) + 1
            if len(f) > 2:
                if prevcap is not None and f[2] != prevcap:
                    grows += 1
                prevcap = f[2]
        if c.get("family") in ("fill", "readback", "failure", "sweep"):
            distinct.add((c.get("family"), c.get("desc")))
        elif len(toks) > 3:
            distinct.add(c["script"])
    return {
        "evaluations": len(cases),
        "operations_executed": ops_run,
        "distinct_nontrivial": len(distinct),
        "rule": "scripts of heap operations on the real Heap and on the model; families: fill = heap filled exactly to byte_cap - 8k (k = 0..12 and some larger; `push` until full under a zero grow budget, then `truncate`) followed by one operation of each kind (copy_pstr_within from every character offset of strings of length 7/15/23/... , allocate_pstr/cstr, reserve+writes, sized_iter_to_heap_list, append, copy_slice_to_end, functor_writer, push_cell), both with grows denied (guard bytes behind byte_cap) and with natural growth; readback = strings of every length (all residues mod 8) x {ascii, multi-byte} x NUL classes {none, leading, trailing, middle, doubled, leading+trailing, only NULs, many}, allocated with allocate_pstr / allocate_cstr, read back through char_iter+scan_slice_to_str and through last_str_char_and_tail, copied from every character offset; sweep = strings with several NUL-separated segments (and 7/8-byte ones) allocated by allocate_cstr / allocate_pstr / functor_writer at every free-space level 0..25 cells; random = random operation sequences with natural growth from capacities 0..64 cells; failure = grow budgets 0..3 with operations that need several grows or overflow heap_index_checked/checked_mul. Non-trivial = distinct (family, operation kind, string class, k, mode) for the structured families, distinct scripts of more than 3 operations for the random family",
        "samples": [{"cap": c["cap"], "script": c["script"]} for c in cases[:2] + cases[len(cases) // 2: len(cases) // 2 + 2]],
        "traces_validated_against_impl": agree,
        "disagreements_checked": len(cases) - agree,
        "families": fam_hit,
        "status_hit": status_hit,
        "op_kinds_hit": opkinds_hit,
        "capacity_changes_observed": grows,
        "findings": findings,
    }
