"""C42 — Module qualification and imports resolve to the right definitions.

A case is a layout of 3..5 module files (written under build/tmp/C42): every module defines some
of the predicates p0..p2 (each answering with the number of its module), exports some of its own
definitions, and imports earlier modules with use_module/1 or use_module/2 (import lists); 70% of
the modules have their imports first, the others have them anywhere in the file. Every module also
has callers c_K(X) :- p_K(X) (unqualified call inside the module) for every K including a predicate
nobody defines; module 0 exports a meta-predicate mt/1.
After loading, for every module M and predicate K the defining module is observed through
M:p_K(X) (qualified), M:c_K(X) (unqualified inside M), M:call(p_K(X)), M:findall(..) (meta-predicate
arguments) and m0:mt(M:p_K(X)) (a qualified goal handed to another module's meta-predicate)
and compared with the model `drv_C42`: `spec` (the statement: own definition, else last import
providing it, else existence_error) and `mirror` (the code's last-writer-wins directory).
"""
import os
import shutil

from .. import core, diff

LEVEL = "proof"
TRUSTED_BASE = [
    "Model/Modules.lean: `spec` is a reading of the property statement; `mirror`/`toEvs` are a specification-level reading of import_module_exports / set_code_index / the term queue of loader.pl; the implementation is tied by the correspondence run only",
    "vlib/props/C42.py: rendering of a layout to module files and to driver tokens; each predicate answers with its module's number, so the answer identifies the definition that ran",
]
ASSUMPTIONS = [
    "modules import only modules loaded before them (no cycles); import lists name exported predicates only; export lists name own definitions only; `except` lists are not generated (use_module/2 with except(..) fails in the pinned implementation)",
    "flag unknown = error (the default)",
]

TMP = os.path.join(core.ROOT, "build", "tmp", "C42")
NK = 3          # p0..p2 are defined somewhere; p3 is defined nowhere


def esc(s):
    return s.replace("\\", "\\\\").replace("\n", "\\n").replace("\t", "\\t")


def gen_case(rng, cid):
    nm = rng.choice([3, 4, 4, 5])
    mods = []
    for i in range(nm):
        defs = [k for k in range(NK) if rng.random() < 0.55]
        exports = [k for k in defs if rng.random() < 0.75]
        uses = []
        for j in range(i):
            if mods[j]["exports"] and rng.random() < 0.6:
                if rng.random() < 0.5:
                    uses.append((j, None))
                else:
                    sel = [k for k in mods[j]["exports"] if rng.random() < 0.6] or [mods[j]["exports"][0]]
                    uses.append((j, sel))
        rng.shuffle(uses)
        clauses = []
        for k in defs:
            clauses.append(("c", k))
            if rng.random() < 0.3:
                clauses.append(("c", k))
        rng.shuffle(clauses)
        items = [("u", j, sel) for j, sel in uses] + clauses
        if rng.random() < 0.3:
            rng.shuffle(items)          # imports anywhere in the file
        mods.append({"defs": defs, "exports": exports, "items": items})
    return {"id": cid, "mods": mods}


def mname(c, i):
    return "m%d_%s" % (i, c["id"])


def path(c, i):
    return os.path.join(TMP, "%s.pl" % mname(c, i))


def render(c, i):
    m = c["mods"][i]
    ex = ["p%d/1" % k for k in m["exports"]] + ["c%d/1" % k for k in range(NK + 1)]
    if i == 0:
        ex.append("mt/1")
    out = [":- module(%s, [%s])." % (mname(c, i), ", ".join(ex))]
    for it in m["items"]:
        if it[0] == "c":
            out.append("p%d(%d)." % (it[1], i))
        else:
            if it[2] is None:
                out.append(":- use_module('%s')." % path(c, it[1]))
            else:
                out.append(":- use_module('%s', [%s])." % (path(c, it[1]), ", ".join("p%d/1" % k for k in it[2])))
    for k in range(NK + 1):
        out.append("c%d(X) :- p%d(X)." % (k, k))
    if i == 0:
        out.append(":- meta_predicate(mt(0)).")
        out.append("mt(G) :- call(G).")
    return "\n".join(out) + "\n"


def model_mod(c, i):
    m = c["mods"][i]
    toks = [str(i), ",".join(str(k) for k in m["exports"]) or "-"]
    for it in m["items"]:
        if it[0] == "c":
            toks.append("c:%d" % it[1])
        else:
            toks.append("u:%d:%s" % (it[1], "all" if it[2] is None else ",".join(str(k) for k in it[2])))
    for k in range(NK + 1):        # the callers are clauses of other predicates (they flush the queue)
        toks.append("c:%d" % (10 + k))
    return " ".join(toks)


FORMS = {
    "qualified": "catch(%(m)s:p%(k)d(X), error(existence_error(_, _), _), X = none).",
    "inside": "catch(%(m)s:c%(k)d(X), error(existence_error(_, _), _), X = none).",
    "call": "catch(%(m)s:call(p%(k)d(X)), error(existence_error(_, _), _), X = none).",
    "findall": "catch(%(m)s:findall(Y, p%(k)d(Y), [X|_]), error(existence_error(_, _), _), X = none).",
    "meta": "catch(%(m)s:(%(m0)s:mt(%(m)s:p%(k)d(X))), error(existence_error(_, _), _), X = none).",
}


def make_case(c):
    cid = c["id"]
    impl = []
    os.makedirs(TMP, exist_ok=True)
    for i in range(len(c["mods"])):
        with open(path(c, i), "w") as fh:
            fh.write(render(c, i))
    loads = []
    for i in range(len(c["mods"])):
        lid = "%s.l%d" % (cid, i)
        impl.append("Q\t%s\t2\t%s" % (lid, esc("use_module('%s')." % path(c, i))))
        loads.append(lid)
    obs = []
    for i in range(len(c["mods"])):
        for k in range(NK + 1):
            for f, tpl in FORMS.items():
                qid = "%s.q%d.%d.%s" % (cid, i, k, f)
                impl.append("Q\t%s\t2\t%s" % (qid, esc(tpl % {"m": mname(c, i), "k": k, "m0": mname(c, 0)})))
                obs.append((i, k, f, qid))
    mods = "|".join(model_mod(c, i) for i in range(len(c["mods"])))
    qs = " ".join("%d:%d" % (i, k) for i in range(len(c["mods"])) for k in range(NK + 1))
    return {"id": cid, "impl": impl,
            "model": ["res\t%s.spec\tspec\t%s\t%s" % (cid, mods, qs),
                      "res\t%s.mirror\tmirror\t%s\t%s" % (cid, mods, qs)],
            "loads": loads, "obs": obs, "spec": c}


def answer(r):
    if r is None:
        return "missing"
    r = r.split(" ;; ")[0]
    if r.startswith("{X=") and r.endswith("}"):
        return r[3:-1].strip("'")
    return r


def imports_first(m):
    seen = False
    for it in m["items"]:
        if it[0] == "c":
            seen = True
        elif seen:
            return False
    return True


def judge(cases, impl, model, replay=False):
    findings, agree = [], 0
    cov = {"obs": 0, "resolved": {"own": 0, "imported": 0, "none": 0}, "modules_imports_first": 0, "modules_mixed": 0,
           "spec_ne_mirror": 0}
    for case in cases:
        c, cid = case["spec"], case["id"]
        ok = True
        sp = model.get(cid + ".spec", "").split(" ")
        mi = model.get(cid + ".mirror", "").split(" ")
        nq = len(c["mods"]) * (NK + 1)
        if len(sp) != nq or len(mi) != nq:
            findings.append(core.Finding("disagreement", {"family": "driver"}, "driver output malformed: %s / %s" % (sp, mi), c))
            continue
        for m in c["mods"]:
            cov["modules_imports_first" if imports_first(m) else "modules_mixed"] += 1
        bad_load = [l for l in case["loads"] if not str(impl.get(l)).startswith("true")]
        if bad_load:
            findings.append(core.Finding("disagreement", {"family": "load", "impl": str(impl.get(bad_load[0]))[:60]},
                                         "use_module of a generated module file did not succeed: %s" % impl.get(bad_load[0]), c))
            continue
        for (i, k, f, qid) in case["obs"]:
            cov["obs"] += 1
            s, mr = sp[i * (NK + 1) + k], mi[i * (NK + 1) + k]
            got = answer(impl.get(qid))
            if replay:
                print("replay %s impl=%s spec=%s mirror=%s" % (qid, got, s, mr))
            if f == "qualified":
                cov["resolved"]["none" if s == "none" else ("own" if s == str(i) else "imported")] += 1
                if s != mr:
                    cov["spec_ne_mirror"] += 1
            if got == s:
                continue
            ok = False
            canon = imports_first(c["mods"][i])
            if got == mr:
                findings.append(core.Finding(
                    "violation",
                    {"family": "resolution", "what": "import-replaces-own-definition", "form": f,
                     "imports_first": "yes" if canon else "no"},
                    "module %d, predicate p%d, %s call: the definition of module %s answers; the statement (own definition first, theorem C42_local_shadows) says module %s; the module defines p%d itself and a later use_module imports p%d too (the code's last-writer-wins directory, model `mirror`, predicts the implementation)"
                    % (i, k, f, got, s, k, k), c))
            else:
                findings.append(core.Finding(
                    "violation",
                    {"family": "resolution", "what": "other", "form": f, "impl": got if got in ("none",) or got.isdigit() else "error",
                     "spec": "none" if s == "none" else ("own" if s == str(i) else "imported"),
                     "imports_first": "yes" if canon else "no"},
                    "module %d, predicate p%d, %s call: implementation answers %s, the statement says %s (mirror model says %s)"
                    % (i, k, f, got, s, mr), c))
        if ok:
            agree += 1
    return findings, agree, cov


def thaw(c):
    c = dict(c)
    c["mods"] = [dict(m, items=[tuple(it) if it[0] == "c" else ("u", it[1], it[2]) for it in m["items"]]) for m in c["mods"]]
    return c


def directed():
    out = [
        {"mods": [{"defs": [0, 1], "exports": [0, 1], "items": [("c", 0), ("c", 1)]},
                  {"defs": [0], "exports": [0], "items": [("c", 0), ("c", 0)]},
                  {"defs": [1], "exports": [], "items": [("u", 0, None), ("u", 1, None), ("c", 1)]}]},
        {"mods": [{"defs": [0, 1], "exports": [0, 1], "items": [("c", 0), ("c", 1)]},
                  {"defs": [0, 2], "exports": [2], "items": [("c", 0), ("c", 2), ("u", 0, [0])]},
                  {"defs": [0], "exports": [], "items": [("c", 0), ("u", 0, [0, 1])]}]},
    ]
    for n, c in enumerate(out):
        c["id"] = "d%d" % n
    return out


def infra(r):
    return r is None or r.startswith(("panic(", "timeout", "abort(", "skipped("))


def run(ctx):
    rng, tier = ctx["rng"], ctx["tier"]
    rep = diff.replay_case(ctx)
    shutil.rmtree(TMP, ignore_errors=True)
    os.makedirs(TMP, exist_ok=True)
    if rep is not None:
        specs = [thaw(c) for c in rep]
    else:
        specs = [thaw(c) for c in diff.load_corpus("C42")] + directed()
        n = 250 if tier == "quick" else 4000
        n = globals().get("N_OVERRIDE", n)
        specs += [gen_case(rng, "c%d" % i) for i in range(n)]
    cases = [make_case(c) for c in specs]
    env = {"SV_TIMEOUT_MS": "60000"}
    impl, model = diff.run_cases(cases, impl_env=env)
    again = [c for c in cases if any(infra(impl.get(core.line_id(l))) for l in c["impl"])]
    if again:
        impl.update(core.run_impl(["R\tretry.R"] + [l for c in again for l in c["impl"]], env=env))
    findings, agree, cov = judge(cases, impl, model, replay=rep is not None)
    distinct = {c["model"][0].split("\t", 3)[3] for c in cases}
    return {
        "evaluations": len(cases),
        "distinct_nontrivial": len(distinct),
        "rule": "a case = 3..5 module files; module i defines each of p0..p2 with probability .55 (answering i), exports each own definition with probability .75, imports each earlier module that exports something with probability .6 (half with an import list), items in the order imports-then-clauses (70%) or shuffled (30%); p3 is defined nowhere; every (module, predicate) is observed through 5 call forms (qualified, unqualified inside the module, call/1, findall/3, goal passed to another module's meta-predicate). every case has imports and is non-trivial; distinct by the layout",
        "samples": [c["model"][0].split("\t", 3)[3][:200] for c in cases[:3]],
        "traces_validated_against_impl": agree,
        "disagreements_checked": len(cases) - agree,
        "observations_compared": cov["obs"],
        "resolution_classes_hit": cov["resolved"],
        "modules_with_imports_first": cov["modules_imports_first"],
        "modules_with_imports_anywhere": cov["modules_mixed"],
        "lookups_where_statement_and_mechanism_differ": cov["spec_ne_mirror"],
        "histories_rerun_after_infrastructure_failure": len(again),
        "exhaustive": False,
        "findings": findings,
    }
