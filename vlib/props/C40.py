"""C40 — Inference-limited execution is deterministic and faithful.

One abstract *case* = a small program (clause list over terms, fragment of Model/Cwil.lean) plus a
few *limited goals* `call_with_inference_limit(G, L, R)`.  For each goal one clause
`s<k>_<id>(L, V) :- V = v(R, Vars…), call_with_inference_limit(G, L, R)` is added to the program, so
that the limit is a run-time argument and the observed answer is the single binding of V.  From the
case we produce
  * Prolog text consulted with an `L` line and, for every limit L of the sweep, the harness line
    `Q … catch(s<k>_<id>(L,_R),_B,true),copy_term(_R-_B,R-B).` (complete answer sequence + ball);
  * the same clause list in the harness' canonical term syntax for `drv_C40`
    (`Scryer.Cwil.run`, the instrumented reference interpreter the theorems of Props/C40.lean are
    about), one `run` line per limit.
Phase 1 runs the unlimited goal on the model to learn its full inference count `n`; the sweep is
0, 1, …, n+2 (sampled when n is large; random limits when the goal does not terminate).
Judged: (a) model = implementation for every (goal, L), complete answer sequences incl. R;
(b) on the implementation alone: the same line twice on one machine and on a fresh machine gives the
same result (determinism), answers along the sweep are prefix-monotone and stable once nothing was
exceeded (monotonicity), and above the count the answers are those of call(G) (faithfulness).

Terms are tuples as in vlib/props/C07.py: ('v',name) ('i',n) ('a',name) ('s',functor,[args]).
"""
import json
import os
import re
import time

from .. import core, diff
from . import C07 as K

LEVEL = "proof"
TRUSTED_BASE = [
    "Scryer.Cwil.run / limit (Model/Cwil.lean) is taken as the instrumented semantics: which steps are inferences was calibrated by experiment on a separate training set (notes/design/C40.md) and is then validated by this run on random programs; it is not derived from the WAM code generator",
    "vlib/props/C40.py renders one abstract clause list both as Prolog text and in the canonical term syntax read by drv_C40 (renderer shared with vlib/props/C07.py)",
    "first-argument indexing is only mirrored for the two predicate shapes the generator produces (all head arguments variables; every clause has an atomic first argument)",
    "the harness reads an uncaught compound ball imprecisely after a re-throw (notes/findings-misc.md): balls are caught inside the query and observed as bindings",
]
ASSUMPTIONS = [
    "goals stay inside the calibrated fragment: user predicates, true, fail, =/2, !, ',', ;, ->, \\+, call/1 and variable goals on plain predicate calls, throw/1, catch/3, nested call_with_inference_limit/3; meta-called goals are plain predicate calls (a control construct passed to call/1 is compiled at run time by library code whose cost is not mirrored)",
    "limits are non-negative integers below 2^63 in the sweep; larger / ill-typed limits only in the directed error cases",
    "flags at their defaults; library(iso_ext) loaded",
]

MAXA = 24
V, A, I, S = K.V, K.A, K.I, K.S
TRUE, FAIL, CUT = K.TRUE, K.FAIL, K.CUT
CWIL = 'call_with_inference_limit'
IMPL_ENV = {"SV_TIMEOUT_MS": "4000"}
# the reference interpreter computes the trace of the left goal of a conjunction up to the whole tick
# budget before it runs the right goal: its cost can grow exponentially with the budget on programs
# like `p. p :- p, p.`; budgets are kept small and a model line that takes too long is dropped
PHASE1_BUDGET = 48
MODEL_LINE_TIMEOUT = 6.0


def run_model_lines(lines):
    out = K.run_guarded(core.driver_bin("C40"), [[l] for l in lines], MODEL_LINE_TIMEOUT, 6)
    return {k: ("oof timeout" if v in ("hang", "skipped") or v.startswith("crash") else v) for k, v in out.items()}


def run_impl_cases(cases_lines, per_line_timeout, jobs, env):
    """guarded: a harness line that never answers (a loop the watchdog cannot interrupt) is `hang`."""
    return K.run_guarded(core.HARNESS_BIN, cases_lines, per_line_timeout, jobs, env)


def conj(gs):
    if not gs:
        return TRUE
    t = gs[-1]
    for g in reversed(gs[:-1]):
        t = S(',', g, t)
    return t


def has_functor(t, name):
    if t[0] == 's':
        return t[1] == name or any(has_functor(a, name) for a in t[2])
    return False


def nonvar_r(t):
    """does the term contain a call_with_inference_limit whose third argument is not a variable?"""
    if t[0] != 's':
        return False
    if t[1] == CWIL and len(t[2]) == 3 and t[2][2][0] != 'v':
        return True
    return any(nonvar_r(a) for a in t[2])


# ------------------------------------------------------------------ generator

class Gen:
    def __init__(self, rng, cid, nested_bias=0.5):
        self.rng, self.cid = rng, cid
        self.preds = []          # (name, arity, kind)
        self.nvar = 0
        self.nested_bias = nested_bias
        self.features = set()

    def name(self, base):
        return "%s_%s" % (base, self.cid)

    def fresh(self):
        self.nvar += 1
        return V("X%d" % self.nvar)

    def const(self):
        return self.rng.choice([A('a'), A('b'), I(1), A('a'), I(2)])

    def arg(self, vs):
        r = self.rng.random()
        if vs and r < 0.5:
            return self.rng.choice(vs)
        if r < 0.7:
            v = self.fresh()
            vs.append(v)
            return v
        if r < 0.95:
            return self.const()
        v = self.fresh()
        vs.append(v)
        return S('f', v)

    def user_call(self, vs):
        name, ar, _ = self.rng.choice(self.preds)
        return A(name) if ar == 0 else S(name, *[self.arg(vs) for _ in range(ar)])

    def simple(self, vs, depth):
        """a goal that may be meta-called (plain predicate call)."""
        r = self.rng.random()
        if r < 0.55:
            return self.user_call(vs)
        if r < 0.62:
            return TRUE
        if r < 0.66:
            return FAIL
        if r < 0.72:
            return S('=', self.arg(vs), self.arg(vs))
        if r < 0.78:
            self.features.add('throw')
            return S('throw', self.rng.choice([A('a'), A('b'), S('f', self.arg(vs))]))
        if depth > 0 and r < 0.9:
            return self.cwil(vs, depth - 1)
        if depth > 0:
            return self.catch(vs, depth - 1)
        return self.user_call(vs)

    def cwil(self, vs, depth):
        self.features.add('nested')
        r = self.rng.random()
        if r < 0.9:
            rv = self.fresh()
            vs.append(rv)
        elif r < 0.95:
            rv = self.rng.choice(vs) if vs else self.fresh()
        else:
            rv = A(self.rng.choice(['true', '!', 'inference_limit_exceeded']))
            self.features.add('nonvarR')
        lim = self.rng.choice([0, 1, 1, 2, 2, 3, 3, 4, 5, 6, 8, 12])
        return S(CWIL, self.simple(vs, depth), I(lim), rv)

    def catch(self, vs, depth):
        self.features.add('catch')
        catcher = self.rng.choice([self.fresh(), A('a'), A('b'), S('f', self.fresh())])
        rec = self.rng.choice([TRUE, TRUE, FAIL, self.user_call(vs)])
        return S('catch', self.simple(vs, depth), catcher, rec)

    def goal(self, vs, depth):
        r = self.rng.random()
        if r < 0.42:
            return self.user_call(vs)
        if r < 0.47:
            return TRUE
        if r < 0.51:
            return FAIL
        if r < 0.61:
            return S('=', self.arg(vs), self.arg(vs))
        if r < 0.66:
            self.features.add('cut')
            return CUT
        if depth > 0:
            if r < 0.72:
                self.features.add('disj')
                return S(';', self.body(vs, depth - 1, 2), self.body(vs, depth - 1, 2))
            if r < 0.77:
                self.features.add('ite')
                return S(';', S('->', self.body(vs, depth - 1, 2), self.body(vs, depth - 1, 2)), self.body(vs, depth - 1, 2))
            if r < 0.79:
                self.features.add('ifthen')
                return S('->', self.body(vs, depth - 1, 2), self.body(vs, depth - 1, 2))
            if r < 0.83:
                self.features.add('naf')
                return S('\\+', self.body(vs, depth - 1, 2))
            if r < 0.86:
                self.features.add('call')
                return S('call', self.simple(vs, 0))
            if r < 0.86 + 0.12 * self.nested_bias * 2:
                return self.cwil(vs, depth - 1)
            if r < 0.97:
                return self.catch(vs, depth - 1)
        if r < 0.985:
            self.features.add('throw')
            return S('throw', self.rng.choice([A('a'), A('b')]))
        return self.user_call(vs)

    def body(self, vs, depth, maxn=3):
        n = self.rng.choice([1, 1, 2, 2, 3][:maxn + 2])
        return conj([self.goal(vs, depth) for _ in range(n)])

    def program(self):
        np_ = self.rng.randint(2, 4)
        for i in range(np_):
            ar = self.rng.choice([0, 1, 1, 2])
            kind = 'K2' if ar >= 1 and self.rng.random() < 0.5 else 'K1'
            self.preds.append((self.name("p%d" % i), ar, kind))
        clauses = []
        for name, ar, kind in self.preds:
            ncl = self.rng.choice([1, 2, 2, 3])
            # K2: distinct first-argument constants (the cost of an index MISS on a predicate that files
            # several clauses under one constant depends on the clause bodies: not mirrored, see design note)
            firsts = self.rng.sample([A('a'), A('b'), I(1), I(2)], ncl)
            for ci in range(ncl):
                self.nvar = 0
                vs = []
                if ar == 0:
                    head = A(name)
                else:
                    args = []
                    for j in range(ar):
                        if j == 0 and kind == 'K2':
                            args.append(firsts[ci])
                        else:
                            v = self.fresh()
                            vs.append(v)
                            args.append(v)
                    head = S(name, *args)
                if self.rng.random() < 0.35:
                    body = TRUE_FACT
                else:
                    body = self.body(vs, 2)
                    if body == TRUE:
                        body = S(',', TRUE, TRUE)       # `h :- true.` is read as a fact by the renderer
                clauses.append((head, body))
        return clauses

    def limited_goal(self):
        """(G, R) for the swept query."""
        self.nvar = 100
        vs = []
        r = self.rng.random()
        if r < 0.8:
            g = self.user_call(vs)
        elif r < 0.9:
            g = self.cwil(vs, 0)
        else:
            g = self.catch(vs, 0)
        return g


TRUE_FACT = TRUE     # a fact is stored with body `true` (C07 renderer); rules never have body `true`


def term_vars(t, acc):
    if t[0] == 'v':
        if t not in acc:
            acc.append(t)
    elif t[0] == 's':
        for a in t[2]:
            term_vars(a, acc)
    return acc


def query_clauses(cid, k, g, rterm):
    """s<k>(L, V) :- V = v(R, Vars…), cwil(G, L, R).   u<k>(V) :- V = v(Vars…), G."""
    vs = term_vars(g, [])
    if rterm[0] == 'v' and rterm not in vs:
        outs = [rterm] + vs
    else:
        outs = list(vs)
    sh = S("s%d_%s" % (k, cid), V('L'), V('V'))
    sb = S(',', S('=', V('V'), S('v', *outs) if outs else A('v')), S(CWIL, g, V('L'), rterm))
    uh = S("u%d_%s" % (k, cid), V('V'))
    ub = S(',', S('=', V('V'), S('v', *vs) if vs else A('v')), g)
    return (sh, sb), (uh, ub)


def esc(text):
    return text.replace("\\", "\\\\").replace("\n", "\\n")


def make_case(cid, clauses, goals, meta=None):
    """goals: list of {"g": term, "r": term, "Ls": [..] or None}."""
    qcl = []
    for k, q in enumerate(goals):
        s, u = query_clauses(cid, k, q["g"], q["r"])
        qcl += [s, u]
    allc = list(clauses) + qcl
    text = "\n".join(K.clause_pl(c) for c in allc)
    prog = " ;; ".join(K.clause_canon(c) for c in allc)
    c = {"id": cid, "clauses": clauses, "goals": goals, "text": text, "prog": prog}
    c["nonvarR"] = any(nonvar_r(b) for _, b in allc)
    c["nested"] = any(has_functor(b, CWIL) for _, b in clauses) or any(has_functor(q["g"], CWIL) for q in goals)
    if meta:
        c.update(meta)
    return c


def phase1_lines(c):
    return ["run\t%s_u%d\t%s\t'u%d_%s'(R)\tR\t%d\t%d" % (c["id"], k, c["prog"], k, c["id"], MAXA, PHASE1_BUDGET)
            for k in range(len(c["goals"]))]


def sweep(rng, n, tier):
    """limits for a goal whose unlimited run needs n inferences (None: does not finish)."""
    if n is None:
        return sorted(set([0, 1, 2, 3] + [rng.randint(4, 34) for _ in range(5)]))
    top = n + 2
    full = list(range(0, top + 1))
    cap = 14 if tier == "quick" else 40
    if len(full) <= cap:
        return full
    keep = set([0, 1, 2, n - 1, n, n + 1, n + 2])
    while len(keep) < cap:
        keep.add(rng.randint(3, n))
    return sorted(keep)


def q_line(qid, cid, k, L):
    return "Q\t%s\t%d\tcatch('s%d_%s'(%d,_R),_B,true),copy_term(_R-_B,R-B)." % (qid, MAXA, k, cid, L)


def build_lines(c, rng):
    """fills c['impl'], c['model'], c['qs'] (list of dicts id/k/L/role)."""
    cid = c["id"]
    impl = []
    if c.get("fresh"):
        impl.append("R\t%s_r0" % cid)
    impl.append("Q\t%s_m\t1\tuse_module(library(iso_ext))." % cid)
    # consulted twice: a meta-call (call/1, catch/3, call_with_inference_limit/3, \\+ …) of a predicate that
    # is not yet defined when the calling clause is compiled goes through the generic run-time
    # resolution of call/N, which costs extra inferences; on the second load every predicate is known
    impl.append("L\t%s_l0\tuser\t%s" % (cid, esc(c["text"])))
    impl.append("L\t%s_l\tuser\t%s" % (cid, esc(c["text"])))
    model = []
    qs = []
    for k, q in enumerate(c["goals"]):
        for L in q["Ls"]:
            qid = "%s_g%d_%d" % (cid, k, L)
            impl.append(q_line(qid, cid, k, L))
            model.append("run\t%s\t%s\t's%d_%s'(%d,R)\tR\t%d\t%d" % (qid, c["prog"], k, cid, L, MAXA, L + 8))
            qs.append({"id": qid, "k": k, "L": L, "role": "main"})
        # determinism: two of the limits again on the same machine (after everything else ran)
        for L in q.get("again", []):
            qid = "%s_g%d_%d_again" % (cid, k, L)
            impl.append(q_line(qid, cid, k, L))
            qs.append({"id": qid, "k": k, "L": L, "role": "again"})
        if q.get("n") is not None:
            qid = "%s_g%d_unl" % (cid, k)
            impl.append("Q\t%s\t%d\tcatch('u%d_%s'(_R),_B,true),copy_term(_R-_B,R-B)." % (qid, MAXA, k, cid))
            qs.append({"id": qid, "k": k, "L": None, "role": "unlimited"})
    if c.get("nonvarR"):
        impl.append("R\t%s_r1" % cid)     # such a call may leave the counter installed (finding C40-2)
    c["impl"], c["model"], c["qs"] = impl, model, qs
    return c


# ------------------------------------------------------------------ directed cases

def directed(cid_prefix="d"):
    """programs for the shapes the theorems single out: nested limits (inner exceeded then the outer
    goes on / fails / loops / ties), R already bound, goals that throw, cut, ball caught outside."""
    out = []

    anon = [0]

    def U():
        anon[0] += 1
        return V("_A%d" % anon[0])

    def mk(i, text_clauses, goals, **meta):
        cid = "%s%d" % (cid_prefix, i)
        clauses = [(rename(h, cid), rename(b, cid)) for h, b in text_clauses]
        gs = [{"g": rename(g, cid), "r": r, "Ls": None} for g, r in goals]
        out.append(make_case(cid, clauses, gs, dict(meta, family="directed")))

    def rename(t, cid):
        if t[0] == 'a' and re.fullmatch(r"[a-z]+\d*_", t[1]):
            return A(t[1] + cid)
        if t[0] == 's':
            f = t[1] + cid if re.fullmatch(r"[a-z]+\d*_", t[1]) else t[1]
            return ('s', f, [rename(a, cid) for a in t[2]])
        return t

    loop = (A('loop_'), A('loop_'))
    gen3 = [(S('g_', I(1)), TRUE), (S('g_', I(2)), TRUE), (S('g_', I(3)), TRUE)]
    any2 = [(S('b_', U()), TRUE), (S('b_', U()), TRUE)]
    R1, R = V('R1'), V('R')
    # 0: inner limit exceeded, then the outer goal goes on with a loop / fails / succeeds
    mk(0, [loop,
           (S('in_', R1), S(CWIL, A('loop_'), I(3), R1)),
           (S('w1_', R1), S(',', S('in_', R1), FAIL)),
           (S('w2_', R1), S(',', S('in_', R1), A('loop_'))),
           (S('w3_', R1), S(',', S('in_', R1), TRUE))],
       [(S('w1_', R1), R), (S('w2_', R1), R), (S('w3_', R1), R)])
    # 1: inner and outer tie; inner looser than outer; three levels
    mk(1, [loop,
           (S('n1_', R1), S(CWIL, A('loop_'), I(4), R1)),
           (S('n2_', R1, V('R2')), S(CWIL, S('n1_', R1), I(9), V('R2'))),
           (S('n3_', R1), S(',', S(CWIL, A('loop_'), I(2), R1), S(CWIL, A('loop_'), I(3), U())))],
       [(S('n1_', R1), R), (S('n2_', R1, V('R2')), R), (S('n3_', R1), R)])
    # 2: solutions, shared budget over backtracking, cut after a limited goal
    mk(2, gen3 + any2 + [
        (S('c1_', V('X')), conj([S(CWIL, S('g_', V('X')), I(2), U()), CUT])),
        (S('c2_', V('X'), V('Y')), conj([S(CWIL, S('g_', V('X')), I(9), U()), S('g_', V('Y'))])),
        (S('c3_', V('X'), R1), conj([S(CWIL, S('g_', V('X')), I(1), R1), S('b_', V('X'))]))],
       [(S('g_', V('X')), R), (S('c1_', V('X')), R), (S('c2_', V('X'), V('Y')), R), (S('c3_', V('X'), R1), R)])
    # 3: balls: through the limit, caught outside then go on, inner limit then throw
    mk(3, [loop] + gen3 + [
        (A('t1_'), conj([S('g_', U()), S('throw', S('f', V('_Z'), A('z')))])),
        (S('t2_', V('E')), conj([S('catch', S(CWIL, A('t1_'), I(9), U()), V('E'), TRUE), S('g_', U())])),
        (S('t3_', V('E')), conj([S('catch', S(CWIL, A('t1_'), I(9), U()), V('E'), TRUE), A('loop_')])),
        (S('t4_', R1), conj([S(CWIL, A('loop_'), I(2), R1), S('throw', A('a'))]))],
       [(A('t1_'), R), (S('t2_', V('E')), R), (S('t3_', V('E')), R), (S('t4_', R1), R)])
    # 4: R already bound (finding C40-2): fresh machine before and after
    mk(4, [loop] + gen3 + any2, [(A('fail'), A('true')), (A('fail'), A('foo')), (S('b_', U()), A('true')),
                                (S('b_', U()), A('!')), (A('loop_'), A('true')), (A('loop_'), A('inference_limit_exceeded')),
                                (S('g_', V('X')), A('true'))],
       fresh=True)
    # 5: after 4 on a fresh machine: plain goals again (would show a poisoned counter)
    mk(5, [loop] + gen3, [(A('loop_'), R), (S('g_', V('X')), R)], fresh=True)
    # 7: an inner limit with several solutions and a continuation, with and without an enclosing limit
    # (finding C40-4: the inferences of the continuation were charged to the inner budget)
    g5 = [(S('g_', I(i)), TRUE) for i in (1, 2, 3, 4, 5)]
    mk(7, g5 + [(A('b3_'), S(',', TRUE, TRUE)), (A('b9_'), conj([A('b3_'), A('b3_'), TRUE])),
                (S('t1_', V('X'), R1), conj([S(CWIL, S('g_', V('X')), I(3), R1), TRUE])),
                (S('t9_', V('X'), R1), conj([S(CWIL, S('g_', V('X')), I(3), R1), A('b9_')])),
                (S('t5_', V('X'), R1), conj([S(CWIL, S('g_', V('X')), I(9), R1), A('b3_'), S('g_', V('_Y'))]))],
       [(S('t1_', V('X'), R1), R), (S('t9_', V('X'), R1), R), (S('t5_', V('X'), R1), R)])
    # 6: limits beyond 64 and 128 bits on a terminating goal (finding C40-3)
    mk(6, gen3, [(S('g_', V('X')), R)], huge=True, fresh=True)
    return out


# ------------------------------------------------------------------ judging

def items_model(res):
    """-> (items, probes) | 'oof' | None"""
    mi = K.model_items(res)
    if not isinstance(mi, tuple):
        return mi
    m = re.match(r"R (\d+) (\d+) ::", res)
    return mi[0], int(m.group(2))


def items_impl(res):
    ii = K.impl_items(res)
    if ii is None:
        return None
    return ii[0]


def transient(r):
    return (r is None or r in ("hang", "skipped") or r.startswith("crash") or r.startswith("timeout") or r.startswith("abort") or r.startswith("skipped")
            or r.startswith("panic") or "'$interrupt_thrown'" in r or r == "exception('repl')" or "repl" in r and "interrupt" in r)


EXC = "'v'('inference_limit_exceeded'"


def is_exceeded(item):
    return item[0] == 'ans' and (item[1].startswith(EXC) or item[1] == "'inference_limit_exceeded'")


def symptom(mits, iits, raw):
    if iits is None:
        if raw is not None and raw.startswith("panic"):
            return "panic"
        if raw is not None and (raw.startswith("timeout") or raw == "hang" or "repl" in raw):
            return "limit-not-enforced"      # a goal under a small finite limit that runs into the watchdog
        return "no-result"
    m_ex = any(is_exceeded(x) for x in mits)
    i_ex = any(is_exceeded(x) for x in iits)
    if i_ex and not m_ex:
        return "spurious-exceeded"
    if m_ex and not i_ex:
        return "limit-not-enforced"
    if len(iits) > len(mits):
        return "extra-answer"
    if len(iits) < len(mits):
        return "missing-answer"
    return "different-answer"


def run_robust(cases, tier):
    """implementation run; cases with a transient result are run again alone, serially."""
    impl = run_impl_cases([c["impl"] for c in cases], 12.0, int(os.environ.get("SV_JOBS", "8")), IMPL_ENV)
    retried = 0
    cap = 12 if tier == "quick" else 40
    for c in cases:
        ids = [q["id"] for q in c["qs"]] + [c["id"] + "_l"]
        if any(transient(impl.get(i)) for i in ids):
            if retried >= cap:
                continue
            retried += 1
            lines = list(c["impl"])
            if not lines[0].startswith("R\t"):
                lines = ["R\t%s_rr" % c["id"]] + lines
            impl.update(run_impl_cases([lines], 30.0, 1, {"SV_TIMEOUT_MS": "12000"}))
            c["rerun"] = True
    return impl, retried


def run(ctx):
    rng, tier = ctx["rng"], ctx["tier"]
    t0 = time.time()
    rep = diff.replay_case(ctx)
    if rep is not None:
        cases = []
        for c in rep:
            gs = [{"g": K.to_tuple(q["g"]), "r": K.to_tuple(q["r"]), "Ls": q.get("Ls"), "again": q.get("again", []),
                   "n": q.get("n")} for q in c["goals"]]
            cl = [(K.to_tuple(h), K.to_tuple(b)) for h, b in c["clauses"]]
            cases.append(make_case(c["id"], cl, gs, {k: c[k] for k in ("family", "fresh", "huge") if k in c}))
    else:
        cases = []
        for c in diff.load_corpus("C40"):
            gs = [{"g": K.to_tuple(q["g"]), "r": K.to_tuple(q["r"]), "Ls": None} for q in c["goals"]]
            cl = [(K.to_tuple(h), K.to_tuple(b)) for h, b in c["clauses"]]
            cases.append(make_case("k" + c["id"], cl, gs, {"family": "corpus", "fresh": c.get("fresh", False)}))
        cases += directed()
        n = 110 if tier == "quick" else 1400
        n = int(os.environ.get("C40_N", n))
        for i in range(n):
            g = Gen(rng, "c%d" % i, nested_bias=rng.choice([0.2, 0.5, 1.0]))
            clauses = g.program()
            goals = []
            for _ in range(2):
                gg = g.limited_goal()
                r = rng.random()
                rterm = V('R') if r < 0.95 else A(rng.choice(['true', '!', 'inference_limit_exceeded']))
                goals.append({"g": gg, "r": rterm, "Ls": None})
            cases.append(make_case("c%d" % i, clauses, goals,
                                   {"family": "random", "features": sorted(g.features), "fresh": i % 16 == 0}))
    # phase 1: the full inference count of every goal (model)
    m1 = run_model_lines([l for c in cases for l in phase1_lines(c)])
    for c in cases:
        for k, q in enumerate(c["goals"]):
            r = m1.get("%s_u%d" % (c["id"], k), "")
            m = re.match(r"R (\d+) (\d+) ::", r)
            # u<k> itself and its `V = v(…)` are two inferences outside G
            q["n"] = max(0, int(m.group(1)) - 2) if m else None
            if q.get("Ls") is None:
                q["Ls"] = sweep(rng, q["n"], tier)
                if c.get("huge"):
                    q["Ls"] = q["Ls"] + [2 ** 62, 2 ** 64 + 1, 2 ** 127, 2 ** 128 - 1, 2 ** 128, 2 ** 130 + 7]
            if "again" not in q or rep is None:
                q["again"] = sorted(set(rng.choice(q["Ls"]) for _ in range(2)))
        build_lines(c, rng)
    model = run_model_lines([l for c in cases for l in c["model"]])
    t_model = time.time() - t0
    impl, retried = run_robust(cases, tier)
    t_impl = time.time() - t0 - t_model
    # judge
    findings = []
    evaluations = agree = dropped = 0
    distinct = set()
    outcome = {"answers-only": 0, "exceeded": 0, "ball": 0, "no-answer": 0}
    oracle = {"determinism": 0, "monotone": 0, "faithful": 0}
    inner_fired = 0
    feat = {}
    sweep_hist = {}
    for c in cases:
        for f in c.get("features", []):
            feat[f] = feat.get(f, 0) + 1
        loaded = impl.get(c["id"] + "_l")
        byk = {}
        bad_case = False
        for q in c["qs"]:
            byk.setdefault(q["k"], []).append(q)
        for k, qs in sorted(byk.items()):
            goal = c["goals"][k]
            gtxt = K.pl(goal["g"])
            main = [q for q in qs if q["role"] == "main"]
            sweep_hist[str(len(main))] = sweep_hist.get(str(len(main)), 0) + 1
            seen_ans = seen_exc = False
            impl_seq = []
            for q in main:
                raw = impl.get(q["id"])
                mres = model.get(q["id"])
                if rep is not None:
                    print("replay %s goal %s L=%s\n  reference     : %s\n  implementation: %s" % (c["id"], gtxt, q["L"], mres, raw))
                mi = items_model(mres)
                if not isinstance(mi, tuple):
                    dropped += 1
                    impl_seq.append((q["L"], items_impl(raw)))
                    continue
                mits, probes = mi
                evaluations += 1
                iits = items_impl(raw) if loaded == "loaded" else None
                impl_seq.append((q["L"], iits))
                top_ex = any(is_exceeded(x) for x in mits)
                inner = probes - (1 if top_ex else 0)
                if inner > 0:
                    inner_fired += 1
                if top_ex:
                    outcome["exceeded"] += 1
                    seen_exc = True
                elif any(x[0] == 'exc' for x in mits):
                    outcome["ball"] += 1
                elif mits:
                    outcome["answers-only"] += 1
                else:
                    outcome["no-answer"] += 1
                if any(x[0] == 'ans' and not is_exceeded(x) for x in mits):
                    seen_ans = True
                if iits == mits:
                    agree += 1
                    continue
                if bad_case:
                    continue         # one report per case: later lines may be follow-ons
                bad_case = True
                sy = symptom(mits, iits, raw)
                cls = ("nonvar-R" if (goal["r"][0] != 'v' or c["nonvarR"]) else "nested" if c["nested"] else "flat")
                sig = {"class": cls, "symptom": sy, "inner_limit_fired": "yes" if inner > 0 else "no",
                       "case": c["id"] if c.get("family") == "directed" else c.get("family", "random"),
                       "limit": "huge" if q["L"] >= 2 ** 63 else "small"}
                detail = ("%s\ngoal call_with_inference_limit(%s, %d, %s)\nreference     : %s\nimplementation: %s (load: %s)"
                          % (c["text"], gtxt, q["L"], K.pl(goal["r"]), mres, raw, loaded))
                findings.append(core.Finding("violation", sig, detail, stored(c)))
                if rep is not None:
                    print("  PROBLEM %s" % sig)
            if seen_ans and seen_exc:
                distinct.add((c["text"], gtxt))
            if bad_case:
                continue
            # ---- oracles on the implementation alone
            known = [(L, its) for L, its in impl_seq if its is not None]
            # determinism: same line again on the same machine
            for q in qs:
                if q["role"] != "again":
                    continue
                first = dict(impl_seq).get(q["L"])
                again = items_impl(impl.get(q["id"]))
                if first is None or again is None or lost_machine(first) or lost_machine(again):
                    continue
                oracle["determinism"] += 1
                if first != again and not bad_case:
                    bad_case = True
                    findings.append(core.Finding(
                        "violation", {"class": "determinism", "symptom": "second-run-differs",
                                      "inner_limit_fired": "?"},
                        "%s\ngoal call_with_inference_limit(%s, %d, R) run twice on one machine\nfirst : %s\nsecond: %s"
                        % (c["text"], gtxt, q["L"], first, again), stored(c)))
            # monotonicity: proper answers are a prefix along L; once not exceeded, stable
            for (L1, a1), (L2, a2) in zip(known, known[1:]):
                oracle["monotone"] += 1
                p1 = [x for x in a1 if not is_exceeded(x)]
                p2 = [x for x in a2 if not is_exceeded(x)]
                ex1 = any(is_exceeded(x) for x in a1)
                okm = drop_r(p1) == drop_r(p2)[:len(p1)] if ex1 else a1 == a2
                if not okm and not bad_case and goal["r"][0] == 'v':
                    bad_case = True
                    findings.append(core.Finding(
                        "violation", {"class": "monotonicity", "symptom": "not-monotone-in-L", "inner_limit_fired": "?"},
                        "%s\ngoal call_with_inference_limit(%s, L, R)\nL=%d: %s\nL=%d: %s" % (c["text"], gtxt, L1, a1, L2, a2),
                        stored(c)))
            # faithfulness: at L >= full count the answers are those of call(G)
            unl = [q for q in qs if q["role"] == "unlimited"]
            if unl and goal["n"] is not None and goal["r"][0] == 'v' and known:
                ua = items_impl(impl.get(unl[0]["id"]))
                Lmax, amax = known[-1]
                if ua is not None and Lmax >= goal["n"]:
                    oracle["faithful"] += 1
                    if drop_r(amax) != [(k2, t) for k2, t in ua] and not bad_case:
                        bad_case = True
                        findings.append(core.Finding(
                            "violation", {"class": "faithfulness", "symptom": "differs-from-call", "inner_limit_fired": "?"},
                            "%s\ncall(%s): %s\ncall_with_inference_limit(%s, %d, R): %s" % (c["text"], gtxt, ua, gtxt, Lmax, amax),
                            stored(c)))
    samples = []
    for c in cases[6:8] + cases[-2:]:
        samples.append({"program": c["text"],
                        "lines": [{"L": q["L"], "role": q["role"], "reference": model.get(q["id"]), "implementation": impl.get(q["id"])}
                                  for q in c["qs"][:6]]})
    return {
        "evaluations": evaluations,
        "distinct_nontrivial": len(distinct),
        "rule": "random programs: 2-4 predicates (arity 0-2; either all head arguments variables or an atomic first argument in every clause) x 1-3 clauses x 1-3 body goals (nesting <= 2) over user calls (recursion allowed: everything runs under a limit), true, fail, =/2, !, ;, ->, \\+, call/1, throw/1, catch/3 and nested call_with_inference_limit/3 (limits 0..12, R fresh / shared / already bound); 2 limited goals per program, each swept over L = 0..n+2 (n = the model's full inference count; sampled above 14 (quick) / 40 limits; random limits for non-terminating goals), two limits repeated on the same machine, every 16th case on a fresh machine, plus 6 directed programs (inner limit exceeded then fail/loop/succeed, ties, three levels, cut, balls, bound R). evaluation = one (goal, L) executed on both sides; non-trivial goal = along its sweep the reference shows both a proper answer and inference_limit_exceeded; distinct by program text + goal",
        "samples": samples,
        "traces_validated_against_impl": agree,
        "disagreements_checked": evaluations - agree,
        "programs": len(cases),
        "lines_dropped_model_out_of_fragment_or_fuel": dropped,
        "reference_outcomes": outcome,
        "lines_where_an_inner_limit_fired": inner_fired,
        "implementation_only_oracle_checks": oracle,
        "constructs_generated": feat,
        "sweep_length_histogram": sweep_hist,
        "cases_rerun_serially": retried,
        "wall_seconds": round(time.time() - t0, 1),
        "model_seconds": round(t_model, 1),
        "impl_seconds": round(t_impl, 1),
        "exhaustive": False,
        "findings": findings,
    }


def lost_machine(items):
    """the harness replaced the machine (panic / watchdog earlier in the case): the program is gone."""
    return any(k == 'exc' and re.search(r"'existence_error'\('procedure','/'\('[su]\d+_", t) for k, t in items)


def drop_r(items):
    """answers without the R column (first argument of v(R, …)); balls unchanged."""
    out = []
    for kind, t in items:
        if kind == 'ans':
            m = re.match(r"'v'\('(?:true|!)',?(.*)\)$", t)
            if m:
                rest = m.group(1)
                t2 = "'v'(" + rest + ")" if rest else "'v'"
                out.append((kind, renumber(t2)))
                continue
            if t in ("'true'", "'!'"):
                out.append((kind, "'v'"))
                continue
        out.append((kind, t))
    return out


def renumber(t):
    names = {}

    def f(m):
        if m.group(0) not in names:
            names[m.group(0)] = "_%d" % len(names)
        return names[m.group(0)]
    return re.sub(r"\b_\d+\b", f, t)


def stored(c):
    return {"id": c["id"], "clauses": c["clauses"], "family": c.get("family"), "fresh": c.get("fresh", False), "huge": c.get("huge", False),
            "goals": [{"g": q["g"], "r": q["r"], "Ls": q["Ls"], "again": q.get("again", []), "n": q.get("n")}
                      for q in c["goals"]],
            "text": c["text"]}
