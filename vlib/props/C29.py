"""C29 — Toplevel answers are faithful and re-executable.

One *batch* = one fresh Machine whose user_input holds the lines typed at the prompt (harness op `TLM`),
a small consulted program, and ~10 queries. On that machine (same state, before the toplevel runs):
  S   `Q`: (Query), copy_term(v(Vars), R__, Gs__)   the solution sequence through run_query: answer tuples,
      residual goals (copy_term/3), and whether the enumeration ends in `false` / an exception;
then `TL` runs the REAL toplevel ('$toplevel':'$repl'/0) over the typed lines with a scripted keyboard.
The transcript is cut at marker queries and tokenised (indent / answer / `;` separator / `.` / false / error /
stopped / reprint / help). Judged per query:
  P   (model A) tokens == Toplevel.transcript(trace from S, keys)      — block structure, answer count,
      `false` iff the engine left a choice point, key handling (a f w p h . and ignored keys);
  R1  each answer text, run as a query on a second machine with the same program, has exactly the
      bindings + residual goals of the corresponding solution from S (variant check)   — faithful;
  R2  `Answer, Query` succeeds                                         — the property's own oracle;
  F   (model B) the answer read back with the implementation's reader == Toplevel.answer(solution)
      goal by goal (equation selection, order, fabricated names `_A`…).
Terms are tuples as in C07.py: ('v',name) ('i',n) ('a',name) ('s',functor,[args]).
"""
import json
import re
import time

from .. import core, diff

LEVEL = "proof"
TRUSTED_BASE = [
    "notes/hooks/C29-repo.diff: get_single_char/1 is answered from a keyboard script (cfg(feature=\"verif\") only); run_toplevel = run_module_predicate('$toplevel','$repl') as src/lib.rs::run_binary does; user_input is a static-string stream instead of the terminal/readline stream (terminal I/O, prompt, history are not covered)",
    "Model/Toplevel.lean abstracts the engine to a trace (solution + `B0 == B` flag, failure, exception) taken from run_query on the same machine state: LeafAnswer::False after the last answer <=> a choice point was left",
    "vlib/props/C29.py: tokeniser of the transcript (split at marker queries `write('%%%k'),nl.`; answers contain no newline), renderer of abstract queries to Prolog text, parser of the harness' canonical term syntax, variant test",
    "the term writer (write_term with quoted(true), operators, max_depth) is not modelled: answers are read back with the implementation's own reader (C15/C55 cover writer and reader)",
    "residual goals are those of copy_term/3 on the query variables (attribute_goals of dif/2, freeze/2); project_attributes is not modelled",
]
ASSUMPTIONS = [
    "pure queries (no output, no assert), all variables of residual goals reachable from the query variables, terms within the printing depth (20), default flags (double_quotes=chars, answer_write_options=[])",
    "queries with more than 40 solutions are not generated",
]

ENV = {"SV_TIMEOUT_MS": "60000"}
MAXA = 40
USES = "use_module(library(lists)),use_module(library(dif)),use_module(library(freeze)),use_module(library(iso_ext)),use_module(library(charsio))."
HELP = ('\n\nSPACE, "n" or ";": next solution, if any\nRETURN or ".": stop enumeration\n"a": enumerate all solutions\n'
        '"f": enumerate the next 5 solutions\n"h": display this help message\n"w": write terms without depth limit\n'
        '"p": print terms with depth limit\n\n')

# ------------------------------------------------------------------ terms


def V(n):
    return ('v', n)


def A(n):
    return ('a', n)


def I(n):
    return ('i', n)


def S(f, *args):
    return ('s', f, list(args))


NIL = A('[]')


def lst(xs, tail=NIL):
    t = tail
    for x in reversed(xs):
        t = S('.', x, t)
    return t


def chars(s):
    return lst([A(c) for c in s])


def q_atom(a):
    out = []
    for c in a:
        if c == "\\":
            out.append("\\\\")
        elif c == "'":
            out.append("\\'")
        elif c == "\n":
            out.append("\\n")
        elif c == "\t":
            out.append("\\t")
        else:
            out.append(c)
    return "'" + "".join(out) + "'"


PLAIN = re.compile(r"[a-z][a-zA-Z0-9_]*\Z")


def as_list(t):
    items = []
    while t[0] == 's' and t[1] == '.' and len(t[2]) == 2:
        items.append(t[2][0])
        t = t[2][1]
    return items, t


class Render:
    """abstract term / goal -> Prolog text; records variables in textual order."""

    def __init__(self, rng=None):
        self.vars = []
        self.rng = rng

    def t(self, t):
        k = t[0]
        if k == 'v':
            if t[1] != '_' and t[1] not in self.vars:
                self.vars.append(t[1])
            return t[1]
        if k == 'i':
            return str(t[1]) if t[1] >= 0 else "(" + str(t[1]) + ")"
        if k == 'a':
            if t[1] in ('[]', '{}'):
                return t[1]
            return t[1] if PLAIN.match(t[1]) else q_atom(t[1])
        f, args = t[1], t[2]
        if f == '.' and len(args) == 2:
            items, tl = as_list(t)
            if tl == NIL and items and all(x[0] == 'a' and len(x[1]) == 1 and x[1] not in '"\\\n' for x in items) \
                    and self.rng is not None and self.rng.random() < 0.7:
                return '"' + "".join(x[1] for x in items) + '"'
            s = ",".join(self.t(x) for x in items)
            return "[" + s + "]" if tl == NIL else "[" + s + "|" + self.t(tl) + "]"
        name = f if PLAIN.match(f) else q_atom(f)
        return name + "(" + ",".join(self.t(a) for a in args) + ")"

    def opnd(self, t):
        """an operand of =/2: an atom that may be an operator must be bracketed (ISO 6.3.1.3)."""
        s = self.t(t)
        return "(" + s + ")" if t[0] == 'a' and t[1] not in ('[]', '{}', 'a', 'b', 'foo') else s

    def g(self, g):
        k = g[0]
        if k == 'and':
            return self.g(g[1]) + ", " + self.g(g[2])
        if k == 'or':
            return "( " + self.g(g[1]) + " ; " + self.g(g[2]) + " )"
        if k == 'ite':
            return "( " + self.g(g[1]) + " -> " + self.g(g[2]) + " ; " + self.g(g[3]) + " )"
        if k == 'not':
            return "\\+ ( " + self.g(g[1]) + " )"
        if k == 'unify':
            return self.opnd(g[1]) + " = " + self.opnd(g[2])
        if k == 'call':
            return self.t(S(g[1], *g[2])) if g[2] else self.t(A(g[1]))
        if k == 'freeze':
            return "freeze(" + self.t(g[1]) + ", " + self.g(g[2]) + ")"
        raise ValueError(g)


def canon(t):
    """canonical syntax of the harness (read by Drv/TermIO.parseTermStr)."""
    k = t[0]
    if k == 'v':
        return t[1]
    if k == 'i':
        return str(t[1])
    if k == 'o':
        return t[1]
    if k == 'a':
        return "[]" if t[1] == '[]' else cq(t[1])
    return cq(t[1]) + "(" + ",".join(canon(a) for a in t[2]) + ")"


def cq(a):
    out = []
    for c in a:
        if c == "\\":
            out.append("\\\\")
        elif c == "'":
            out.append("\\'")
        elif ord(c) < 32 or ord(c) == 127:
            out.append("\\x%x\\" % ord(c))
        else:
            out.append(c)
    return "'" + "".join(out) + "'"


# ------------------------------------------------------------------ parser of the canonical answer syntax (as C07.py)

class P:
    def __init__(self, s):
        self.s, self.i = s, 0

    def peek(self):
        return self.s[self.i] if self.i < len(self.s) else ""

    def quoted(self, q):
        self.i += 1
        out = []
        while True:
            c = self.s[self.i]
            if c == "\\":
                d = self.s[self.i + 1]
                if d == "x":
                    j = self.s.index("\\", self.i + 2)
                    out.append(chr(int(self.s[self.i + 2:j], 16)))
                    self.i = j + 1
                else:
                    out.append(d)
                    self.i += 2
            elif c == q:
                self.i += 1
                return "".join(out)
            else:
                out.append(c)
                self.i += 1

    def args(self, close):
        out = []
        while True:
            out.append(self.term())
            c = self.s[self.i]
            self.i += 1
            if c == close:
                return out
            if c != ",":
                raise ValueError("bad separator in %r at %d" % (self.s, self.i))

    NUM = re.compile(r"-?\d+")
    VAR = re.compile(r"[A-Za-z_][A-Za-z0-9_]*")
    OTHER = re.compile(r"r\(-?\d+,\d+\)|f\([0-9a-f]{16}\)")

    def term(self):
        c = self.peek()
        if c == "'":
            name = self.quoted("'")
            if self.peek() == "(":
                self.i += 1
                return ('s', name, self.args(")"))
            return ('a', name)
        if c == '"':
            return lst([A(ch) for ch in self.quoted('"')])
        if c == "[":
            self.i += 1
            if self.peek() == "]":
                self.i += 1
                return NIL
            return lst(self.args("]"))
        m = self.OTHER.match(self.s, self.i)
        if m:
            self.i = m.end()
            return ('o', m.group(0))
        m = self.NUM.match(self.s, self.i)
        if m:
            self.i = m.end()
            return ('i', int(m.group(0)))
        m = self.VAR.match(self.s, self.i)
        if m:
            self.i = m.end()
            return ('v', m.group(0))
        raise ValueError("cannot parse %r at %d" % (self.s, self.i))


def parse_bindings(body):
    p = P(body)
    out = {}
    while p.i < len(body):
        m = P.VAR.match(body, p.i)
        if not m or body[m.end():m.end() + 1] != "=":
            raise ValueError("bad binding in %r at %d" % (body, p.i))
        p.i = m.end() + 1
        out[m.group(0)] = p.term()
        if p.i < len(body):
            if body[p.i] != ",":
                raise ValueError("bad separator in %r at %d" % (body, p.i))
            p.i += 1
    return out


def rename(t, names, prefix):
    """variables renamed by first occurrence."""
    k = t[0]
    if k == 'v':
        if t[1] not in names:
            names[t[1]] = "%s%d" % (prefix, len(names))
        return ('v', names[t[1]])
    if k == 's':
        return ('s', t[1], [rename(a, names, prefix) for a in t[2]])
    return t


def subst_names(t, m):
    k = t[0]
    if k == 'v':
        return ('v', m.get(t[1], t[1]))
    if k == 's':
        return ('s', t[1], [subst_names(a, m) for a in t[2]])
    return t


def variant_key(t):
    return canon(rename(t, {}, "_V"))


def items_of(res):
    return [x for x in res.split(" ;; ")] if res else []


# ------------------------------------------------------------------ generator

ATOMS = ["a", "b", "foo", "[]", "{}", "hello world", "A", "_x", "don't", "+", "-", "*", ":-", ",", "|", ";", "!",
         "a.b", ".", "\\", "", "x\ny", "=", "is", "mod", "dynamic", "?-", "-->", "\\+", "e", "[", "{", "//", "**",
         "a+", "+a", "end_of_file", "é", "true", "false", "..", "=..", "@", "#", "$", "&", "^", "~", "<", ">", ":", "?", "/"]
GRAPHIC_END = ["+", "-", "*", ":-", "\\", "=", "?-", "-->", "\\+", "//", "**", "a+", "..", "=..", "@", "#", "$", "&", "^",
               "~", "<", ">", ":", "?", "/", "."]
VARNAMES = ["X", "Y", "Z", "A", "B", "_A", "_B", "_X", "Xs", "_1", "C", "_C", "W"]


def gen_term(rng, depth, vars_, ground=False):
    r = rng.random()
    if not ground and vars_ and r < 0.22:
        return V(rng.choice(vars_))
    if r < 0.45 or depth <= 0:
        k = rng.random()
        if k < 0.25:
            return I(rng.choice([0, 1, -1, 2, 42, -7, 2 ** 70, -(2 ** 65)]))
        if k < 0.55:
            return A(rng.choice(["a", "b", "foo", "[]"]))
        if k < 0.75:
            return A(rng.choice(GRAPHIC_END))
        return A(rng.choice(ATOMS))
    k = rng.random()
    sub = lambda: gen_term(rng, depth - 1, vars_, ground)
    if k < 0.25:
        return S(rng.choice(["f", "g", "p"]), *[sub() for _ in range(rng.choice([1, 1, 2, 3]))])
    if k < 0.40:
        n = rng.choice([1, 2, 3])
        # never an atom tail: run_query's conversion of `[a|foo]` panics (known, not this property)
        tail = V(rng.choice(vars_)) if (vars_ and not ground and rng.random() < 0.3) else NIL
        if rng.random() < 0.4:
            return lst([A(rng.choice("abc xyz\"'\\")) for _ in range(n)], tail)
        return lst([sub() for _ in range(n)], tail)
    if k < 0.50:
        return chars(rng.choice(["abc", "a b", "", "x", "it's", "say \"hi\"", "a\\b"])) if rng.random() < 0.9 else A("[]")
    if k < 0.72:
        return S(rng.choice(["-", "+", "\\+", "\\", "?-", ":-", "dynamic", "@", "-", "-"]), sub())
    if k < 0.97:
        return S(rng.choice(["-", "+", "*", "=", ":-", ",", ";", "->", "is", "mod", "^", "**", "|", ":", "=..", "<", "@", "-", "rem", "\\=", "-->", "/"]), sub(), sub())
    return S(rng.choice(["{}", "$VAR", "[]", "'"]), sub())


def gen_program(rng, b):
    """clauses as text + the predicates (name, arity, max solutions)."""
    preds, text = [], []
    for k in range(rng.choice([1, 2, 2])):
        name = "p%d_%s" % (k, b)
        ar = rng.choice([1, 2, 2])
        n = rng.choice([0, 1, 2, 3, 3])
        if n == 0:
            text.append(":- dynamic(%s/%d)." % (name, ar))
        for _ in range(n):
            cv = ["U", "W1"]
            r = Render(rng)
            args = [gen_term(rng, 1, cv) for _ in range(ar)]
            text.append(r.t(S(name, *args)) + ".")
        preds.append((name, ar, max(n, 1)))
    name = "app_%s" % b
    text.append("%s([], L, L)." % name)
    text.append("%s([H|T], L, [H|R]) :- %s(T, L, R)." % (name, name))
    return "\n".join(text), preds, name


def gen_goal(rng, depth, vars_, preds, app, budget):
    """budget: [remaining solution multiplicity]"""
    r = rng.random()
    pick = lambda: V(rng.choice(vars_))
    if depth > 0 and r < 0.30:
        return ('and', gen_goal(rng, depth - 1, vars_, preds, app, budget), gen_goal(rng, depth - 1, vars_, preds, app, budget))
    if depth > 0 and r < 0.42 and budget[0] >= 2:
        budget[0] //= 2
        return ('or', gen_goal(rng, depth - 1, vars_, preds, app, budget), gen_goal(rng, depth - 1, vars_, preds, app, budget))
    if depth > 0 and r < 0.46:
        return ('ite', gen_goal(rng, 0, vars_, preds, app, budget), gen_goal(rng, depth - 1, vars_, preds, app, budget),
                gen_goal(rng, depth - 1, vars_, preds, app, budget))
    if r < 0.49:
        return ('not', gen_goal(rng, 0, vars_, preds, app, budget))
    if r < 0.66:
        x = pick()
        return ('unify', x, gen_term(rng, 2, [v for v in vars_ if v != x[1]] + (['_'] if rng.random() < 0.3 else [])))
    if r < 0.70:
        return ('unify', pick(), pick())
    if r < 0.78 and budget[0] >= 3:
        name, ar, n = rng.choice(preds)
        budget[0] //= max(n, 1)
        return ('call', name, [pick() if rng.random() < 0.8 else gen_term(rng, 1, vars_) for _ in range(ar)])
    if r < 0.84 and budget[0] >= 4:
        budget[0] //= 4
        n = rng.choice([1, 2, 3])
        return ('call', 'member', [pick(), lst([gen_term(rng, 1, vars_) for _ in range(n)])])
    if r < 0.87 and budget[0] >= 4:
        budget[0] //= 4
        n = rng.choice([0, 1, 2, 3])
        return ('call', app, [pick(), pick(), lst([gen_term(rng, 0, [], True) for _ in range(n)])])
    if r < 0.95:
        return ('call', 'dif', [pick() if rng.random() < 0.8 else gen_term(rng, 1, vars_), gen_term(rng, 1, vars_)])
    if r < 0.975:
        return ('freeze', pick(), rng.choice([('call', 'true', []), ('unify', pick(), gen_term(rng, 1, vars_)),
                                              ('call', preds[0][0], [pick() for _ in range(preds[0][1])])]))
    return ('call', rng.choice(['true', 'fail', 'true', '!']), []) if rng.random() < 0.8 else \
        ('call', 'throw', [gen_term(rng, 1, [], True)])


def monotone(g):
    """no \\+, if-then-else or cut: adding bindings (the answer) cannot destroy a solution."""
    k = g[0]
    if k in ('not', 'ite'):
        return False
    if k in ('and', 'or'):
        return monotone(g[1]) and monotone(g[2])
    if k == 'freeze':
        return monotone(g[2])
    if k == 'call':
        return g[1] != '!'
    return True


def gen_keys(rng):
    r = rng.random()
    if r < 0.45:
        return ""
    if r < 0.6:
        return "".join(rng.choice(";;; n") for _ in range(rng.choice([1, 2, 5])))
    return "".join(rng.choice(";;;; nnafwph.Nxq;\t") for _ in range(rng.choice([1, 2, 3, 4, 6, 9])))


def gen_batch(rng, b, nq):
    prog, preds, app = gen_program(rng, b)
    queries = []
    for _ in range(nq):
        nv = rng.choice([1, 2, 2, 3, 3, 4])
        vs = rng.sample(VARNAMES, nv)
        g = gen_goal(rng, rng.choice([1, 2, 2, 3]), vs, preds, app, [24])
        r = Render(rng)
        text = r.g(g)
        queries.append({"text": text, "vars": r.vars, "mono": monotone(g)})
    keys = gen_keys(rng)
    if rng.random() < 0.35:
        # a query with many solutions first, and a keyboard that uses `f` (next five) on it
        n = rng.choice([6, 7, 9, 11, 12, 16])
        v = rng.choice(VARNAMES)
        g = ('call', 'member', [V(v), lst([I(k) for k in range(n)])])
        r = Render(rng)
        queries.insert(0, {"text": r.g(g), "vars": r.vars, "mono": True})
        keys = rng.choice(["f.", ";f.", "f;f.", "wf.", ";;;f;.", "ff.", "hf;;."]) + keys
    return {"id": b, "prog": prog, "queries": queries, "keys": keys}


# ------------------------------------------------------------------ harness lines

def esc(s):
    return s.replace("\\", "\\\\").replace("\n", "\\n").replace("\t", "\\t").replace("\r", "\\r")


def unesc(s):
    out, i = [], 0
    while i < len(s):
        if s[i] == "\\" and i + 1 < len(s):
            d = s[i + 1]
            out.append({"n": "\n", "t": "\t", "r": "\r", "\\": "\\"}.get(d, "\\" + d))
            i += 2
        else:
            out.append(s[i])
            i += 1
    return "".join(out)


def sol_query(q):
    return "( %s ), %s ." % (q["text"], tuple_goal(q["vars"]))


def tuple_goal(vs):
    """everything observed goes into ONE binding: run_query converts each binding separately, so variables
    shared between two bindings are not recognisable in its result."""
    v = "v(" + ",".join(vs) + ")" if vs else "v"
    return "( acyclic_term(%s) -> copy_term(%s, R__, Gs__), K__ = k(R__, Gs__) ; throw(cyclic__) )" % (v, v)


def round1_lines(batch):
    b = batch["id"]
    typed = []
    for i, q in enumerate(batch["queries"]):
        typed.append("write('%%%%%%%d'), nl." % i)
        typed.append(q["text"] + " .")
    typed.append("write('%%%%%%%d'), nl." % len(batch["queries"]))
    lines = ["TLM\t%s_m\t%s" % (b, esc("\n".join(typed) + "\n")),
             "Q\t%s_u\t1\t%s" % (b, USES),
             "L\t%s_l\tuser\t%s" % (b, esc(batch["prog"]))]
    for i, q in enumerate(batch["queries"]):
        lines.append("Q\t%s_s%d\t%d\t%s" % (b, i, MAXA, esc(sol_query(q))))
    lines.append("TL\t%s_t\t%s\t;" % (b, esc(batch["keys"].replace("N", "\n"))))
    return lines


# ------------------------------------------------------------------ transcript tokeniser

def split_segments(out, n):
    """text between the marker answers; None if a marker is missing."""
    segs = []
    pos = 0
    for i in range(n + 1):
        m = "%%%%%%%d\n   true.\n" % i
        j = out.find(m, pos)
        if j < 0:
            return None
        if i > 0:
            segs.append(out[pos:j])
        pos = j + len(m)
    return segs


def tokenise(seg):
    """-> list of (tok, text). toks: I A S X D N E R H ; None if the segment has an unexpected shape."""
    toks = []
    s = seg.replace(HELP, "\x02")
    i = 0
    if s.startswith("   "):
        toks.append(("I", ""))
        i = 3
    expect_answer = True
    after_reprint = False
    while i < len(s):
        if expect_answer:
            j = i
            while j < len(s) and s[j] not in "\n\x02":
                j += 1
            text = s[i:j]
            if s[j:] == "\n" and text.endswith("."):
                body = text[:-1].rstrip(" ")
                if body == "false":
                    toks += [("N", ""), ("D", "")]
                elif re.match(r"(error|throw)\(", body):
                    toks.append(("E", body))
                else:
                    toks += [("A", body), ("D", "")]
                return toks
            toks.append(("W" if after_reprint else "A", text))
            after_reprint = False
            expect_answer = False
            i = j
            continue
        if s.startswith("\x02", i):
            toks.append(("H", ""))
            i += 1
        elif s.startswith("\n;  ... .\n", i):
            toks.append(("X", ""))
            i += len("\n;  ... .\n")
            return toks if i == len(s) else None
        elif s.startswith("\n;  ", i):
            toks.append(("S", ""))
            i += 4
            expect_answer = True
        elif s.startswith("\n   ", i):
            toks.append(("R", ""))
            i += 4
            expect_answer = True
            after_reprint = True
        else:
            return None
    return None


# ------------------------------------------------------------------ judge helpers

def trace_of(items):
    """run_query items -> (trace tokens, solution texts, inconclusive reason)."""
    toks, sols = [], []
    for k, it in enumerate(items):
        last = k == len(items) - 1
        if it == "...":
            return None, None, "more than %d solutions" % MAXA
        if it == "false":
            toks.append("F")
            break
        if it == "exception('cyclic__')":
            return None, None, "cyclic solution"
        if it.startswith("exception(") or it.startswith("error("):
            toks.append("E")
            break
        if it in ("timeout",) or it.startswith("panic(") or it.startswith("abort(") or it in ("missing",):
            return None, None, it[:60]
        nxt_exists = not last
        toks.append("s1" if nxt_exists else "s0")
        sols.append(it)
    return toks, sols, None


def sol_parts(it):
    """`{Gs__=…,R__=…,X=…}` -> (tuple term R__, goal list) with fresh variable names _H<k>."""
    if it == "true":
        return None
    b = parse_bindings(it[1:-1])
    names = {}
    if b["K__"] == ('a', 'cyclic'):
        return None
    k = rename(b["K__"], names, "_H")
    goals, tl = as_list(k[2][1])
    return k[2][0], goals


def flatten_conj(t):
    out = []
    while t[0] == 's' and t[1] == ',' and len(t[2]) == 2:
        out.append(t[2][0])
        t = t[2][1]
    out.append(t)
    return out


def pl_string(s):
    return '"' + s.replace("\\", "\\\\").replace('"', '\\"') + '"'


def sig_class(text):
    """coarse, stable class of an answer text for signatures."""
    t = re.sub(r"[A-Za-z0-9_]+", "w", text)
    t = re.sub(r"\s+", " ", t)
    return t[:40]


# ------------------------------------------------------------------ run

def run(ctx):
    rng = ctx["rng"]
    tier = ctx["tier"]
    t0 = time.time()
    findings = []
    stats = {"queries": 0, "answers": 0, "with_residual": 0, "ends_false": 0, "ends_exc": 0, "det_last": 0, "no_solution": 0,
             "var_var_eq": 0, "fabricated_names": 0, "keys_nonempty": 0, "stopped": 0, "reprints": 0, "inconclusive": 0,
             "true_answers": 0, "retried": 0}
    if ctx.get("replay"):
        batches = diff.replay_case(ctx)
    else:
        batches = [c for c in diff.load_corpus("C29")]
        nb = 30 if tier == "quick" else 400
        for k in range(nb):
            batches.append(gen_batch(rng, "b%d" % (len(batches)), 10))
    for k, bt in enumerate(batches):
        bt["id"] = "b%d" % k
    # ---- round 1
    cases = [{"impl": round1_lines(bt)} for bt in batches]
    impl, _ = diff.run_cases(cases, impl_env=ENV)
    if any(impl.get(bt["id"] + "_m", "").startswith("bad-op") for bt in batches):
        f = core.Finding("disagreement", {"kind": "hook-missing"},
                         "the harness has no TLM/TL operation: apply notes/hooks/C29-repo.diff to /repo and chain notes/hooks/fam_c29.rs", None)
        return {"evaluations": 0, "distinct_nontrivial": 0, "rule": "hook missing", "samples": [],
                "traces_validated_against_impl": 0, "disagreements_checked": 0, "findings": [f]}

    def bad(bt):
        r = impl.get(bt["id"] + "_t", "missing")
        if not r.startswith("exit="):
            return True
        for l in round1_lines(bt)[:-1]:
            v = impl.get(core.line_id(l), "missing")
            if v in ("timeout", "missing") or v.startswith("abort(") or v.startswith("skipped("):
                return True
        return False
    for bt in batches:
        n = 0
        while bad(bt) and n < 2:
            impl.update(core.run_impl(round1_lines(bt), env=ENV))
            stats["retried"] += 1
            n += 1
    # ---- tokenise, model lines, round 2 lines
    model_lines, round2 = [], []
    per_query = []
    for bt in batches:
        b = bt["id"]
        r = impl.get(b + "_t", "missing")
        if not r.startswith("exit="):
            findings.append(core.Finding("disagreement", {"kind": "toplevel-run", "result": r[:40]},
                                         "TL line gave %r" % r[:200], bt))
            continue
        head, _, rest = r.partition(" out=")
        out, _, err = rest.partition("\x1ferr=")
        out = unesc(out)
        segs = split_segments(out, len(bt["queries"]))
        if segs is None or not head.startswith("exit=0 "):
            findings.append(core.Finding("disagreement", {"kind": "markers", "head": head[:30]},
                                         "marker answers missing in the transcript: %r" % out[:300], bt))
            continue
        traces = []
        usable = True
        for i, q in enumerate(bt["queries"]):
            items = items_of(impl.get("%s_s%d" % (b, i), "missing"))
            tr, sols, why = trace_of(items)
            traces.append((tr, sols, why))
            if tr is None:
                usable = False
        if not usable:
            # the keyboard is threaded through the queries: without every trace the model cannot follow it
            stats["inconclusive"] += len(bt["queries"])
            if not bt["keys"]:
                usable = True
        if not usable:
            continue
        model_lines.append("runs\t%s_r\t%s\t%s" % (b, "".join(c if c in ";n afwph.N" else "x" for c in bt["keys"]) or "-",
                                                 "/".join(" ".join(tr) if tr is not None else "?" for tr, _, _ in traces)))
        for i, q in enumerate(bt["queries"]):
            tr, sols, why = traces[i]
            if tr is None:
                continue
            toks = tokenise(segs[i])
            pq = {"batch": bt, "i": i, "q": q, "trace": tr, "sols": sols, "seg": segs[i], "toks": toks}
            per_query.append(pq)
            if toks is None:
                continue
            texts = [t for k, t in toks if k == "A"]
            pq["texts"] = texts
            for j, text in enumerate(texts):
                if j >= len(sols) or text == "true":
                    continue
                round2.append((b, [
                    "Q\t%s_p%d_%d\t2\tread_term_from_chars(%s, T__, [variable_names(Vs__)]), K__ = k(T__, Vs__) ." % (b, i, j, esc(pl_string(text + " ."))),
                    "Q\t%s_a%d_%d\t3\t%s, %s ." % (b, i, j, esc(text), esc(tuple_goal(q["vars"]))),
                    "Q\t%s_x%d_%d\t1\t%s, ( %s ) ." % (b, i, j, esc(text), esc(q["text"]))]))
                try:
                    parts = sol_parts(sols[j])
                except (ValueError, IndexError, KeyError):
                    parts = None
                if parts:
                    rt, goals = parts
                    vals = rt[2] if rt[0] == 's' else []
                    f = [str(len(q["vars"]))]
                    for name, val in zip(q["vars"], vals):
                        f += [name, canon(val)]
                    f += [canon(g) for g in goals]
                    model_lines.append("ans\t%s_f%d_%d\t%s" % (b, i, j, "\t".join(f)))
    model = core.run_model(model_lines) if model_lines else {}
    # ---- round 2 (a second machine with the same program; an unreadable answer panics run_query and
    #      discards the machine, so every batch's program is reloaded after such a line)
    cases2 = []
    bybatch = {}
    for b, ls in round2:
        bybatch.setdefault(b, []).append(ls)
    progs = {bt["id"]: bt["prog"] for bt in batches}
    for b, groups in bybatch.items():
        lines = []
        for ls in groups:
            lines += ["Q\t%s_u2_%d\t1\t%s" % (b, len(lines), USES), "L\t%s_l2_%d\tuser\t%s" % (b, len(lines), esc(progs[b]))] \
                if not lines else []
            lines += ls
        cases2.append({"impl": lines, "b": b})
    impl2, _ = diff.run_cases(cases2, impl_env=ENV) if cases2 else ({}, {})

    def rerun_after_panic(c):
        """lines after a panic ran on a machine without program: re-run them behind a fresh set-up."""
        lines = c["impl"]
        guard = 0
        while guard < 12:
            guard += 1
            idx = None
            for k, l in enumerate(lines):
                v = impl2.get(core.line_id(l), "missing")
                if v.startswith("panic(") or v in ("timeout", "missing") or v.startswith("abort("):
                    idx = k
                    break
            if idx is None or idx + 1 >= len(lines):
                return
            b = c["b"]
            rest = lines[idx + 1:]
            pre = ["Q\t%s_u3_%d_%d\t1\t%s" % (b, guard, idx, USES), "L\t%s_l3_%d_%d\tuser\t%s" % (b, guard, idx, esc(progs[b]))]
            impl2.update(core.run_impl(pre + rest, env=ENV))
            lines = rest
    for c in cases2:
        rerun_after_panic(c)
    # ---- judge
    samples = []
    distinct = set()
    validated = 0
    for bt in batches:
        b = bt["id"]
        mr = model.get(b + "_r")
        bt["_model_runs"] = mr.split(" / ") if mr else None
    for pq in per_query:
        bt, i, q = pq["batch"], pq["i"], pq["q"]
        b = bt["id"]
        stats["queries"] += 1
        case = {"prog": bt["prog"], "queries": bt["queries"], "keys": bt["keys"], "focus": i}
        tr, sols, toks = pq["trace"], pq["sols"], pq["toks"]
        mruns = bt.get("_model_runs")
        ok = True
        if toks is None:
            findings.append(core.Finding("disagreement", {"kind": "transcript-shape", "q": sig_class(q["text"])},
                                         "query %r: transcript segment %r does not have the protocol's shape" % (q["text"], pq["seg"][:300]), case))
            continue
        got = []
        na = 0
        for k, t in toks:
            if k in ("A", "W"):
                if k == "A":
                    got.append("A%d" % na)
                    na += 1
                else:
                    got.append("A%d" % (na - 1) if t == pq["texts"][na - 1] else "A?")
            else:
                got.append(k)
        got = " ".join(got)
        if mruns is not None and i < len(mruns):
            exp = mruns[i].split(" | ")[0].replace("W", "A")
            meta = mruns[i].split(" | ")[1] if " | " in mruns[i] else ""
            if "parse=no" in meta:
                findings.append(core.Finding("obligation", {"kind": "model-parse"}, "model parse failed: " + mruns[i], case))
            if exp != got:
                ok = False
                kind = "violation" if (("N" in got.split()) != ("N" in exp.split()) or
                                       got.count("A") != exp.count("A")) and not bt["keys"] else "disagreement"
                findings.append(core.Finding(kind, {"kind": "protocol", "trace": " ".join(tr), "keys": bt["keys"][:12],
                                                    "expected": exp[:60], "got": got[:60]},
                                             "query %r (keys %r): engine trace %s; the model's transcript is [%s], the toplevel wrote [%s]: %r"
                                             % (q["text"], bt["keys"], " ".join(tr), exp, got, pq["seg"][:300]), case))
        if "F" in tr:
            stats["ends_false"] += 1
        if "E" in tr:
            stats["ends_exc"] += 1
        if tr and tr[-1] == "s0":
            stats["det_last"] += 1
        if not sols:
            stats["no_solution"] += 1
        if "X" in got:
            stats["stopped"] += 1
        if "R" in got:
            stats["reprints"] += 1
        texts = pq["texts"]
        for j, text in enumerate(texts):
            if j >= len(sols):
                break
            stats["answers"] += 1
            distinct.add((sig_class(text), " ".join(tr)))
            if re.search(r"\b_[A-Z]\d*\b", text):
                stats["fabricated_names"] += 1
            if text == "true":
                stats["true_answers"] += 1
                mf = model.get("%s_f%d_%d" % (b, i, j))
                if sols[j] != "true":
                    try:
                        parts = sol_parts(sols[j])
                        rt, goals = parts
                        vals = rt[2] if rt[0] == 's' else []
                        trivial = not goals and all(v[0] == 'v' for v in vals) and len(set(v[1] for v in vals)) == len(vals)
                    except (ValueError, IndexError, KeyError):
                        trivial = True
                    if not trivial:
                        ok = False
                        findings.append(core.Finding("violation", {"kind": "unfaithful", "answer": "true", "q": sig_class(q["text"])},
                                                     "query %r: answer %d is shown as `true` but the solution is %s" % (q["text"], j, sols[j][:200]), case))
                continue
            pr = impl2.get("%s_p%d_%d" % (b, i, j), "missing")
            ar = impl2.get("%s_a%d_%d" % (b, i, j), "missing")
            xr = impl2.get("%s_x%d_%d" % (b, i, j), "missing")
            if any(v in ("timeout", "missing") or v.startswith("abort(") for v in (pr, ar, xr)):
                stats["inconclusive"] += 1
                continue
            # readable?
            if not pr.startswith("{") or ar.startswith("panic("):
                ok = False
                findings.append(core.Finding("violation", {"kind": "unreadable-answer", "class": sig_class(text)},
                                             "query %r: answer %d is printed as %r, which the reader rejects (%s / %s): it cannot be run again"
                                             % (q["text"], j, text, pr[:120], ar[:120]), case))
                continue
            # R2 re-executable
            x1 = items_of(xr)[0] if xr else "missing"
            if q.get("mono", True) and (x1 == "false" or x1.startswith("error(") or x1.startswith("exception(")):
                ok = False
                findings.append(core.Finding("violation", {"kind": "not-reexecutable", "class": sig_class(text), "result": x1[:30]},
                                             "query %r: answer %d %r run again together with the query gives %s" % (q["text"], j, text, x1[:200]), case))
            # R1 faithful
            try:
                want = sol_parts(sols[j])
                aitems = [x for x in items_of(ar) if x not in ("false", "...")]
                have = sol_parts(aitems[0]) if len(aitems) == 1 and aitems[0].startswith("{") else None
            except (ValueError, IndexError, KeyError) as e:
                want = have = None
                stats["inconclusive"] += 1
                continue
            if want is None:
                continue
            if want[1]:
                stats["with_residual"] += 1
            if have is None:
                ok = False
                findings.append(core.Finding("violation", {"kind": "unfaithful", "class": sig_class(text), "how": "answer-goal-result"},
                                             "query %r: answer %d %r run alone gives %s, the solution is %s" % (q["text"], j, text, ar[:200], sols[j][:200]), case))
            else:
                k1 = variant_key(('s', 'k', [want[0], lst(sorted(want[1], key=canon))]))
                k2 = variant_key(('s', 'k', [have[0], lst(sorted(have[1], key=canon))]))
                k1o = variant_key(('s', 'k', [want[0], lst(want[1])]))
                k2o = variant_key(('s', 'k', [have[0], lst(have[1])]))
                if k1o != k2o and k1 != k2:
                    ok = False
                    findings.append(core.Finding("violation", {"kind": "unfaithful", "class": sig_class(text), "how": "bindings"},
                                                 "query %r: answer %d is printed as %r = %s, but the solution is %s" % (q["text"], j, text, k2o[:300], k1o[:300]), case))
            # F answer form (model B)
            mf = model.get("%s_f%d_%d" % (b, i, j))
            if mf is not None:
                try:
                    pb = parse_bindings(pr.split(" ;; ")[0][1:-1])
                    vs, _ = as_list(pb["K__"][2][1])
                    m = {}
                    for e in vs:
                        if e[0] == 's' and e[1] == '=' and e[2][1][0] == 'v':
                            m.setdefault(e[2][1][1], e[2][0][1])
                    goals = flatten_conj(pb["K__"][2][0])
                    shown = []
                    for g in goals:
                        g = subst_names(g, m)
                        if g[0] == 's' and g[1] == '=' and len(g[2]) == 2 and g[2][0][0] == 'v':
                            shown.append(g[2][0][1] + " = " + canon(g[2][1]))
                            if g[2][1][0] == 'v':
                                stats["var_var_eq"] += 1
                        else:
                            shown.append(canon(g))
                    shown = " ;; ".join(shown)
                except (ValueError, IndexError, KeyError) as e:
                    shown = "unparsable(%s)" % e
                mfn = " ;; ".join(canon_text(x) for x in mf.split(" ;; "))
                if shown != mfn:
                    ok = False
                    findings.append(core.Finding("disagreement", {"kind": "answer-form", "class": sig_class(text)},
                                                 "query %r: answer %d is printed as %r = [%s]; the model (gather_equations / extend_var_list) gives [%s] for the solution %s"
                                                 % (q["text"], j, text, shown[:300], mfn[:300], sols[j][:200]), case))
        if ok:
            validated += 1
        if len(samples) < 6 and sols and rng.random() < 0.2:
            samples.append({"query": q["text"], "keys": bt["keys"], "transcript": pq["seg"][:300], "trace": " ".join(tr)})
    for bt in batches:
        bt.pop("_model_runs", None)
        if bt["keys"]:
            stats["keys_nonempty"] += 1
    # dedup findings by signature
    seen, uniq = set(), []
    for f in findings:
        k = json.dumps(f.sig, sort_keys=True)
        if k in seen:
            continue
        seen.add(k)
        uniq.append(f)
    res = {"evaluations": stats["queries"] + stats["answers"] * 3,
           "distinct_nontrivial": len(distinct),
           "rule": "random pure queries (conjunction/disjunction/if-then-else/\\+ over =/2, consulted facts, member/2, append/3, dif/2, freeze/2, throw/1, !) typed at the real toplevel with random keyboards; distinct = (shape class of the answer text, engine trace); non-trivial = the query has at least one solution",
           "samples": samples,
           "traces_validated_against_impl": validated,
           "disagreements_checked": len(findings),
           "findings": uniq,
           "batches": len(batches), "wall_s": round(time.time() - t0, 1)}
    res.update(stats)
    return res


def canon_text(s):
    """model goal text `Name = <canon>` / `<canon>` -> same normal form as `shown`."""
    m = re.match(r"([A-Za-z_][A-Za-z0-9_]*) = (.*)\Z", s, re.S)
    try:
        if m:
            p = P(m.group(2))
            t = p.term()
            if p.i == len(m.group(2)):
                return m.group(1) + " = " + canon(t)
        p = P(s)
        t = p.term()
        return canon(t) if p.i == len(s) else s
    except (ValueError, IndexError):
        return s
