"""C54 — Reified conditionals (library(reif)) are declaratively sound.

One abstract *item* = a reif goal (call(C,T) / if_/3 / tfilter/3 / tpartition/4 / memberd_t/3 /
tmember/2 / tmember_t/3) over the variables X, Y, Z, called after 0-2 goals `V = t` / `dif(V, t)`
(partially instantiated, aliased, constrained arguments).  Every answer of the implementation
(bindings + residual dif/2 goals, read with copy_term/3) is reduced to its SIGNATURE: for each of the
64 valuations of X, Y, Z over {a, b, f(a), f(b)} either `-` (the valuation does not satisfy the
answer) or the instantiated output term.  Three comparisons per item:
  1. the answer signatures, in order, against the Lean model (drv_C54: Reif.evalC / ifT / tfilterM …,
     the definitions the theorems of Props/C54.lean are about);
  2. the property's own oracle on the implementation: the same goal written with explicit
     disjunctions of `=` and dif/2 gives the same multiset of answer signatures;
  3. the declarative specification computed here in Python: every valuation that satisfies the
     goals posted before the call is covered by exactly one answer (at most one for tmember/2, none
     if no element qualifies) and the output under that valuation is the value of the ground query.

Terms are tuples: ('v',name) ('a',name) ('s',functor,[args]).
"""
import itertools
import re
import time

from .. import core

LEVEL = "proof"
TRUSTED_BASE = [
    "Scryer.Unify (C10) as the meaning of =/2, ==/2 and \\=/2 on finite terms; the store of Model/Reif.lean is a specification-level store (posted equations + posted disequalities), not the attributed-variable mechanism of dif.pl",
    "vlib/props/C54.py: rendering of one abstract item as Prolog text and as the driver line; the reduction of an implementation answer (copy of v(X,Y,Z,Out) + residual dif/2 goals from copy_term/3) to its signature by one-way matching against ground tuples; the ground evaluation of conditions and list predicates (declarative specification)",
    "signatures only distinguish answers by the 64 valuations over {a, b, f(a), f(b)}",
]
ASSUMPTIONS = [
    "library(reif), library(dif), library(iso_ext) loaded; occurs_check=false but no item can create a cyclic term (a variable under a functor is only compared through variables that are never bound to non-ground terms)",
    "output arguments (T, Fs, Ts) are unbound at call time; the list skeleton is proper",
    "the explicit-disjunction helper predicates are written as two clauses per disjunction and queries bind their variables first (this avoids open compiler defects C07-2/C07-4, which are not this property's subject)",
]

IMPL_ENV = {"SV_TIMEOUT_MS": "20000"}
MAXA = 64
VARS = ['X', 'Y', 'Z']


def V(n):
    return ('v', n)


def A(n):
    return ('a', n)


def S(f, *args):
    return ('s', f, list(args))


NIL = A('[]')
DOM = [A('a'), A('b'), S('f', A('a')), S('f', A('b'))]
VALS = [dict(zip(VARS, combo)) for combo in itertools.product(DOM, repeat=len(VARS))]


def lst(xs, tail=NIL):
    t = tail
    for x in reversed(xs):
        t = S('.', x, t)
    return t


def to_tuple(t):
    if t[0] == 's':
        return ('s', t[1], [to_tuple(a) for a in t[2]])
    return tuple(t)


def q_atom(a):
    return "'" + a.replace("\\", "\\\\").replace("'", "\\'") + "'"


PLAIN = re.compile(r"[a-z][a-zA-Z0-9_]*")


def pl(t):
    k = t[0]
    if k == 'v':
        return t[1]
    if k == 'a':
        return '[]' if t[1] == '[]' else (t[1] if PLAIN.fullmatch(t[1]) else q_atom(t[1]))
    f, args = t[1], t[2]
    if f == '.' and len(args) == 2:
        items = [args[0]]
        tl = args[1]
        while tl[0] == 's' and tl[1] == '.' and len(tl[2]) == 2:
            items.append(tl[2][0])
            tl = tl[2][1]
        s = ",".join(pl(x) for x in items)
        return "[" + s + "]" if tl == NIL else "[" + s + "|" + pl(tl) + "]"
    name = f if PLAIN.fullmatch(f) else q_atom(f)
    return name + "(" + ",".join(pl(a) for a in args) + ")"


def canon(t):
    k = t[0]
    if k == 'v':
        return t[1]
    if k == 'a':
        return "[]" if t[1] == '[]' else q_atom(t[1])
    return q_atom(t[1]) + "(" + ",".join(canon(a) for a in t[2]) + ")"


def esc(s):
    return s.replace("\\", "\\\\").replace("\n", "\\n").replace("\t", "\\t")


# ------------------------------------------------------------------ parser of canonical terms

class P:
    def __init__(self, s):
        self.s, self.i = s, 0

    def peek(self):
        return self.s[self.i] if self.i < len(self.s) else ""

    def quoted(self, q):
        self.i += 1
        out = []
        while True:
            c = self.s[self.i]
            if c == "\\":
                d = self.s[self.i + 1]
                if d == "x":
                    j = self.s.index("\\", self.i + 2)
                    out.append(chr(int(self.s[self.i + 2:j], 16)))
                    self.i = j + 1
                else:
                    out.append(d)
                    self.i += 2
            elif c == q:
                self.i += 1
                return "".join(out)
            else:
                out.append(c)
                self.i += 1

    def args(self, close):
        out = []
        while True:
            out.append(self.term())
            c = self.s[self.i]
            self.i += 1
            if c == close:
                return out
            if c != ",":
                raise ValueError("bad separator in %r at %d" % (self.s, self.i))

    VAR = re.compile(r"[A-Za-z_][A-Za-z0-9_]*")

    def term(self):
        c = self.peek()
        if c == "'":
            name = self.quoted("'")
            if self.peek() == "(":
                self.i += 1
                return ('s', name, self.args(")"))
            return ('a', name)
        if c == '"':
            return lst([A(ch) for ch in self.quoted('"')])
        if c == "[":
            self.i += 1
            if self.peek() == "]":
                self.i += 1
                return NIL
            return lst(self.args("]"))
        m = self.VAR.match(self.s, self.i)
        if m:
            self.i = m.end()
            return ('v', m.group(0))
        raise ValueError("cannot parse %r at %d" % (self.s, self.i))


def parse_canon(s):
    p = P(s)
    t = p.term()
    if p.i != len(s):
        raise ValueError("trailing text in %r at %d" % (s, p.i))
    return t


def parse_bindings(body):
    p = P(body)
    out = {}
    while p.i < len(body):
        m = P.VAR.match(body, p.i)
        if not m or body[m.end():m.end() + 1] != "=":
            raise ValueError("bad binding in %r at %d" % (body, p.i))
        p.i = m.end() + 1
        out[m.group(0)] = p.term()
        if p.i < len(body):
            if body[p.i] != ",":
                raise ValueError("bad separator")
            p.i += 1
    return out


# ------------------------------------------------------------------ ground evaluation / matching

def inst(t, env):
    k = t[0]
    if k == 'v':
        return env.get(t[1], t)
    if k == 'a':
        return t
    return ('s', t[1], [inst(a, env) for a in t[2]])


def show(t):
    return canon(t)


def match(pat, g, env):
    """one-way matching of pattern `pat` (variables) against ground term `g`."""
    k = pat[0]
    if k == 'v':
        if pat[1] in env:
            return env[pat[1]] == g
        env[pat[1]] = g
        return True
    if k == 'a':
        return pat == g
    if g[0] != 's' or g[1] != pat[1] or len(g[2]) != len(pat[2]):
        return False
    return all(match(a, b, env) for a, b in zip(pat[2], g[2]))


def walk(t, env):
    while t[0] == 'v' and t[1] in env:
        t = env[t[1]]
    return t


def unifiable(a, b, env):
    a, b = walk(a, env), walk(b, env)
    if a == b:
        return True
    if a[0] == 'v':
        env[a[1]] = b
        return True
    if b[0] == 'v':
        env[b[1]] = a
        return True
    if a[0] != 's' or b[0] != 's' or a[1] != b[1] or len(a[2]) != len(b[2]):
        return False
    return all(unifiable(x, y, env) for x, y in zip(a[2], b[2]))


def deterministic_case(item):
    """(=)/3 or dif/3 on arguments that are identical or not unifiable, nothing posted before:
    exactly one answer and NO choice point may be left (the point of library(reif))."""
    c = item["a1"]
    if item["kind"] != 'cond' or item["pre"] or c[1] not in ('=', 'dif'):
        return False
    a, b = c[2]
    return a == b or not unifiable(a, b, {})


def holds(c, th):
    f, a = c[1], c[2]
    if f == '=':
        return inst(a[0], th) == inst(a[1], th)
    if f == 'dif':
        return inst(a[0], th) != inst(a[1], th)
    if f == ',':
        return holds(a[0], th) and holds(a[1], th)
    return holds(a[0], th) or holds(a[1], th)


def papply(p, e, th):
    """truth of call(Partial, E) under th."""
    x = inst(p[2][0], th)
    y = inst(e, th)
    return (x == y) if p[1] == '=' else (x != y)


def expected(item, th):
    """output of the ground query under valuation th (None = no answer covers th)."""
    k = item["kind"]
    if not all(holds(g, th) for g in item["pre"]):
        return None
    if k == 'cond':
        return A('true' if holds(item["a1"], th) else 'false')
    if k == 'if':
        return A('then' if holds(item["a1"], th) else 'else')
    xs = item["list"]
    if k == 'tfilter':
        return lst([inst(e, th) for e in xs if papply(item["a1"], e, th)])
    if k == 'tpartition':
        return S('-', lst([inst(e, th) for e in xs if papply(item["a1"], e, th)]),
                 lst([inst(e, th) for e in xs if not papply(item["a1"], e, th)]))
    if k == 'tmembert':
        return A('true' if any(papply(item["a1"], e, th) for e in xs) else 'false')
    if k == 'tmember':
        return A('yes') if any(papply(item["a1"], e, th) for e in xs) else None
    if k == 'memberd':
        ee = inst(item["a1"], th)
        return A('true' if any(inst(e, th) == ee for e in xs) else 'false')
    raise ValueError(k)


def signature_of_answer(r):
    """R = v(X,Y,Z,Out)-Gs  ->  tuple of per-valuation entries, or None if unreadable."""
    if not (r[0] == 's' and r[1] == '-' and len(r[2]) == 2):
        return None
    tup, gs = r[2]
    if not (tup[0] == 's' and tup[1] == 'v' and len(tup[2]) == 4):
        return None
    difs = []
    while gs != NIL:
        if not (gs[0] == 's' and gs[1] == '.'):
            return None
        g = gs[2][0]
        gs = gs[2][1]
        if g[0] == 's' and g[1] == ':' and len(g[2]) == 2:
            g = g[2][1]
        if not (g[0] == 's' and g[1] == 'dif' and len(g[2]) == 2):
            return None
        difs.append((g[2][0], g[2][1]))
    out = []
    for th in VALS:
        env = {}
        ok = all(match(tup[2][i], th[v], env) for i, v in enumerate(VARS))
        if ok:
            for a, b in difs:
                if inst(a, env) == inst(b, env):
                    ok = False
                    break
        if not ok:
            out.append('-')
        else:
            o = inst(tup[2][3], env)
            out.append(show(o))
    return tuple(out)


def impl_signatures(res):
    """harness result -> (list of signatures, truncated) | None"""
    if res is None:
        return None
    its = res.strip().split(" ;; ") if res.strip() else []
    trunc = False
    if its and its[-1] == "...":
        trunc = True
        its = its[:-1]
    if its and its[-1] == "false":
        its = its[:-1]
    out = []
    for x in its:
        if not (x.startswith("{") and x.endswith("}")):
            return None
        try:
            b = parse_bindings(x[1:-1])
        except (ValueError, IndexError):
            return None
        if "R" not in b:
            return None
        sg = signature_of_answer(b["R"])
        if sg is None:
            return None
        out.append(sg)
    return out, trunc


def model_signatures(res):
    if res is None or not res.startswith("R"):
        return None
    body = res[2:] if len(res) > 2 else ""
    if body == "inconsistent-pre":
        return []
    if not body.strip():
        return []
    out = []
    for a in body.split(" ;; "):
        ent = []
        for e in a.split("|"):
            ent.append('-' if e == '-' else show(parse_canon(e)))
        out.append(tuple(ent))
    return out


def transient(r):
    return r is None or r == "missing" or r.startswith("timeout") or r.startswith("abort") or \
        r.startswith("skipped") or r.startswith("panic") or "timeout" in r


# ------------------------------------------------------------------ rendering of items

HELPERS = """
ini54(_,_,_,_).
tx54(=(A), E, true) :- A = E.
tx54(=(A), E, false) :- dif(A, E).
tx54(dif(A), E, true) :- dif(A, E).
tx54(dif(A), E, false) :- A = E.
tfilter_x54(_, [], []).
tfilter_x54(C, [E|Es], Fs0) :- self54(C, E, Fs0, Fs), tfilter_x54(C, Es, Fs).
self54(C, E, [E|Fs], Fs) :- tx54(C, E, true).
self54(C, E, Fs, Fs) :- tx54(C, E, false).
tpartition_x54(_, [], [], []).
tpartition_x54(P, [X|Xs], Ts0, Fs0) :- selp54(P, X, Ts0, Ts, Fs0, Fs), tpartition_x54(P, Xs, Ts, Fs).
selp54(P, X, [X|Ts], Ts, Fs, Fs) :- tx54(P, X, true).
selp54(P, X, Ts, Ts, [X|Fs], Fs) :- tx54(P, X, false).
tmember_t_x54(_, [], false).
tmember_t_x54(P, [X|_], true) :- tx54(P, X, true).
tmember_t_x54(P, [X|Xs], T) :- tx54(P, X, false), tmember_t_x54(P, Xs, T).
tmember_x54(P, [X|_]) :- tx54(P, X, true).
tmember_x54(P, [X|Xs]) :- tx54(P, X, false), tmember_x54(P, Xs).
memberd_t_x54(_, [], false).
memberd_t_x54(E, [X|_], true) :- X = E.
memberd_t_x54(E, [X|Xs], T) :- dif(X, E), memberd_t_x54(E, Xs, T).
"""


def explicit(c, t):
    """Prolog text of call(C, t) written with =, dif/2 and explicit disjunctions."""
    f, a = c[1], c[2]
    if f == '=':
        return "%s = %s" % (pl(a[0]), pl(a[1])) if t else "dif(%s, %s)" % (pl(a[0]), pl(a[1]))
    if f == 'dif':
        return "dif(%s, %s)" % (pl(a[0]), pl(a[1])) if t else "%s = %s" % (pl(a[0]), pl(a[1]))
    if f == ',':
        if t:
            return "(%s, %s)" % (explicit(a[0], True), explicit(a[1], True))
        return "(%s ; %s, %s)" % (explicit(a[0], False), explicit(a[0], True), explicit(a[1], False))
    if t:
        return "(%s ; %s, %s)" % (explicit(a[0], True), explicit(a[0], False), explicit(a[1], True))
    return "(%s, %s)" % (explicit(a[0], False), explicit(a[1], False))


def goals(item):
    """(reif goal, explicit goal) as Prolog text; the output variable is Out."""
    k = item["kind"]
    if k == 'cond':
        c = item["a1"]
        return ("call(%s, Out)" % pl(c),
                "(%s, Out = true ; %s, Out = false)" % (explicit(c, True), explicit(c, False)))
    if k == 'if':
        c = item["a1"]
        return ("if_(%s, Out = then, Out = else)" % pl(c),
                "(%s, Out = then ; %s, Out = else)" % (explicit(c, True), explicit(c, False)))
    L = pl(lst(item["list"]))
    p = pl(item["a1"])
    if k == 'tfilter':
        return "tfilter(%s, %s, Out)" % (p, L), "tfilter_x54(%s, %s, Out)" % (p, L)
    if k == 'tpartition':
        return ("tpartition(%s, %s, Ts, Fs), Out = Ts-Fs" % (p, L),
                "tpartition_x54(%s, %s, Ts, Fs), Out = Ts-Fs" % (p, L))
    if k == 'tmembert':
        return "tmember_t(%s, %s, Out)" % (p, L), "tmember_t_x54(%s, %s, Out)" % (p, L)
    if k == 'tmember':
        return "tmember(%s, %s), Out = yes" % (p, L), "tmember_x54(%s, %s), Out = yes" % (p, L)
    return "memberd_t(%s, %s, Out)" % (p, L), "memberd_t_x54(%s, %s, Out)" % (p, L)


def render(item, iid):
    pre = "".join(("%s = %s, " % (pl(g[2][0]), pl(g[2][1])) if g[1] == '=' else
                   "dif(%s, %s), " % (pl(g[2][0]), pl(g[2][1]))) for g in item["pre"])
    g1, g2 = goals(item)
    tail = ", copy_term(v(X,Y,Z,Out), C, Gs), R = C-Gs."
    q1 = "ini54(X,Y,Z,Out), " + pre + g1 + tail
    q2 = "ini54(X,Y,Z,Out), " + pre + g2 + tail
    impl = ["Q\t%sr\t%d\t%s" % (iid, MAXA, esc(q1)), "Q\t%sx\t%d\t%s" % (iid, MAXA, esc(q2))]
    a2 = canon(lst(item["list"])) if "list" in item else "[]"
    model = "ev\t%s\t%s\t%s\t%s\t%s\t%s\t%s" % (
        iid, item["kind"], " ".join(VARS), " ;; ".join(canon(d) for d in DOM),
        canon(lst(item["pre"])), canon(item["a1"]), a2)
    return impl, model, q1, q2


# ------------------------------------------------------------------ generator

def gen_term(rng, role):
    """role 'xy': anything; role 'z': only ground terms (Z is only ever compared with ground terms,
    so no cyclic term can arise)."""
    r = rng.random()
    if role == 'z':
        return rng.choice([A('a'), A('b'), S('f', A('a')), S('f', A('b')), A('c')])
    if r < 0.3:
        return V(rng.choice(['X', 'Y']))
    if r < 0.55:
        return A(rng.choice(['a', 'b']))
    if r < 0.7:
        return S('f', V('Z'))
    if r < 0.85:
        return S('f', A(rng.choice(['a', 'b'])))
    if r < 0.93:
        return S('f', S('f', A('a')))
    return A('c')


def gen_pair(rng):
    if rng.random() < 0.15:
        return V('Z'), gen_term(rng, 'z')
    a = V(rng.choice(['X', 'Y'])) if rng.random() < 0.8 else gen_term(rng, 'xy')
    b = gen_term(rng, 'xy')
    if rng.random() < 0.3:
        a, b = b, a
    return a, b


def gen_cond(rng, depth):
    r = rng.random()
    if depth == 0 or r < 0.45:
        a, b = gen_pair(rng)
        return S('=' if rng.random() < 0.65 else 'dif', a, b)
    return S(',' if rng.random() < 0.5 else ';', gen_cond(rng, depth - 1), gen_cond(rng, depth - 1))


def gen_item(rng):
    pre = []
    for _ in range(rng.choice([0, 0, 1, 1, 2])):
        a, b = gen_pair(rng)
        if a[0] != 'v':
            a, b = b, a
        if a[0] != 'v':
            continue
        pre.append(S('=' if rng.random() < 0.5 else 'dif', a, b))
    r = rng.random()
    it = {"pre": pre}
    if r < 0.3:
        it.update(kind='cond', a1=gen_cond(rng, rng.choice([0, 1, 1, 2])))
    elif r < 0.5:
        it.update(kind='if', a1=gen_cond(rng, rng.choice([0, 1, 2])))
    else:
        kind = rng.choice(['tfilter', 'tfilter', 'tpartition', 'tmembert', 'tmember', 'memberd', 'memberd'])
        xs = [gen_term(rng, 'xy') for _ in range(rng.choice([0, 1, 2, 2, 3]))]
        if kind == 'memberd':
            a1 = gen_term(rng, 'xy')
        else:
            a1 = S(rng.choice(['=', '=', 'dif']), gen_term(rng, 'xy'))
        it.update(kind=kind, a1=a1, list=xs)
    return it


def norm_item(it):
    out = {"kind": it["kind"], "pre": [to_tuple(g) for g in it["pre"]], "a1": to_tuple(it["a1"])}
    if "list" in it:
        out["list"] = [to_tuple(x) for x in it["list"]]
    return out


def boundary_items():
    """the cases the theorems single out: identical / not unifiable arguments (one answer),
    pending dif that kills the `true` branch, aliasing, dif/3 (false first), empty lists."""
    X, Y, a, b = V('X'), V('Y'), A('a'), A('b')
    its = []
    for c in [S('=', a, a), S('=', a, b), S('=', X, X), S('=', X, a), S('=', X, Y), S('dif', X, a), S('dif', a, a),
              S('=', S('f', X), S('f', a)), S('=', S('f', X), a), S(',', S('=', X, a), S('=', Y, b)),
              S(';', S('=', X, a), S('=', X, b)), S(',', S('dif', X, a), S('dif', X, b)),
              S(';', S('dif', X, a), S('=', Y, b))]:
        its.append({"kind": "cond", "pre": [], "a1": c})
        its.append({"kind": "if", "pre": [S('dif', X, a)], "a1": c})
        its.append({"kind": "cond", "pre": [S('=', X, Y)], "a1": c})
    for kind in ['tfilter', 'tpartition', 'tmembert', 'tmember']:
        for p in [S('=', a), S('dif', X), S('=', X)]:
            for xs in [[], [a], [X, Y], [a, X, b]]:
                its.append({"kind": kind, "pre": [], "a1": p, "list": xs})
    for e in [a, X]:
        for xs in [[], [a, b], [X, Y], [Y, a, X]]:
            its.append({"kind": "memberd", "pre": [], "a1": e, "list": xs})
    return its


# ------------------------------------------------------------------ run

def run(ctx):
    rng = ctx["rng"]
    tier = ctx["tier"]
    rep = ctx.get("replay")
    if rep:
        import json
        d = json.load(open(rep))
        c = d.get("case")
        items = [norm_item(x) for x in (c if isinstance(c, list) else [c])]
    else:
        items = [norm_item(x) for x in boundary_items()]
        n = 700 if tier == "quick" else 9000
        items += [norm_item(gen_item(rng)) for _ in range(n)]
    cases, model_lines, meta = [], [], []
    per = 25
    def head(tag):
        return ["Q\tu%s_%d\t1\tuse_module(library(%s))." % (tag, i, m) for i, m in enumerate(["reif", "dif", "iso_ext"])]
    for i, it in enumerate(items):
        iid = "i%d" % i
        impl, model, q1, q2 = render(it, iid)
        model_lines.append(model)
        meta.append((iid, it, q1, q2))
        if i % per == 0:
            k = i // per
            cases.append(head(str(k)) + ["L\tl%d\tuser\t%s" % (k, esc(HELPERS))])
        cases[-1].extend(impl)
    t0 = time.time()
    model = core.run_model(model_lines)
    impl = core.run_impl_parallel(cases, env=IMPL_ENV)
    flaky = [m for m in meta if transient(impl.get(m[0] + "r")) or transient(impl.get(m[0] + "x"))]
    retried = len(flaky)
    if flaky:
        lines = head("R") + ["L\tlR\tuser\t%s" % esc(HELPERS)]
        for iid, it, q1, q2 in flaky[:400]:
            lines += render(it, iid)[0]
        impl.update(core.run_impl(lines, env={"SV_TIMEOUT_MS": "60000"}))
    core.log("[C54] correspondence run: %d items, %.1fs, %d retried" % (len(items), time.time() - t0, retried))
    findings, seen = [], set()
    stats = {"items": 0, "agree_model": 0, "agree_explicit": 0, "agree_spec": 0, "skipped": 0, "answers": 0,
             "with_residual_dif": 0}
    per_kind = {}
    nontrivial = set()
    samples = []

    def report(kind, sig, detail, it):
        key = str(sorted(sig.items()))
        if key in seen:
            return
        seen.add(key)
        findings.append(core.Finding(kind, sig, detail, case=it))

    for iid, it, q1, q2 in meta:
        ir, ix, mr = impl.get(iid + "r"), impl.get(iid + "x"), model.get(iid)
        if rep:
            core.log("[C54] %s\n   reif    : %s\n   explicit: %s\n   model   : %s" % (q1, ir, ix, mr))
        si, sx, sm = impl_signatures(ir), impl_signatures(ix), model_signatures(mr)
        if si is None or sx is None or sm is None or si[1] or sx[1]:
            stats["skipped"] += 1
            if sm is None:
                report("disagreement", {"op": it["kind"], "defect": "model-driver-unreadable"}, "%s -> %s" % (q1, mr), it)
            elif not (transient(ir) or transient(ix)) and not ((si and si[1]) or (sx and sx[1])):
                report("disagreement", {"op": it["kind"], "defect": "implementation-answer-unreadable"},
                       "%s -> %s / %s" % (q1, ir, ix), it)
            continue
        si, sx = si[0], sx[0]
        stats["items"] += 1
        if deterministic_case(it):
            stats["deterministic_cases"] = stats.get("deterministic_cases", 0) + 1
            if len(si) != 1 or ir.strip().endswith(";; false"):
                report("violation", {"op": it["kind"], "defect": "choice-point-left-on-decided-equation"},
                       "%s must give exactly one answer and leave no choice point, got %s" % (q1, ir), it)
        stats["answers"] += len(si)
        per_kind[it["kind"]] = per_kind.get(it["kind"], 0) + 1
        if "dif" in (ir or ""):
            stats["with_residual_dif"] += 1
        # 3. declarative specification
        spec_ok = True
        why = ""
        for j, th in enumerate(VALS):
            cov = [a[j] for a in si if a[j] != '-']
            exp = expected(it, th)
            if exp is None:
                if cov:
                    spec_ok, why = False, "valuation %s must not be covered, got %s" % (
                        {k: pl(v) for k, v in th.items()}, cov)
                    break
            elif cov != [show(exp)]:
                spec_ok, why = False, "valuation %s: expected exactly one answer with %s, got %s" % (
                    {k: pl(v) for k, v in th.items()}, show(exp), cov)
                break
        if spec_ok:
            stats["agree_spec"] += 1
        else:
            report("violation", {"op": it["kind"], "defect": "answers-contradict-ground-query"},
                   "%s: %s; answers %s" % (q1, why, ir), it)
        # 2. the property's own oracle
        if sorted(si) == sorted(sx):
            stats["agree_explicit"] += 1
        else:
            report("violation", {"op": it["kind"], "defect": "differs-from-explicit-disjunction"},
                   "%s gives %s but %s gives %s" % (q1, ir, q2, ix), it)
        # 1. the model
        if si == sm:
            stats["agree_model"] += 1
            if len(si) >= 2:
                nontrivial.add(q1)
                if len(samples) < 6:
                    samples.append({"query": q1, "answers": ir})
        else:
            kind = "violation" if not spec_ok else "disagreement"
            shape = "same-multiset-different-order" if sorted(si) == sorted(sm) else "different-answers"
            report(kind, {"op": it["kind"], "defect": "differs-from-model", "shape": shape},
                   "%s: implementation %s, model %s" % (q1, ir, mr), it)
    return {
        "evaluations": stats["items"] * 2,
        "distinct_nontrivial": len(nontrivial),
        "rule": "boundary items (identical / non-unifiable / aliased arguments, pending dif, dif/3, empty lists) + random items: "
                "0-2 goals V = t / dif(V, t) posted first, then call(C,T) or if_/3 with conditions of depth <= 2 over =, dif, (,), (;) "
                "on terms from {X, Y, Z, a, b, c, f(Z), f(a), f(b), f(f(a))}, or tfilter/tpartition/tmember_t/tmember/memberd_t on lists "
                "of 0-3 such terms; each item is run as the reif goal and as the explicit-disjunction goal. non-trivial = at least two "
                "answers and agreement with the model; distinct by query text",
        "samples": samples,
        "traces_validated_against_impl": stats["agree_model"],
        "disagreements_checked": stats["items"] - stats["agree_model"],
        "retried_after_timeout": retried,
        "stats": stats,
        "per_kind": per_kind,
        "valuations_per_answer": len(VALS),
        "findings": findings,
    }
