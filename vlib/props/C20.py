"""C20 — Strings behave exactly like the character lists they denote.

The property's own oracle is INDISTINGUISHABILITY. One abstract *item* = (operation, character
lists, tails). It is rendered as several *variants*: the same goal in which every character list is
built by a different *recipe* (a prelude goal known to produce a given heap representation):

  lis    explicit chain of list cells: `V = [H1,H2|T], H1 = a, H2 = b` (the reference)
  lit    literal: `V = "ab"` / `V = [a,b|T]`  (a literal of one-char atoms is a string segment)
  ps     `partial_string("ab", V, T)`
  ac     `atom_chars(ab, V)`
  off    suffix of a longer string: `V0 = "xyab", V0 = [_,_|V]`  (PStrLoc with an offset)
  chain  several pieces of the kinds above linked through their tails (multi-segment, mixed)
  app    `append(P1, P2, V)` of two such pieces
  copy / fa / asrt / cons   copy_term, findall copy, asserted fact, consulted fact

Every variant must produce the same *observation*. The observation is taken INSIDE findall/3 as an
atom (`write_term_to_chars` text), so the answer conversion of the library API cannot interfere
(that conversion is itself tested by the operation family `ans`).

For the mechanism-level operations (unify, compare, head/tail decomposition, iteration, segment
layout through the `HS` heap hook) the expected observation is also computed by the Lean model
(`drv_C20`, the `Repr`-level functions of Model/PStr.lean which Props/C20.lean proves equal to the
list operations on `denote`).
"""
import json
import re
import time

from .. import core, diff

LEVEL = "proof"
TRUSTED_BASE = [
    "vlib/props/C20.py renders one abstract item (operation, character lists, tails) as Prolog text per representation recipe; which heap representation a recipe produces (literal / partial_string/3 / atom_chars = PStr segment, `[H|T]` with variable heads = Lis cells, `S = [_,_|V]` = PStrLoc with an offset) is read off the code, not measured",
    "observations are the text write_term_to_chars/3 (quoted(true)) gives for the operation's result, collected inside findall/3; variables print as A, B, … in order of first occurrence",
    "the Lean driver drv_C20 parses the token encoding of representations produced here (segments as code point lists)",
    "the Less/Greater branch of compare_pstr_slices (7-byte utf8_chunks window) is abstracted to 'compare the first differing byte'",
]
ASSUMPTIONS = [
    "operations whose result legitimately depends on variable age (standard order of two distinct unbound tails) are generated only with one shared tail variable",
    "cyclic results are avoided (plain unification is generated with distinct tail variables only)",
    "operations that do not terminate on partial lists (reverse/2, nth0/3 enumeration, member/2 enumeration …) are generated for non-variable tails or wrapped in once/1",
]

IMPL_ENV = {"SV_TIMEOUT_MS": "20000"}

USE = ("use_module(library(iso_ext)),use_module(library(lists)),use_module(library(charsio)),"
       "use_module(library(format)),use_module(library(dcgs)),use_module(library(si)),use_module(library(error)).")

HELPER = r"""
obs_c20(T, A) :- write_term_to_chars(T, [quoted(true)], Cs), atom_chars(A, Cs).
c20len([], 0).
c20len([_|T], N) :- c20len(T, M), N is M+1.
c20app([], L, L).
c20app([H|T], L, [H|R]) :- c20app(T, L, R).
c20rev([], A, A).
c20rev([H|T], A, R) :- c20rev(T, [H|A], R).
c20h1([H|T], H, T).
c20h2([A,B|T], A, B, T).
c20h3([A,B,C|T], A, B, C, T).
c20same([X,X|T], X, T).
c20dot('.'(H,T), H, T).
c20ab([a,b|T], T).
c20ab2("ab", yes).
c20ab2([a,b,c|T], T).
c20ab2([], nil).
c20last([X], X).
c20last([_,Y|T], X) :- c20last([Y|T], X).
c20w([C|Cs]) --> [C], { C \== ' ' }, c20w(Cs).
c20w([]) --> [].
c20idx([], e).
c20idx([_|_], l).
c20idx(foo, a).
c20idx("ab", s).
c20idx(f(_), c).
c20sw([], e) :- !.
c20sw([a|_], a) :- !.
c20sw([_|T], R) :- c20sw(T, R).
"""


def transient(r):
    return (r == "missing" or r.startswith("timeout") or r.startswith("abort") or r.startswith("skipped")
            or "'$interrupt_thrown'" in r or "exception('/'('repl',0))" in r)


ANS_RE = re.compile(r"^\{Ans=(.*?),S1=")


def ans_part(r):
    m = ANS_RE.match(r)
    return "ans:" + m.group(1) if m else r


def norm(r):
    """variables that write_term_to_chars prints by address (`_123`) are made anonymous"""
    return re.sub(r"(?<![A-Za-z0-9_])_[0-9]+", "_N", r)


def lost_helper(r):
    return "existence_error" in r and ("obs_c20" in r or "'c20" in r)


# ------------------------------------------------------------------ characters and text

ASCII = list("abcxyz019")
SPECIAL = [" ", "\"", "'", "\\", "A", "_", "[", "."]
MULTI = ["\u00e9", "\u00e8", "\u00ff", "\u0080", "\u07ff", "\u0800", "\u20ac", "\uffff", "\U00010000",
         "\U0001F600", "\U0010FFFF", "\u00e0"]
NUL = "\x00"

LENS = [0, 1, 1, 2, 2, 3, 3, 4, 5, 6, 7, 7, 8, 8, 9, 10, 14, 15, 15, 16, 16, 17, 23, 24, 25, 31, 32, 33, 40]


def ctrl(c):
    return ord(c) < 0x20 or 0x7f <= ord(c) <= 0x9f


def atom_txt(c):
    if c == "'":
        return "''''"
    if c == "\\":
        return "'\\\\'"
    if ctrl(c):
        return "'\\x%x\\'" % ord(c)
    return "'" + c + "'"


def dq_txt(cs):
    out = []
    for c in cs:
        if c == '"':
            out.append('\\"')
        elif c == "\\":
            out.append("\\\\")
        elif ctrl(c):
            out.append("\\x%x\\" % ord(c))
        else:
            out.append(c)
    return '"' + "".join(out) + '"'


def lit_list(cs, tail):
    """list syntax whose elements are all one-char atoms"""
    if not cs:
        return tail
    body = ",".join(atom_txt(c) for c in cs)
    return "[" + body + ("]" if tail == "[]" else "|" + tail + "]")


def hesc(q):
    """harness text field escaping"""
    return q.replace("\\", "\\\\").replace("\n", "\\n").replace("\t", "\\t").replace("\r", "\\r")


def gen_chars(rng, n=None, nul_ok=True):
    if n is None:
        n = rng.choice(LENS)
    mode = rng.random()
    out = []
    for _ in range(n):
        r = rng.random()
        if mode < 0.45:
            c = rng.choice(ASCII)
        elif mode < 0.6:
            c = rng.choice(ASCII[:2])
        elif r < 0.5:
            c = rng.choice(ASCII)
        elif r < 0.8:
            c = rng.choice(MULTI)
        elif r < 0.93 or not nul_ok:
            c = rng.choice(SPECIAL)
        else:
            c = NUL
        out.append(c)
    return out


def near(rng, cs):
    """a character list related to cs: equal, one char changed, prefix, extension, other"""
    r = rng.random()
    cs = list(cs)
    if r < 0.35 or (not cs and r < 0.6):
        return cs
    if r < 0.6 and cs:
        i = rng.randrange(len(cs))
        c = cs[i]
        # prefer a char sharing leading UTF-8 bytes (mismatch inside a multi-byte character)
        cand = [d for d in MULTI + ASCII if d != c and d.encode()[:1] == c.encode()[:1] and len(d.encode()) > 1]
        cs[i] = rng.choice(cand) if cand and rng.random() < 0.7 else rng.choice([d for d in ASCII + MULTI if d != c])
        return cs
    if r < 0.75 and cs:
        return cs[:rng.randrange(len(cs))]
    if r < 0.9:
        return cs + gen_chars(rng, rng.choice([1, 1, 2, 7, 8, 9]))
    return gen_chars(rng)


# ------------------------------------------------------------------ representation recipes

class Fresh:
    def __init__(self, uid):
        self.n = 0
        self.uid = uid

    def __call__(self):
        self.n += 1
        return "_V%d" % self.n


BASE = ["lis", "lit", "ps", "off", "ac", "str"]


def piece(kind, cs, tail, V, fr, rng):
    """goal text that binds V to the list cs with tail `tail` using one base recipe"""
    if not cs:
        return "%s = %s" % (V, tail)
    if kind == "lis":
        hs = [fr() for _ in cs]
        order = list(range(len(cs)))
        if rng.random() < 0.3:
            rng.shuffle(order)
        return "%s = [%s|%s], %s" % (V, ",".join(hs), tail,
                                     ", ".join("%s = (%s)" % (hs[i], atom_txt(cs[i])) for i in order))
    if kind == "str":
        # explicit './2' structures for the first cell, Lis cells behind
        h = fr()
        t = fr()
        return "%s = '.'(%s,%s), %s = (%s), %s" % (V, h, t, h, atom_txt(cs[0]),
                                                piece("lis", cs[1:], tail, t, fr, rng))
    if kind == "lit":
        if tail == "[]" and rng.random() < 0.6:
            return "%s = %s" % (V, dq_txt(cs))
        return "%s = %s" % (V, lit_list(cs, tail))
    if kind == "ps":
        return "partial_string(%s, %s, %s)" % (dq_txt(cs), V, tail)
    if kind == "ac":
        a = "'" + "".join("''" if c == "'" else "\\\\" if c == "\\" else ("\\x%x\\" % ord(c)) if ctrl(c) else c for c in cs) + "'"
        if tail == "[]":
            return "atom_chars(%s, %s)" % (a, V)
        v0 = fr()
        return "atom_chars(%s, %s), partial_string(%s, %s, %s)" % (a, v0, v0, V, tail)
    if kind == "off":
        k = rng.choice([1, 1, 2, 3, 5, 7, 8, 9])
        junk = gen_chars(rng, k, nul_ok=False)
        v0 = fr()
        skip = ",".join("_" for _ in junk)
        if tail == "[]" and rng.random() < 0.5:
            return "%s = %s, %s = [%s|%s]" % (v0, dq_txt(junk + cs), v0, skip, V)
        return "%s = %s, %s = [%s|%s]" % (v0, lit_list(junk + cs, tail), v0, skip, V)
    raise ValueError(kind)


def split(rng, cs, k):
    if k <= 1 or len(cs) < 2:
        return [cs]
    cuts = sorted(rng.sample(range(1, len(cs)), min(k - 1, len(cs) - 1)))
    out, p = [], 0
    for c in cuts + [len(cs)]:
        out.append(cs[p:c])
        p = c
    return out


def chain(kinds, cs, tail, V, fr, rng):
    parts = split(rng, cs, len(kinds))
    goals = []
    cur = V
    for i, p in enumerate(parts):
        nxt = tail if i == len(parts) - 1 else fr()
        goals.append(piece(kinds[i % len(kinds)], p, nxt, cur, fr, rng))
        cur = nxt
    # bind later pieces first sometimes (the tail variable is bound after the head segment exists)
    if rng.random() < 0.5:
        goals = [goals[0]] + goals[1:][::-1] if len(goals) > 2 and rng.random() < 0.5 else goals
    return ", ".join(goals)


def pick_recipe(rng):
    r = rng.random()
    if r < 0.40:
        return {"k": "chain", "kinds": [rng.choice(BASE[1:])]}
    if r < 0.70:
        return {"k": "chain", "kinds": [rng.choice(BASE) for _ in range(rng.choice([2, 2, 3, 4]))]}
    if r < 0.78:
        return {"k": "app", "kinds": [rng.choice(BASE), rng.choice(BASE)]}
    if r < 0.84:
        return {"k": "copy", "kinds": [rng.choice(BASE[1:]) for _ in range(rng.choice([1, 2]))]}
    if r < 0.90:
        return {"k": "fa", "kinds": [rng.choice(BASE[1:]) for _ in range(rng.choice([1, 2]))]}
    if r < 0.95:
        return {"k": "asrt", "kinds": [rng.choice(BASE[1:]) for _ in range(rng.choice([1, 2]))]}
    return {"k": "cons", "kinds": ["lit"]}


REF = {"k": "chain", "kinds": ["lis"]}


def build(recipe, cs, tail, V, fr, rng, uid, extra):
    k = recipe["k"]
    if k == "chain":
        return chain(recipe["kinds"], cs, tail, V, fr, rng)
    if k == "app":
        if len(cs) < 2:
            return chain(recipe["kinds"], cs, tail, V, fr, rng)
        c = rng.randrange(1, len(cs))
        p1, p2 = fr(), fr()
        return "%s, %s, append(%s, %s, %s)" % (piece(recipe["kinds"][0], cs[:c], "[]", p1, fr, rng),
                                               piece(recipe["kinds"][1], cs[c:], tail, p2, fr, rng), p1, p2, V)
    x, tt = fr(), fr()
    inner = chain(recipe["kinds"], cs, tt, x, fr, rng)
    if k == "copy":
        return "%s, copy_term(%s-%s, %s-%s)" % (inner, x, tt, V, tail)
    if k == "fa":
        return "findall(%s-%s, (%s), [%s-%s])" % (x, tt, inner, V, tail)
    if k == "asrt":
        p = "c20s_%s_%d" % (uid, len(extra))
        extra.append(None)
        return "%s, assertz(%s(%s,%s)), %s(%s,%s)" % (inner, p, x, tt, p, V, tail)
    if k == "cons":
        p = "c20c_%s_%d" % (uid, len(extra))
        form = rng.random()
        if form < 0.4 or not cs:
            head = "%s(%s, T)." % (p, lit_list(cs, "T"))
        elif form < 0.7:
            head = "%s(S, T) :- S = %s." % (p, lit_list(cs, "T"))
        else:
            c = rng.randrange(len(cs))
            head = "%s(S, T) :- partial_string(%s, S, T0), T0 = %s." % (p, dq_txt(cs[:c + 1]), lit_list(cs[c + 1:], "T"))
        extra.append(head)
        return "%s(%s,%s)" % (p, V, tail)
    raise ValueError(k)


# ------------------------------------------------------------------ operations
# template variables: {S1} {S2} subjects, {T1} {T2} their tail texts, {R} result.
# flags: two = two subjects; proper = tails must be non-variable; same = two variable tails must be
# the same variable; dist = two variable tails must be distinct; short = at most 4 chars

OPS = [
    # --- unification family
    ("unify", "two dist", "({S1} = {S2} -> {R} = y({T1},{T2},{S1}) ; {R} = n)"),
    ("unify_rev", "two dist", "({S2} = {S1} -> {R} = y({T1},{T2},{S2}) ; {R} = n)"),
    ("unify_oc", "two", "(unify_with_occurs_check({S1}, {S2}) -> {R} = y({T1},{T2}) ; {R} = n)"),
    ("not_unify", "two dist", "({S1} \\= {S2} -> {R} = y ; {R} = n)"),
    ("unify_in_struct", "two dist", "(f({S1},{S2},{S1}) = f({S2},{S1},Z) -> {R} = y({T1},{T2},Z) ; {R} = n)"),
    ("subsumes", "two", "(subsumes_term({S1}, {S2}) -> {R} = y ; {R} = n)"),
    # --- comparison family
    ("eq", "two same", "({S1} == {S2} -> {R} = y ; {R} = n)"),
    ("neq", "two same", "({S1} \\== {S2} -> {R} = y ; {R} = n)"),
    ("compare", "two same", "compare({R}, {S1}, {S2})"),
    ("compare_rev", "two same", "compare({R}, {S2}, {S1})"),
    ("lt", "two same", "({S1} @< {S2} -> {R} = y ; {R} = n)"),
    ("ge", "two same", "({S1} @>= {S2} -> {R} = y ; {R} = n)"),
    ("cmp_other", "", "compare(O1,{S1},'.'(a)), compare(O2,{S1},f(a,b)), compare(O3,{S1},'.'(a,b,c)), compare(O4,{S1},[]), compare(O5,{S1},\"b\"), compare(O6,'.'('0',[]),{S1}), {R} = [O1,O2,O3,O4,O5,O6]"),
    ("sort", "two same", "sort([{S1},{S2},\"b\",{S1},[],\"abc\"], {R})"),
    ("msort", "two same", "msort([{S1},{S2},\"b\",{S1}], {R})"),
    ("sort4", "two same", "sort(0, @>=, [{S1},{S2},\"ab\",{S1}], {R})"),
    ("keysort", "two same", "keysort([{S1}-1,{S2}-2,\"b\"-3,{S1}-4], {R})"),
    ("setof", "two same", "setof(X-Y, member(X-Y, [{S1}-1,{S2}-2,{S1}-0,{S2}-2]), {R})"),
    ("sort_self", "proper", "sort({S1}, R1), msort({S1}, R2), {R} = R1-R2"),
    # --- term inspection
    ("functor", "", "functor({S1}, N, A), {R} = N/A"),
    ("arg1", "", "arg(1, {S1}, {R})"),
    ("arg2", "", "arg(2, {S1}, {R})"),
    ("arg_enum", "", "findall(N-X, arg(N, {S1}, X), {R})"),
    ("arg3", "", "(arg(3, {S1}, X) -> {R} = y(X) ; {R} = n)"),
    ("univ", "", "{S1} =.. {R}"),
    ("univ_build", "", "X =.. ['.', h, {S1}], (X == [h|{S1}] -> {R} = y(X) ; {R} = n(X))"),
    ("copy_term", "", "copy_term(f({S1},{T1}), {R})"),
    ("term_variables", "", "term_variables(f({S1},{T1},Z), {R})"),
    ("ground", "", "(ground({S1}) -> {R} = y ; {R} = n)"),
    ("types", "", "findall(P, (member(P, [var,nonvar,atom,atomic,compound,callable,is_list,number,acyclic_term]), call(P, {S1})), {R})"),
    ("si", "", "catch((chars_si({S1}) -> R1 = y ; R1 = n), error(E1,_), R1 = E1), catch((list_si({S1}) -> R2 = y ; R2 = n), error(E2,_), R2 = E2), {R} = R1-R2"),
    ("must_be", "", "catch((must_be(chars, {S1}) -> R1 = y ; R1 = n), error(E1,_), R1 = E1), catch((must_be(list, {S1}) -> R2 = y ; R2 = n), error(E2,_), R2 = E2), {R} = R1-R2"),
    ("numbervars", "", "numbervars(f({S1},{T1}), 0, E), {R} = E-{S1}"),
    # --- decomposition through unification with explicit list cells
    ("decomp1", "", "({S1} = [H|T] -> {R} = y(H,T) ; {R} = n)"),
    ("decomp2", "", "({S1} = [_,_|T] -> {R} = y(T) ; {R} = n)"),
    ("decomp3", "", "({S1} = [A,B,C|T] -> {R} = y(A,B,C,T) ; {R} = n)"),
    ("decomp_dot", "", "({S1} = '.'(H,T) -> {R} = y(H,T) ; {R} = n)"),
    ("decomp_same", "", "({S1} = [X,X|T] -> {R} = y(X,T) ; {R} = n)"),
    ("head_h1", "", "(c20h1({S1}, H, T) -> {R} = y(H,T) ; {R} = n)"),
    ("head_h2", "", "(c20h2({S1}, A, B, T) -> {R} = y(A,B,T) ; {R} = n)"),
    ("head_h3", "", "(c20h3({S1}, A, B, C, T) -> {R} = y(A,B,C,T) ; {R} = n)"),
    ("head_same", "", "(c20same({S1}, X, T) -> {R} = y(X,T) ; {R} = n)"),
    ("head_dot", "", "(c20dot({S1}, H, T) -> {R} = y(H,T) ; {R} = n)"),
    ("head_ab", "", "(c20ab({S1}, T) -> {R} = y(T,{T1}) ; {R} = n)"),
    ("head_ab2", "", "findall(T-{T1}, c20ab2({S1}, T), {R})"),
    ("head_idx", "", "findall(K-{T1}, c20idx({S1}, K), {R})"),
    ("head_sw", "", "(c20sw({S1}, K) -> {R} = y(K,{T1}) ; {R} = n)"),
    ("head_last", "proper", "(c20last({S1}, X) -> {R} = y(X) ; {R} = n)"),
    # --- list predicates
    ("length", "", "once(length({S1}, N)), {R} = N-{T1}"),
    ("length_chk", "", "findall(K-{T1}, (member(K, [0,1,2,3,7,8,9,16]), length({S1}, K)), {R})"),
    ("length_gen", "", "length(L, 3), (L = {S1} -> {R} = y(L,{T1}) ; {R} = n)"),
    ("c20len", "proper", "(c20len({S1}, N) -> {R} = N ; {R} = n)"),
    ("append3", "two", "once(append({S1}, {S2}, X)), {R} = X-{T1}"),
    ("append_split", "proper short", "findall(X-Y, append(X, Y, {S1}), {R})"),
    ("append_prefix", "two dist", "(once(append({S1}, X, {S2})) -> {R} = y(X,{T1},{T2}) ; {R} = n)"),
    ("append_suffix", "two proper", "findall(X, append(X, {S1}, {S2}), {R})"),
    ("append2", "two proper", "append([{S1},{S2},{S1}], {R})"),
    ("c20app", "two proper", "(c20app({S1}, {S2}, X) -> {R} = X ; {R} = n)"),
    ("nth0", "proper", "findall(I-X, nth0(I, {S1}, X), {R})"),
    ("nth1_k", "", "(once(nth1(2, {S1}, X)) -> {R} = y(X,{T1}) ; {R} = n)"),
    ("reverse", "proper", "reverse({S1}, {R})"),
    ("c20rev", "proper", "c20rev({S1}, [], {R})"),
    ("member", "proper", "findall(X, member(X, {S1}), {R})"),
    ("memberchk", "", "(memberchk(b, {S1}) -> {R} = y({T1}) ; {R} = n)"),
    ("select", "proper short", "findall(X-Y, select(X, {S1}, Y), {R})"),
    ("maplist", "proper", "maplist(char_code, {S1}, {R})"),
    ("maplist_eq", "", "(maplist(=(X), {S1}) -> {R} = y(X,{T1}) ; {R} = n)"),
    ("foldl", "proper", "foldl([C,A0,A1]>>(A1 = [C|A0]), {S1}, [], {R})"),
    ("list_to_set", "proper", "list_to_set({S1}, {R})"),
    ("sum_codes", "proper", "findall(C, (member(X, {S1}), char_code(X, C)), {R})"),
    ("dcg_word", "proper", "(phrase(c20w(W), {S1}, Rest) -> {R} = y(W,Rest) ; {R} = n)"),
    ("dcg_seq", "proper short", "findall(A-B, phrase((seq(A),seq(B)), {S1}), {R})"),
    # --- atoms, numbers
    ("atom_chars", "", "atom_chars(A, {S1}), atom_length(A, N), {R} = A-N"),
    ("atom_chars_chk", "two", "(atom_chars(A, {S1}), atom_chars(A, {S2}) -> {R} = y({T2}) ; {R} = n)"),
    ("atom_codes", "proper", "maplist(char_code, {S1}, Cs), atom_codes(A, Cs), atom_chars(A, {R})"),
    ("number_chars", "", "number_chars({R}, {S1})"),
    ("number_chars_chk", "", "(number_chars(12, {S1}) -> {R} = y({T1}) ; {R} = n)"),
    ("atom_length", "", "atom_length({S1}, {R})"),
    ("char_code", "", "char_code({S1}, {R})"),
    ("read_term", "proper", "read_term_from_chars({S1}, [], {R})"),
    # --- all-solutions, copies, database, exceptions
    ("findall", "", "findall({S1}-{T1}, member(_, [1,2]), {R})"),
    ("bagof", "", "bagof(X, member(X, [{S1},q,{S1}]), {R})"),
    ("throw", "", "catch(throw(b({S1},{T1})), b(X,Y), {R} = X-Y)"),
    ("assert_fetch", "", "assertz({P}({S1},{T1})), {P}(X,Y), {R} = X-Y"),
    ("assert_index", "two", "assertz({P}({S1},1)), assertz({P}(\"zz\",2)), assertz({P}([],3)), assertz({P}(foo,4)), assertz({P}({S1},5)), assertz({P}([q|_],6)), findall(N-{T1}-{T2}, {P}({S2}, N), {R})"),
    ("assert_clause", "", "assertz(({P}(X) :- X = {S1})), clause({P}(Y), B), {R} = B"),
    ("retract", "", "asserta({P}({S1})), asserta({P}(\"q\")), (retract({P}({S1})) -> findall(X, {P}(X), {R}) ; {R} = n)"),
    ("bb", "", "bb_put({P}, {S1}), bb_get({P}, {R})"),
    # --- printing
    ("writeq", "", "write_term_to_chars(g({S1},{T1}), [quoted(true)], Cs), atom_chars({R}, Cs)"),
    ("write_dq", "", "write_term_to_chars(g({S1},{T1}), [quoted(true),double_quotes(true)], Cs), atom_chars({R}, Cs)"),
    ("write_canon", "", "write_term_to_chars(g({S1},{T1}), [quoted(true),ignore_ops(true)], Cs), atom_chars({R}, Cs)"),
    ("write_depth", "", "write_term_to_chars(g({S1},{T1}), [max_depth(3)], Cs), atom_chars({R}, Cs)"),
    ("format", "", "phrase(format_(\"~w|~q|~a\", [{S1},{S1},x]), Cs), atom_chars({R}, Cs)"),
    ("format_s", "", "phrase(format_(\"<~s>\", [{S1}]), Cs), atom_chars({R}, Cs)"),
    # --- strings as such
    ("partial_string1", "", "(partial_string({S1}) -> {R} = y ; {R} = n)"),
    ("partial_string_tail", "", "partial_string_tail({S1}, {R})"),
    ("partial_string3", "proper", "partial_string({S1}, X, Y), {R} = X-Y"),
]


def subst(tpl, d):
    out = tpl
    for k, v in d.items():
        out = out.replace("{" + k + "}", v)
    return out


TAILS = ["[]", "[]", "[]", "[]", "VAR", "VAR", "VAR", "foo", "7", "g(Zt)"]


def gen_item(rng, n, opsel=None):
    name, flags, tpl = rng.choice(OPS) if opsel is None else opsel
    fl = set(flags.split())
    if "short" in fl:
        cs1 = gen_chars(rng, rng.choice([0, 1, 2, 3, 4]))
    elif name in ("number_chars", "number_chars_chk", "is", "read_term") and rng.random() < 0.7:
        cs1 = list(rng.choice(["12", "0", "1", "12.5", "0'a", "- 1", "0x1F", "1e10", "1.0e3", " 12", "foo(X,Y). ", "a", "9"]))
    else:
        cs1 = gen_chars(rng)
    t1 = rng.choice(TAILS)
    if "proper" in fl and t1 == "VAR":
        t1 = "[]"
    cs2 = t2 = None
    if "two" in fl:
        cs2 = near(rng, cs1)
        t2 = rng.choice(TAILS)
        if "proper" in fl and t2 == "VAR":
            t2 = "[]"
    item = {"id": "i%d" % n, "op": name, "cs1": cs1, "t1": t1, "cs2": cs2, "t2": t2}
    if t1 == "VAR":
        item["t1"] = "T1"
    if t2 == "VAR":
        if "same" in fl or ("dist" not in fl and rng.random() < 0.3):
            item["t2"] = "T1" if t1 == "VAR" else "T2"
        else:
            item["t2"] = "T2"
    return item


def op_by_name(name):
    for o in OPS:
        if o[0] == name:
            return o
    raise KeyError(name)


def render_variant(item, vid, rec1, rec2, seed):
    """-> (extra consult lines, query text)"""
    import random
    rng = random.Random(seed)
    if item["op"] == "ans":
        # the library API's answer conversion (Term::from_heapcell): no findall around it
        fr = Fresh(vid)
        extra = []
        g = build(rec1, item["cs1"], item["t1"], "S1", fr, rng, vid, extra)
        return [e for e in extra if e], "%s, Ans = S1." % g
    name, flags, tpl = op_by_name(item["op"])
    fr = Fresh(vid)
    extra = []
    goals = [build(rec1, item["cs1"], item["t1"], "S1", fr, rng, vid, extra)]
    if item["cs2"] is not None:
        goals.append(build(rec2, item["cs2"], item["t2"], "S2", fr, rng, vid, extra))
    if rng.random() < 0.5:
        goals.reverse()
    op = subst(tpl, {"S1": "S1", "S2": "S2", "T1": item["t1"], "T2": item["t2"] or "[]", "R": "R",
                     "P": "c20d_%s" % vid})
    body = ", ".join(goals + [op, "obs_c20(R, Obs_)"])
    q = "findall(Obs_, catch((%s), error(Err_,_), obs_c20(err(Err_), Obs_)), As)." % body
    progs = [e for e in extra if e]
    return progs, q


def make_case(item, variants):
    """variants: list of (vid, rec1, rec2, seed)"""
    lines = ["Q\t%s_u\t1\t%s" % (item["id"], USE), "L\t%s_h\tuser\t%s" % (item["id"], hesc(HELPER))]
    vs = []
    for (vid, r1, r2, seed) in variants:
        progs, q = render_variant(item, vid, r1, r2, seed)
        for j, p in enumerate(progs):
            lines.append("L\t%s_p%d\tuser\t%s" % (vid, j, hesc(p)))
        lines.append("Q\t%s\t2\t%s" % (vid, hesc(q)))
        vs.append({"vid": vid, "r1": r1, "r2": r2, "seed": seed, "q": q, "progs": progs})
    return {"id": item["id"], "item": item, "variants": vs, "impl": lines}


def gen_ans_item(rng):
    cs = gen_chars(rng, rng.choice([1, 2, 3, 7, 8, 9]), nul_ok=True)
    t = rng.choice(["[]", "[]", "[]", "foo", "7"])
    return {"id": "", "op": "ans", "cs1": cs, "t1": t, "cs2": None, "t2": None}


def gen_cases(rng, count, nvar, prefix="g"):
    cases = []
    for n in range(count):
        item = gen_ans_item(rng) if rng.random() < 0.04 else gen_item(rng, n)
        item["id"] = "%s%d" % (prefix, n)
        variants = [("%s_v0" % item["id"], REF, REF, rng.randrange(1 << 30))]
        for k in range(nvar):
            variants.append(("%s_v%d" % (item["id"], k + 1), pick_recipe(rng), pick_recipe(rng), rng.randrange(1 << 30)))
        cases.append(make_case(item, variants))
    return cases


# ------------------------------------------------------------------ mechanism-level tie with the model
# A representation is chosen FIRST (list of pieces), rendered both as Prolog text and as the token
# encoding of drv_C20; the model's result (proved equal to the list operation on `denote`) is the
# expected observation.

MCHARS = list("abcxy01") + ["é", "è", "€", "ࠀ", "\U00010000", "\U0001F600", "ÿ"]


def gen_rep(rng, cs, tail):
    """pieces for the character list cs: ('L', c) | ('S', chars, k) ; tail token N / V<n> / O1"""
    pieces = []
    i = 0
    while i < len(cs):
        r = rng.random()
        if r < 0.35:
            pieces.append(("L", cs[i]))
            i += 1
        else:
            n = rng.choice([1, 1, 2, 3, 5, 7, 8, 9, 16])
            seg = cs[i:i + n]
            k = rng.choice([0, 0, 0, 1, 2, 3, 7, 8]) if rng.random() < 0.5 else 0
            junk = [rng.choice(MCHARS) for _ in range(k)]
            pieces.append(("S", junk + seg, k))
            i += len(seg)
    return {"pieces": pieces, "tail": tail}


def rep_tokens(rep):
    out = []
    for p in rep["pieces"]:
        if p[0] == "L":
            out.append("L%d" % ord(p[1]))
        else:
            out.append("S%d:%s" % (p[2], ".".join(str(ord(c)) for c in p[1])))
    out.append(rep["tail"])
    return " ".join(out)


def tail_text(tok):
    return {"N": "[]", "O1": "foo"}.get(tok, "T" + tok[1:])


def rep_goal(rep, V, pfx):
    """Prolog goal building exactly this representation in V"""
    goals = []
    cur = V
    n = len(rep["pieces"])
    for i, p in enumerate(rep["pieces"]):
        nxt = tail_text(rep["tail"]) if i == n - 1 else "%sN%d" % (pfx, i)
        if p[0] == "L":
            h = "%sH%d" % (pfx, i)
            goals.append("%s = [%s|%s], %s = (%s)" % (cur, h, nxt, h, atom_txt(p[1])))
        else:
            chars, k = p[1], p[2]
            if k == 0:
                goals.append("%s = %s" % (cur, lit_list(chars, nxt)))
            else:
                v0 = "%sP%d" % (pfx, i)
                goals.append("%s = %s, %s = [%s|%s]" % (v0, lit_list(chars, nxt), v0, ",".join("_" for _ in range(k)), cur))
        cur = nxt
    if n == 0:
        goals.append("%s = %s" % (V, tail_text(rep["tail"])))
    return ", ".join(goals)


def lis_text(codes, tail_tok, pfx):
    """explicit Lis list text for codes with tail; returns (goal, var)"""
    cs = [chr(int(x)) for x in codes.split(".")] if codes != "-" else []
    v = pfx + "E"
    if not cs:
        return "%s = %s" % (v, tail_text(tail_tok)), v
    hs = ["%sC%d" % (pfx, i) for i in range(len(cs))]
    return "%s = [%s|%s], %s" % (v, ",".join(hs), tail_text(tail_tok),
                                 ", ".join("%s = (%s)" % (h, atom_txt(c)) for h, c in zip(hs, cs))), v


TAIL_ORDER = {"V": 0, "N": 1, "O": 2}


def gen_mech(rng, n, prefix="m"):
    items = []
    for i in range(n):
        kind = rng.choice(["UNI", "UNI", "CMP", "CMP", "DEC", "DEN", "SEG"])
        cs1 = [rng.choice(MCHARS) for _ in range(rng.choice([0, 1, 2, 3, 5, 7, 8, 9, 15, 16, 17]))]
        it = {"id": "%s%d" % (prefix, i), "kind": kind}
        if kind == "SEG":
            if not cs1:
                cs1 = ["a"]
            it["cell"] = rng.choice([0, 1, 2, 5])
            it["cs"] = cs1
            it["model"] = ["SEG\t%s\t%d\t%s" % (it["id"], it["cell"], ".".join(str(ord(c)) for c in cs1))]
        else:
            t1 = rng.choice(["N", "N", "V1", "V1", "O1"])
            it["r1"] = gen_rep(rng, cs1, t1)
            if kind in ("UNI", "CMP"):
                cs2 = near(rng, cs1)
                cs2 = [c if c != NUL and not ctrl(c) else "a" for c in cs2]
                if kind == "CMP":
                    t2 = rng.choice(["N", "O1", t1])
                else:
                    t2 = rng.choice(["N", "V2", "V2", "O1"])
                it["r2"] = gen_rep(rng, cs2, t2)
                it["model"] = ["%s\t%s\t%s\t%s" % (kind, it["id"], rep_tokens(it["r1"]), rep_tokens(it["r2"]))]
            else:
                it["model"] = ["%s\t%s\t%s" % (kind, it["id"], rep_tokens(it["r1"]))]
        items.append(it)
    return items


def mech_query(it, m):
    """the implementation line(s) for a mechanism item given the model's answer m; -> (line, expected)"""
    k = it["kind"]
    if k == "SEG":
        hexs = "".join("%02x" % b for b in "".join(it["cs"]).encode())
        line = "HS\t%s\t64\tpush %d;pstr %s;step 0;read 0" % (it["id"], it["cell"], hexs)
        return line, None
    g1 = rep_goal(it["r1"], "S1", "A")
    if k == "UNI":
        g2 = rep_goal(it["r2"], "S2", "B")
        w = m.split()
        if w[0] == "fail":
            chk = "true"
        elif len(w) == 1:
            chk = "true"
        else:
            eg, ev = lis_text(w[2], w[3], "X")
            chk = "%s, T%s == %s" % (eg, w[1], ev)
        q = "findall(R, (%s, %s, (S1 = S2 -> (S1 == S2, %s -> R = ok ; R = wrong) ; R = n)), As)." % (g1, g2, chk)
        return "Q\t%s\t2\t%s" % (it["id"], hesc(q)), ("{As=\"n\"}" if w[0] == "fail" else "{As=['ok']}")
    if k == "CMP":
        g2 = rep_goal(it["r2"], "S2", "B")
        q = "findall(O, (%s, %s, compare(O, S1, S2)), As)." % (g1, g2)
        w = m.split()
        if w[0] == "lt":
            e = "<"
        elif w[0] == "gt":
            e = ">"
        elif w[0] == "endL":
            e = "<"
        elif w[0] == "endR":
            e = ">"
        else:
            a, b = w[1], w[2]
            e = "=" if a == b else ("<" if TAIL_ORDER[a[0]] < TAIL_ORDER[b[0]] else ">")
        return "Q\t%s\t2\t%s" % (it["id"], hesc(q)), "{As=\"%s\"}" % e
    if k == "DEC":
        w = m.split()
        if w[0] == "none":
            q = "findall(R, (%s, (S1 = [_|_] -> R = wrong ; R = ok)), As)." % g1
            if it["r1"]["tail"].startswith("V"):
                return None, None
        else:
            eg, ev = lis_text(w[1], w[2], "X")
            q = "findall(R, (%s, %s, (S1 = [H|T], H == (%s), T == %s -> R = ok ; R = wrong)), As)." % (
                g1, eg, atom_txt(chr(int(w[0]))), ev)
        return "Q\t%s\t2\t%s" % (it["id"], hesc(q)), "{As=['ok']}"
    if k == "DEN":
        w = m.split()
        eg, ev = lis_text(w[0], w[1], "X")
        q = "findall(R, (%s, %s, copy_term(S1, C), (S1 == %s, C = %s, %s == C -> R = ok ; R = wrong)), As)." % (g1, eg, ev, ev, ev)
        return "Q\t%s\t2\t%s" % (it["id"], hesc(q)), "{As=['ok']}"
    return None, None


def seg_expected(it, m):
    """HS result expected from the model's SEG answer"""
    left = m.split("|")[0].split()
    codes, tail = left[0], left[1]
    hexs = "".join("%02x" % b for b in "".join(chr(int(x)) for x in codes.split(".")).encode())
    return "P%d" % (8 * it["cell"]), "%s%s:end" % (hexs, tail)


def classify(item, ref, r, v):
    """stable signature of the defect class a difference belongs to (None = unclassified)"""
    cs = item["cs1"] + (item["cs2"] or [])
    if "not a char boundary" in r or "not a char boundary" in ref:
        return "C20-2"
    if item["op"] == "ans":
        return "C20-1"
    if item["op"] == "partial_string_tail":
        return "C20-4"
    if item["op"] == "write_depth":
        return "C20-5"
    if NUL in cs and item["op"] in ("assert_index", "retract"):
        return "C20-3"
    if "\x80" in cs and item["op"] in ("format", "format_s", "writeq", "write_dq", "write_canon"):
        return "C20-6"
    return None


def rec_name(r):
    return r["k"] + ":" + "+".join(r["kinds"])


def has_kind(item):
    cs = (item["cs1"] or []) + (item["cs2"] or [])
    k = []
    if NUL in cs:
        k.append("nul")
    if any(len(c.encode()) > 1 for c in cs):
        k.append("multibyte")
    return k


def run(ctx):
    rng, tier = ctx["rng"], ctx["tier"]
    rep = diff.replay_case(ctx)
    if rep is not None:
        cases = []
        for c in rep:
            if "item" in c:
                cases.append(make_case(c["item"], [(v["vid"], v["r1"], v["r2"], v["seed"]) for v in c["variants"]]))
    else:
        cases = []
        for c in diff.load_corpus("C20"):
            if "item" in c:
                cases.append(make_case(c["item"], [(v["vid"], v["r1"], v["r2"], v["seed"]) for v in c["variants"]]))
        if tier == "quick":
            cases += gen_cases(rng, 1200, 4)
        else:
            cases += gen_cases(rng, 6000, 6)
    t0 = time.time()
    impl, _ = diff.run_cases([{"id": c["id"], "impl": c["impl"]} for c in cases], impl_env=IMPL_ENV)
    # second pass: variants that lost their machine (a panic earlier in the case discards it), or hit
    # the watchdog under load, are run again alone
    retry = []
    for c in cases:
        for v in c["variants"]:
            r = impl.get(v["vid"], "missing")
            if transient(r) or lost_helper(r):
                retry.append((c, v))
    if retry:
        rc = []
        for c, v in retry[:4000]:
            rc.append(make_case(c["item"], [(v["vid"], v["r1"], v["r2"], v["seed"])]))
        impl2, _ = diff.run_cases([{"id": "r" + x["id"], "impl": x["impl"]} for x in rc], impl_env=IMPL_ENV,
                                  parallel=len(rc) > 40)
        for (c, v) in retry[:4000]:
            impl[v["vid"]] = impl2.get(v["vid"], "missing")
    core.log("[C20] differential run: %d items, %.1fs, %d variants retried" % (len(cases), time.time() - t0, len(retry)))

    findings, agree, total = [], 0, 0
    both_timeout = 0
    distinct = set()
    per_op, per_rec, kinds, classes = {}, {}, {}, {}
    seen_sig = set()
    for c in cases:
        item = c["item"]
        post = ans_part if item["op"] == "ans" else (lambda x: x)
        ref = post(norm(impl.get(c["variants"][0]["vid"], "missing")))
        per_op[item["op"]] = per_op.get(item["op"], 0) + 1
        for k in has_kind(item):
            kinds[k] = kinds.get(k, 0) + 1
        for v in c["variants"][1:]:
            total += 1
            r = post(norm(impl.get(v["vid"], "missing")))
            rn = rec_name(v["r1"]) + ("/" + rec_name(v["r2"]) if item["cs2"] is not None else "")
            per_rec[v["r1"]["k"]] = per_rec.get(v["r1"]["k"], 0) + 1
            if len(item["cs1"]) > 0:
                distinct.add((item["op"], "".join(item["cs1"]), item["t1"], "".join(item["cs2"] or []), item["t2"], rn))
            if rep is not None:
                print("replay %s\n  ref     = %s\n  variant = %s  [%s]\n  goal: %s" % (item["op"], ref, r, rn, v["q"]))
            if r == ref and not transient(r) and not r.startswith("panic"):
                agree += 1
                continue
            if r == ref and r.startswith("timeout"):
                # the goal does not terminate for the explicit list either (after the retry):
                # not an observation that distinguishes the representations
                both_timeout += 1
                continue
            kind = "panic" if (r.startswith("panic") or ref.startswith("panic")) else \
                   "abort" if (r.startswith("abort") or ref.startswith("abort")) else "differ"
            cls = classify(item, ref, r, v)
            if cls:
                classes[cls] = classes.get(cls, 0) + 1
                sig = {"defect": cls}
            else:
                sig = {"op": item["op"], "kind": kind, "r1": v["r1"]["k"], "nul": str(NUL in (item["cs1"] + (item["cs2"] or [])))}
            key = json.dumps(sig, sort_keys=True)
            if key in seen_sig and (cls or len(findings) > 40):
                continue
            seen_sig.add(key)
            one = {"id": c["id"], "item": item, "variants": [
                {k: c["variants"][0][k] for k in ("vid", "r1", "r2", "seed")},
                {k: v[k] for k in ("vid", "r1", "r2", "seed")}]}
            findings.append(core.Finding(
                "violation", sig,
                "string and explicit list are distinguishable under %s: reference (list cells) gives %s, variant [%s] gives %s; goals: REF %s | VAR %s"
                % (item["op"], ref[:300], rn, r[:300], c["variants"][0]["q"][:600], v["q"][:600]),
                one))

    # ---- mechanism-level tie with the model
    if rep is None:
        mitems = gen_mech(rng, 800 if tier == "quick" else 6000)
    else:
        mitems = [c["mech"] for c in rep if "mech" in c]
        for c in diff.load_corpus("C20") if False else []:
            pass
    model = core.run_model([l for it in mitems for l in it["model"]], "C20") if mitems else {}
    mcases, mexp = [], {}
    for it in mitems:
        m = model.get(it["id"], "missing")
        line, e = mech_query(it, m)
        if line:
            mcases.append({"id": it["id"], "impl": ["Q\t%s_u\t1\t%s" % (it["id"], USE), line]})
            mexp[it["id"]] = (it, m, e)
    mres, _ = diff.run_cases(mcases, impl_env=IMPL_ENV) if mcases else ({}, {})
    flaky = [k for k in mexp if transient(mres.get(k, "missing"))]
    if flaky:
        m2, _ = diff.run_cases([c for c in mcases if c["id"] in set(flaky)], impl_env=IMPL_ENV, parallel=False)
        mres.update(m2)
    mech_kinds, mech_out, mech_agree = {}, {}, 0
    for k, (it, m, e) in mexp.items():
        r = mres.get(k, "missing")
        mech_kinds[it["kind"]] = mech_kinds.get(it["kind"], 0) + 1
        mech_out[m.split()[0] if it["kind"] in ("UNI", "CMP") else it["kind"]] = mech_out.get(m.split()[0] if it["kind"] in ("UNI", "CMP") else it["kind"], 0) + 1
        if it["kind"] == "SEG":
            pc, tl = seg_expected(it, m)
            ok = (("," + pc + " ") in r + " " or r.split(" ")[1].endswith(pc)) and r.count(tl) == 2
        else:
            ok = (r == e)
        if rep is not None:
            print("replay mech %s\n  model = %s\n  expected = %s\n  impl = %s" % (it["kind"], m, e, r))
        total += 1
        if ok:
            mech_agree += 1
            agree += 1
            continue
        sig = {"mech": it["kind"], "model": m.split()[0]}
        key = json.dumps(sig, sort_keys=True)
        if key in seen_sig:
            continue
        seen_sig.add(key)
        findings.append(core.Finding(
            "violation" if it["kind"] != "SEG" else "disagreement", sig,
            "mechanism %s: model (= list operation on the denoted lists) says %s, expected observation %s, implementation gives %s; line: %s"
            % (it["kind"], m, e, r[:300], [l for c in mcases if c["id"] == k for l in c["impl"]][-1][:900]),
            {"id": k, "mech": it}))
    samples = [{"op": c["item"]["op"], "goal": c["variants"][1]["q"], "result": impl.get(c["variants"][1]["vid"])}
               for c in cases[:3] if len(c["variants"]) > 1]
    return {
        "evaluations": sum(len(c["variants"]) for c in cases) + len(mexp),
        "distinct_nontrivial": len(distinct),
        "rule": "item = (operation, char list(s) with length biased to 0-3,7-9,15-17,23-25,31-33 bytes/chars, ASCII / multi-byte / NUL / quoting-sensitive chars, tail nil/var/atom/int/compound; second list equal / one char changed (preferring a char with the same UTF-8 lead byte) / prefix / extension); distinct = distinct (operation, lists, tails, recipe combination); non-trivial = non-empty first list",
        "samples": samples,
        "traces_validated_against_impl": agree,
        "disagreements_checked": total - agree,
        "retried": len(retry),
        "per_operation": per_op,
        "per_recipe": per_rec,
        "mechanism_items": mech_kinds,
        "mechanism_model_outcomes": mech_out,
        "mechanism_agree": mech_agree,
        "known_defect_class_instances": classes,
        "both_sides_timeout": both_timeout,
        "content_kinds": kinds,
        "findings": findings,
    }
