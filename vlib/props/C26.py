"""C26 — dif/2, freeze/2 and when/2 are insensitive to posting order.

One abstract *case* = a multiset of postings (a script) over the variables X,Y,Z (main) and P,Q
(leaf) and a small term universe:
    u(S,T)            S = T                  (binding, aliasing X=Y, partial structure, f(X,Y)=f(a,b))
    d(S,T)            dif(S,T)
    w(Cond,Id,Body)   when(Cond, G) / freeze(V, G)   where G = (log Id, Body…), Body = u/d postings
EVERY permutation of a script of <= 5 postings (random permutations of longer ones) is run
  * on the implementation: one query per permutation
        findall(R, (retractall(lg26(_)), <postings>, copy_term(Vars, C, Gs),
                    findall(K, lg26(K), Ks), R = r(C, Gs, Ks)), L)
    (C: the bindings, Gs: the residual goals from the attribute_goals//1 of dif/freeze/when,
    Ks: the side-channel log written by the woken goals), and
  * on the Lean model (`drv_C26 run`, Model/Coroutine.lean `run`).
Outcomes are canonicalised (variables renamed by first occurrence in the bindings; each residual
dif replaced by the canonical solved form of its unifier, i.e. compared up to logical equivalence;
suspended goals as (condition, id) sorted; log sorted).

Judge (the property's own oracle first):
  1. all permutations must give the same canonical outcome on the implementation (success/failure,
     bindings, residual constraints, log as a multiset)                      -> violation otherwise
  2. no goal may appear twice in the log (runs exactly once)               -> violation otherwise
  3. every permutation must agree with the model (for which Props/C26.lean proves 1 and 2):
     success/failure and log differences are violations (the statement fixes them), differences
     in bindings/residual goals only are reported as disagreements.
"""
import itertools
import re

from .. import core, diff

LEVEL = "proof"
TRUSTED_BASE = [
    "Model.Coroutine is a specification-level store (substitution + pending dif/2 + suspended goals); src/lib/dif.pl, freeze.pl, when.pl, atts.pl and the verify_attributes wake-up of attributed_variables.{rs,pl} are tied to it only by this correspondence run",
    "vlib/props/C26.py renders one abstract script both as Prolog text and as the term list read by drv_C26, parses the canonical answers, and canonicalises outcomes (renaming of variables, solved form of residual dif/2 goals via a small Python unifier, flattening of frozen conjunctions)",
    "woken goals are observed through assertz/1 of a log fact (side channel) and residual constraints through copy_term/3",
]
ASSUMPTIONS = [
    "finite terms: scripts are generated so that no unification can create a cyclic term (compound terms contain only the leaf variables P,Q, which are only ever bound to atoms or to each other)",
    "goal bodies contain unifications and dif/2 posts only (no nested freeze/when)",
    "when/2 conditions: nonvar/1, ground/1, (,)/2, (;)/2 (the pinned when.pl rejects ?=/2 with a domain_error; checked once per run)",
    "the order of the log is not compared (multiset), only multiplicities",
]

IMPL_ENV = {"SV_TIMEOUT_MS": "60000"}
MAIN = ["X", "Y", "Z"]
LEAF = ["P", "Q"]
VARS = MAIN + LEAF
ATOMS = ["a", "b"]

# ------------------------------------------------------------------ terms: ('v',n) ('a',n) ('s',f,[args])


def V(n):
    return ('v', n)


def A(n):
    return ('a', n)


def S(f, *args):
    return ('s', f, list(args))


def q_atom(a):
    return "'" + a.replace("\\", "\\\\").replace("'", "\\'") + "'"


def canon(t):
    """tree -> canonical text understood by Drv/TermIO.parseTermStr."""
    k = t[0]
    if k == 'v':
        return t[1]
    if k == 'i':
        return str(t[1])
    if k == 'a':
        return "[]" if t[1] == '[]' else q_atom(t[1])
    return "%s(%s)" % (q_atom(t[1]), ",".join(canon(a) for a in t[2]))


def canon_list(ts):
    return "[" + ",".join(ts) + "]"


def pl(t):
    """tree -> Prolog text."""
    k = t[0]
    if k == 'v':
        return t[1]
    if k == 'i':
        return str(t[1])
    if k == 'a':
        return t[1]
    return "%s(%s)" % (t[1], ",".join(pl(a) for a in t[2]))


# ------------------------------------------------------------------ canonical answer parser

class P_:
    def __init__(self, s):
        self.s, self.i = s, 0

    def peek(self):
        return self.s[self.i] if self.i < len(self.s) else ""

    def quoted(self, q):
        self.i += 1
        out = []
        while True:
            c = self.s[self.i]
            if c == "\\":
                d = self.s[self.i + 1]
                if d == "x":
                    j = self.s.index("\\", self.i + 2)
                    out.append(chr(int(self.s[self.i + 2:j], 16)))
                    self.i = j + 1
                else:
                    out.append(d)
                    self.i += 2
            elif c == q:
                self.i += 1
                return "".join(out)
            else:
                out.append(c)
                self.i += 1

    def args(self, close):
        out = []
        while True:
            out.append(self.term())
            c = self.s[self.i]
            self.i += 1
            if c == close:
                return out
            assert c == ",", (self.s, self.i)

    def term(self):
        c = self.peek()
        if c == "'":
            name = self.quoted("'")
            if self.peek() == "(":
                self.i += 1
                return ('s', name, self.args(")"))
            return ('a', name)
        if c == '"':
            tl = A('[]')
            for ch in reversed(self.quoted('"')):
                tl = S('.', A(ch), tl)
            return tl
        if c == "[":
            self.i += 1
            if self.peek() == "]":
                self.i += 1
                return A('[]')
            tl = A('[]')
            for e in reversed(self.args("]")):
                tl = S('.', e, tl)
            return tl
        m = re.compile(r"-?\d+").match(self.s, self.i)
        if m:
            self.i = m.end()
            return ('i', int(m.group(0)))
        m = re.compile(r"[A-Za-z_][A-Za-z0-9_]*").match(self.s, self.i)
        if m:
            self.i = m.end()
            return V(m.group(0))
        raise ValueError("cannot parse %r at %d" % (self.s, self.i))


def parse_canon(s):
    p = P_(s)
    t = p.term()
    if p.i != len(s):
        raise ValueError("trailing text in %r at %d" % (s, p.i))
    return t


def list_elems(t):
    out = []
    while t[0] == 's' and t[1] == '.' and len(t[2]) == 2:
        out.append(t[2][0])
        t = t[2][1]
    if t != A('[]'):
        raise ValueError("not a list")
    return out


# ------------------------------------------------------------------ small unifier (canonicalisation only)

def walk(t, b):
    while t[0] == 'v' and t[1] in b:
        t = b[t[1]]
    return t


def resolve(t, b):
    t = walk(t, b)
    if t[0] == 's':
        return ('s', t[1], [resolve(a, b) for a in t[2]])
    return t


def occurs(v, t, b):
    t = walk(t, b)
    if t[0] == 'v':
        return t[1] == v
    if t[0] == 's':
        return any(occurs(v, a, b) for a in t[2])
    return False


def unify(s, t, b):
    """returns extended binding dict or None; var-var: the later name (string order) is bound."""
    st = [(s, t)]
    b = dict(b)
    while st:
        x, y = st.pop()
        x, y = walk(x, b), walk(y, b)
        if x == y:
            continue
        if x[0] == 'v' and y[0] == 'v':
            hi, lo = (x, y) if x[1] > y[1] else (y, x)
            b[hi[1]] = lo
        elif x[0] == 'v':
            if occurs(x[1], y, b):
                return None
            b[x[1]] = y
        elif y[0] == 'v':
            if occurs(y[1], x, b):
                return None
            b[y[1]] = x
        elif x[0] == 's' and y[0] == 's' and x[1] == y[1] and len(x[2]) == len(y[2]):
            st.extend(zip(x[2], y[2]))
        else:
            return None
    return b


def rename(t, m):
    if t[0] == 'v':
        if t[1] not in m:
            m[t[1]] = "V%02d" % len(m)
        return V(m[t[1]])
    if t[0] == 's':
        return ('s', t[1], [rename(a, m) for a in t[2]])
    return t


def dif_nf(s, t):
    """canonical solved form of the unifier of s and t (variables already canonical):
    'id' identical, None not unifiable, else a sorted tuple of (var, term text)."""
    b = unify(s, t, {})
    if b is None:
        return None
    if not b:
        return 'id'
    return tuple(sorted((v, canon(resolve(V(v), b))) for v in b))


# ------------------------------------------------------------------ outcomes

LOG_RX = re.compile(r"'lg26'\((\d+)\)")


def cond_of_impl(t):
    if t[0] == 's' and t[1] == ',' and len(t[2]) == 2:
        return S('and', cond_of_impl(t[2][0]), cond_of_impl(t[2][1]))
    if t[0] == 's' and t[1] == ';' and len(t[2]) == 2:
        return S('or', cond_of_impl(t[2][0]), cond_of_impl(t[2][1]))
    return t


def canon_outcome(binds, difs, susps, log):
    """binds: list of terms; difs: list of (s,t); susps: list of (cond term, id); log: list of int."""
    m = {}
    bs = [rename(t, m) for t in binds]
    ds = [(rename(s, m), rename(t, m)) for s, t in difs]
    us = [unify(s, t, {}) for s, t in ds]
    dn = set()
    for i, (s, t) in enumerate(ds):
        # the conjunction of the residual dif/2 goals up to logical equivalence: a dif that is
        # entailed by another one (its unifier solves the other's equation) is redundant
        # (dif.pl itself drops a dif/2 that is entailed by the dif/2 goals already in the store)
        if us[i] is not None and us[i]:
            red = False
            for j, (s2, t2) in enumerate(ds):
                if j == i or us[j] is None or not us[j]:
                    continue
                if resolve(s2, us[i]) == resolve(t2, us[i]):
                    # j entails i; drop i unless they are equivalent and i comes first
                    equiv = resolve(s, us[j]) == resolve(t, us[j])
                    if not equiv or j < i:
                        red = True
                        break
            if red:
                continue
        dn.add(dif_nf(s, t))
    sn = sorted((canon(rename(c, m)), i) for c, i in susps)
    return ("ok", tuple(canon(t) for t in bs), tuple(sorted(dn, key=repr)), tuple(sn), tuple(sorted(log)))


def parse_model(res):
    if res is None:
        return ("missing",)
    if res == "fail":
        return ("fail",)
    if not res.startswith("ok "):
        return ("bad", res)
    t = parse_canon(res[3:])
    binds, difs, susps, log = t[2]
    return canon_outcome(list_elems(binds),
                         [(d[2][0], d[2][1]) for d in list_elems(difs)],
                         [(w[2][0], w[2][1][1]) for w in list_elems(susps)],
                         [k[1] for k in list_elems(log)])


def parse_impl(res):
    if res is None:
        return ("missing",)
    if res == "{L=[]}":
        return ("fail",)
    if not (res.startswith("{L=[") and res.endswith("]}")):
        return ("bad", res)
    try:
        t = parse_canon(res[3:-1])
        rs = list_elems(t)
        if len(rs) != 1:
            return ("bad", res)
        binds, gs, ks = rs[0][2]
        difs, susps = [], []
        for g in list_elems(gs):
            assert g[0] == 's' and g[1] == ':' and len(g[2]) == 2, g
            mod, goal = g[2][0][1], g[2][1]
            if mod == 'dif' and goal[1] == 'dif':
                difs.append((goal[2][0], goal[2][1]))
            elif mod == 'freeze' and goal[1] == 'freeze':
                ids = [int(x) for x in LOG_RX.findall(canon(goal[2][1]))]
                assert ids, g
                for i in ids:
                    susps.append((S('nonvar', goal[2][0]), i))
            elif mod == 'when' and goal[1] == 'when':
                ids = [int(x) for x in LOG_RX.findall(canon(goal[2][1]))]
                assert len(ids) == 1, g
                susps.append((cond_of_impl(goal[2][0]), ids[0]))
            else:
                return ("bad", res)
        return canon_outcome(list_elems(binds), difs, susps, [k[1] for k in list_elems(ks)])
    except (ValueError, AssertionError, IndexError, KeyError, TypeError):
        return ("bad", res)


# ------------------------------------------------------------------ rendering of scripts
# op: ('u', s, t) | ('d', s, t) | ('w', cond, id, [body ops]) | ('fz', var, id, [body ops])
# cond: ('nonvar', t) ('ground', t) ('and', c, c) ('or', c, c)

def cond_pl(c):
    if c[0] in ('nonvar', 'ground'):
        return "%s(%s)" % (c[0], pl(c[1]))
    return "(%s%s%s)" % (cond_pl(c[1]), "," if c[0] == 'and' else ";", cond_pl(c[2]))


def cond_canon(c):
    if c[0] in ('nonvar', 'ground'):
        return "'%s'(%s)" % (c[0], canon(c[1]))
    return "'%s'(%s,%s)" % (c[0], cond_canon(c[1]), cond_canon(c[2]))


def op_pl(o):
    if o[0] == 'u':
        return "%s=%s" % (pl(o[1]), pl(o[2]))
    if o[0] == 'd':
        return "dif(%s,%s)" % (pl(o[1]), pl(o[2]))
    goal = ",".join(["assertz(lg26(%d))" % o[2]] + [op_pl(b) for b in o[3]])
    if o[0] == 'fz':
        return "freeze(%s,(%s))" % (o[1], goal)
    return "when(%s,(%s))" % (cond_pl(o[1]), goal)


def op_canon(o):
    if o[0] == 'u':
        return "'u'(%s,%s)" % (canon(o[1]), canon(o[2]))
    if o[0] == 'd':
        return "'d'(%s,%s)" % (canon(o[1]), canon(o[2]))
    body = canon_list([op_canon(b) for b in o[3]])
    c = ('nonvar', V(o[1])) if o[0] == 'fz' else o[1]
    return "'w'(%s,%d,%s)" % (cond_canon(c), o[2], body)


PRELUDE = "use_module(library(when)),use_module(library(dif)),use_module(library(freeze)),use_module(library(iso_ext))."


def query(ops):
    return ("findall(R0,(retractall(lg26(_)),%s,copy_term([%s],C0,G0),findall(K,lg26(K),K0),R0=r(C0,G0,K0)),L)."
            % (",".join(op_pl(o) for o in ops), ",".join(VARS)))


def make_case(cid, ops, perms, family):
    impl = ["Q\t%s_u\t1\t%s" % (cid, PRELUDE), "L\t%s_l\tuser\t:- dynamic(lg26/1)." % cid]
    model = []
    for k, p in enumerate(perms):
        seq = [ops[i] for i in p]
        impl.append("Q\t%s_p%d\t2\t%s" % (cid, k, query(seq)))
        model.append("run\t%s_p%d\t%s\t%s" % (cid, k, canon_list(VARS), canon_list([op_canon(o) for o in seq])))
    return {"id": cid, "family": family, "ops": ops, "perms": [list(p) for p in perms],
            "prolog": ", ".join(op_pl(o) for o in ops), "impl": impl, "model": model}


# ------------------------------------------------------------------ generator

def gen_leafval(rng):
    return A(rng.choice(ATOMS)) if rng.random() < 0.6 else V(rng.choice(LEAF))


def gen_compound(rng):
    if rng.random() < 0.5:
        return S('g', gen_leafval(rng))
    return S('h', gen_leafval(rng), gen_leafval(rng))


def gen_mainval(rng):
    r = rng.random()
    if r < 0.35:
        return A(rng.choice(ATOMS))
    if r < 0.6:
        return V(rng.choice(MAIN))
    return gen_compound(rng)


def gen_pair(rng):
    """(s,t) such that unifying s and t can never build a cyclic term (see ASSUMPTIONS)."""
    r = rng.random()
    if r < 0.45:
        return V(rng.choice(MAIN)), gen_mainval(rng)
    if r < 0.6:
        return V(rng.choice(LEAF)), gen_leafval(rng)
    if r < 0.7:
        a, b = rng.sample(MAIN, 2)
        return V(a), V(b)
    # f(V1,V2) = f(t1,t2): simultaneous bindings
    ls, rs = [], []
    for _ in range(2):
        if rng.random() < 0.75:
            ls.append(V(rng.choice(MAIN)))
            rs.append(gen_mainval(rng))
        else:
            ls.append(V(rng.choice(LEAF)))
            rs.append(gen_leafval(rng))
    return S('f', *ls), S('f', *rs)


def gen_condterm(rng):
    r = rng.random()
    if r < 0.5:
        return V(rng.choice(VARS))
    a, b = rng.sample(VARS, 2)
    return S('f', V(a), V(b))


def gen_cond(rng, depth=0):
    r = rng.random()
    if depth < 2 and r < 0.3:
        return (rng.choice(['and', 'or']), gen_cond(rng, depth + 1), gen_cond(rng, depth + 1))
    if r < 0.6:
        return ('ground', gen_condterm(rng))
    return ('nonvar', gen_condterm(rng))


def gen_body(rng):
    r = rng.random()
    if r < 0.6:
        return []
    s, t = gen_pair(rng)
    if r < 0.85:
        return [('u', s, t)]
    return [('d', s, t)]


def gen_script(rng, n, family):
    ops = []
    nid = 0
    for _ in range(n):
        r = rng.random()
        if family == "dif":
            kind = 'u' if r < 0.5 else 'd'
        elif family == "susp":
            kind = 'u' if r < 0.5 else ('fz' if r < 0.7 else 'w')
        else:
            kind = 'u' if r < 0.4 else ('d' if r < 0.65 else ('fz' if r < 0.8 else 'w'))
        if kind in ('u', 'd'):
            s, t = gen_pair(rng)
            if rng.random() < 0.3:
                s, t = t, s
            ops.append((kind, s, t))
        elif kind == 'fz':
            nid += 1
            ops.append(('fz', rng.choice(VARS), nid, gen_body(rng)))
        else:
            nid += 1
            ops.append(('w', gen_cond(rng), nid, gen_body(rng)))
    return ops


def directed():
    X, Y, Z, Pv, a, b = V('X'), V('Y'), V('Z'), V('P'), A('a'), A('b')
    f = lambda *xs: S('f', *xs)
    return [
        ("dif", [('d', X, Y), ('u', X, Y)]),
        ("dif", [('d', X, Y), ('u', X, a), ('u', Y, a)]),
        ("dif", [('d', X, Y), ('u', X, a), ('u', Y, b)]),
        ("dif", [('d', f(X, Y), f(a, b)), ('u', X, a), ('u', Y, b)]),
        ("dif", [('d', f(X, Y), f(a, b)), ('u', f(X, Y), f(a, b))]),
        ("dif", [('d', f(X, Y), f(a, b)), ('u', X, b)]),
        ("dif", [('d', X, a), ('d', Y, b), ('u', X, Y)]),
        ("dif", [('d', X, S('g', Pv)), ('u', X, S('g', b)), ('u', Pv, b)]),
        ("dif", [('d', X, Y), ('d', Y, Z), ('u', X, Z), ('u', Z, a)]),
        ("susp", [('fz', 'X', 1, []), ('u', X, a)]),
        ("susp", [('fz', 'X', 1, []), ('fz', 'Y', 2, []), ('u', X, Y), ('u', Y, a)]),
        ("susp", [('fz', 'X', 1, [('u', Y, a)]), ('fz', 'Y', 2, [('u', Z, b)]), ('u', X, b)]),
        ("susp", [('fz', 'X', 1, [('u', Y, a)]), ('u', Y, b), ('u', X, b)]),
        ("susp", [('w', ('ground', f(X, Y)), 1, []), ('u', f(X, Y), f(a, b))]),
        ("susp", [('w', ('ground', f(X, Y)), 1, []), ('u', X, Y), ('u', X, a)]),
        ("susp", [('w', ('or', ('nonvar', X), ('nonvar', Y)), 1, []), ('u', f(X, Y), f(a, b))]),
        ("susp", [('w', ('and', ('nonvar', X), ('ground', Y)), 1, []), ('u', X, S('g', Pv)), ('u', Y, S('g', Pv)), ('u', Pv, a)]),
        ("susp", [('w', ('and', ('ground', Pv), ('ground', X)), 1, []), ('u', X, S('g', Pv)), ('u', Pv, a)]),
        ("mixed", [('fz', 'Z', 1, [('u', f(X, X), f(Z, b))]), ('u', X, S('g', b)), ('d', f(S('g', V('Q')), b), f(Z, V('Q')))]),
        ("mixed", [('fz', 'Y', 1, []), ('d', X, Y), ('u', X, a), ('u', Y, b)]),
        ("mixed", [('fz', 'X', 1, [('d', Y, a)]), ('u', Y, a), ('u', X, b)]),
        ("mixed", [('w', ('ground', f(X, Y)), 1, [('u', Z, a)]), ('d', Z, a), ('u', X, a), ('u', Y, b)]),
    ]


def perms_of(rng, n, limit):
    if n <= 5:
        ps = list(itertools.permutations(range(n)))
        if len(ps) > limit:
            ps = [ps[0]] + rng.sample(ps[1:], limit - 1)
        return ps
    base = list(range(n))
    out = {tuple(base)}
    tries = 0
    while len(out) < limit and tries < 10 * limit:
        q = base[:]
        rng.shuffle(q)
        out.add(tuple(q))
        tries += 1
    return sorted(out)


# ------------------------------------------------------------------ judge

def kinds_in(ops):
    ks = set()
    for o in ops:
        ks.add({'u': 'unify', 'd': 'dif', 'fz': 'freeze', 'w': 'when'}[o[0]])
        if o[0] in ('fz', 'w'):
            for b in o[3]:
                ks.add({'u': 'unify', 'd': 'dif'}[b[0]])
    return ks


def component_diff(a, b):
    """which component of two outcomes differs first."""
    if a[0] != b[0]:
        return "success"
    if a[0] != "ok":
        return "other"
    for name, i in (("bindings", 1), ("residual-dif", 2), ("residual-susp", 3), ("log", 4)):
        if a[i] != b[i]:
            return name
    return "none"


def judge(c, impl, model):
    """returns list of (kind, sig, detail)."""
    ops = c["ops"]
    ids = {o[2]: o[0] for o in ops if o[0] in ('fz', 'w')}
    has_dif = "yes" if 'dif' in kinds_in(ops) else "no"
    n = len(c["perms"])
    I = [parse_impl(impl.get("%s_p%d" % (c["id"], k))) for k in range(n)]
    M = [parse_model(model.get("%s_p%d" % (c["id"], k))) for k in range(n)]
    probs = []

    def text(k):
        return ", ".join(op_pl(ops[i]) for i in c["perms"][k])

    for k in range(n):
        if I[k][0] in ("bad", "missing") or M[k][0] in ("bad", "missing"):
            probs.append(("disagreement", {"class": "unreadable"},
                          "unreadable answer for ?- %s: impl=%r model=%r" % (
                              text(k), impl.get("%s_p%d" % (c["id"], k)), model.get("%s_p%d" % (c["id"], k)))))
            return probs
    # 0. the model itself (theorem C26_confluence): all permutations equal
    for k in range(1, n):
        if M[k] != M[0]:
            probs.append(("disagreement", {"class": "model-not-confluent"},
                          "MODEL differs between ?- %s and ?- %s: %r / %r" % (text(0), text(k), M[0], M[k])))
            break
    # 2. exactly once
    for k in range(n):
        if I[k][0] == "ok":
            dup = sorted({i for i in I[k][4] if I[k][4].count(i) > 1})
            extra = sorted(set(i for i in I[k][4] if I[k][4].count(i) > (M[k][4].count(i) if M[k][0] == "ok" else 1)))
            if dup or extra:
                who = sorted({ids.get(i, '?') for i in (dup or extra)})
                who = "+".join({'fz': 'freeze', 'w': 'when'}.get(w, w) for w in who)
                probs.append(("violation", {"class": "log-extra-run", "component": "log", "goal": who, "dif": has_dif,
                                            "kinds": "+".join(sorted(kinds_in(ops)))},
                              "?- %s.  runs goal(s) %s more often than once / than their condition allows: log %r (model log %r)" % (
                                  text(k), dup or extra, list(I[k][4]), list(M[k][4]) if M[k][0] == "ok" else None)))
                break
    # 1. the oracle: all permutations equal on the implementation
    for k in range(1, n):
        if I[k] != I[0]:
            comp = component_diff(I[0], I[k])
            if comp == "log" and probs:
                break   # already reported as extra run
            probs.append(("violation", {"class": "order-dependent", "component": comp, "dif": has_dif,
                                        "kinds": "+".join(sorted(kinds_in(ops)))},
                          "posting order matters (%s): ?- %s. gives %r but ?- %s. gives %r" % (
                              comp, text(0), I[0], text(k), I[k])))
            break
    # 3. agreement with the model
    if not probs:
        for k in range(n):
            if I[k] != M[k]:
                comp = component_diff(M[k], I[k])
                kind = "violation" if comp in ("success", "log") else "disagreement"
                probs.append((kind, {"class": "differs-from-model", "component": comp, "dif": has_dif,
                                     "kinds": "+".join(sorted(kinds_in(ops)))},
                              "?- %s.  implementation %r, model %r" % (text(k), I[k], M[k])))
                break
    return probs


def transient(r):
    return r is None or r.startswith("timeout") or r.startswith("abort") or r.startswith("skipped") \
        or r.startswith("panic") or "interrupt_thrown" in r or r.startswith("exception") or r.startswith("error")


# ------------------------------------------------------------------ run

def run(ctx):
    rng, tier = ctx["rng"], ctx["tier"]
    rep = diff.replay_case(ctx)
    if rep is not None:
        cases = rep
    else:
        cases = []
        for c in diff.load_corpus("C26"):
            if "ops" in c:
                cases.append(c)
        limit = 120
        for k, (fam, ops) in enumerate(directed()):
            cases.append(make_case("d%d" % k, ops, perms_of(rng, len(ops), limit), fam))
        nrand = 130 if tier == "quick" else 1600
        for k in range(nrand):
            fam = rng.choice(["dif", "susp", "mixed", "mixed"])
            n = rng.choice([2, 3, 3, 4, 4, 4, 5] if tier == "quick" else [2, 3, 3, 4, 4, 4, 5, 5])
            ops = gen_script(rng, n, fam)
            cases.append(make_case("r%d" % k, ops, perms_of(rng, n, 40 if tier == "quick" else 120), fam))
        nlong = 20 if tier == "quick" else 300
        for k in range(nlong):
            n = rng.choice([6, 7, 8])
            ops = gen_script(rng, n, rng.choice(["dif", "susp", "mixed"]))
            cases.append(make_case("l%d" % k, ops, perms_of(rng, n, 24 if tier == "quick" else 60), "long"))
        # ?=/2 is not a when/2 condition of the pinned library (model omits it): checked once
        cases.append({"id": "wc", "family": "whencond", "ops": [], "perms": [],
                      "prolog": "when(?=(X,Y),true)",
                      "impl": ["Q\twc_u\t1\t%s" % PRELUDE,
                               "Q\twc_q\t1\tcatch(when(?=(X,Y),true),error(E,_),true)."], "model": []})
    impl, model = diff.run_cases(cases, impl_env=IMPL_ENV)
    retried = 0
    for c in cases:
        ids = [l.split("\t")[1] for l in c["impl"]]
        if any(transient(impl.get(i)) for i in ids if not i.endswith("_q")):
            retried += 1
            impl.update(core.run_impl(c["impl"], env={"SV_TIMEOUT_MS": "120000"}))
    findings = []
    agree = 0
    evals = 0
    distinct = set()
    fams = {}
    outcomes = {"fail": 0, "ok": 0, "ok-with-residual-dif": 0, "ok-with-suspended": 0, "ok-with-woken": 0}
    sizes = {}
    notes = []
    for c in cases:
        if c["id"] == "wc":
            r = impl.get("wc_q", "")
            if "domain_error" not in r:
                notes.append("when(?=(X,Y),G) is no longer a domain_error: %s — the model has no ?=/2 condition" % r)
            continue
        probs = judge(c, impl, model)
        evals += len(c["perms"])
        fams[c["family"]] = fams.get(c["family"], 0) + 1
        sizes[str(len(c["ops"]))] = sizes.get(str(len(c["ops"])), 0) + 1
        m0 = parse_model(model.get("%s_p0" % c["id"]))
        if m0[0] == "fail":
            outcomes["fail"] += 1
        elif m0[0] == "ok":
            outcomes["ok"] += 1
            if m0[2]:
                outcomes["ok-with-residual-dif"] += 1
            if m0[3]:
                outcomes["ok-with-suspended"] += 1
            if m0[4]:
                outcomes["ok-with-woken"] += 1
        ks = kinds_in(c["ops"])
        if len(c["perms"]) > 1 and 'unify' in ks and len(ks) > 1:
            distinct.add(c["prolog"])
        if rep is not None:
            print("replay ?- %s." % c["prolog"])
            for k in range(len(c["perms"])):
                print("  perm %s" % c["perms"][k])
                print("    model: %s" % model.get("%s_p%d" % (c["id"], k)))
                print("    impl : %s" % impl.get("%s_p%d" % (c["id"], k)))
            for kind, sig, detail in probs:
                print("  PROBLEM %s" % detail)
        if not probs:
            agree += 1
        for kind, sig, detail in probs:
            findings.append(core.Finding(kind, sig, detail, {k: c.get(k) for k in (
                "id", "family", "ops", "perms", "prolog", "impl", "model")}))
    ncases = len(cases) - (0 if rep is not None else 1)
    return {
        "evaluations": evals,
        "distinct_nontrivial": len(distinct),
        "rule": "scripts of 2..8 postings (unification incl. aliasing, partial structures and simultaneous bindings f(X,Y)=f(s,t); dif/2; freeze/2; when/2 with nonvar/ground/and/or conditions; goal bodies that log and post a further unification or dif) over variables X,Y,Z,P,Q; all permutations of scripts of <= 5 postings (capped per tier), random permutations of longer ones; every permutation is one query on the implementation and one run of the model; non-trivial = at least one unification and one constraint, more than one permutation; distinct by script text",
        "samples": [c["prolog"] for c in cases[:3]] + [c["prolog"] for c in cases[-5:-1]],
        "traces_validated_against_impl": agree,
        "disagreements_checked": ncases - agree,
        "scripts": ncases,
        "families": fams,
        "script_sizes": sizes,
        "model_outcomes": outcomes,
        "timeouts_rerun_serially": retried,
        "notes": notes,
        "exhaustive": False,
        "findings": findings,
    }
