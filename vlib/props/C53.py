"""C53 — Graph library (library(ugraphs)) results match graph-theoretic definitions.

One abstract *item* = one library call on small integer-vertex graphs. From an item we produce
  * the Prolog query for the implementation (harness),
  * the token line for the Lean model driver (drv_C53: transcription of ugraphs.pl), and
  * the value of the mathematical definition computed here with Python sets (`ref`).
The theorems in Props/C53.lean say model = definition on every well-formed graph; the run
compares implementation, model and definition exactly (results are canonical: sorted lists).
"""
import itertools
import time

from .. import core, diff

LEVEL = "proof"
TRUSTED_BASE = [
    "vlib/props/C53.py renders one abstract item both as Prolog text and as the token line of drv_C53, and computes the set-theoretic definition (`ref`) independently of the Lean model",
    "Prolog builtins sort/2, keysort/2, compare/3, memberchk/2, append/3 on small integers are modelled by their specification (sortSet, msortNat, <, ∈, ++)",
    "vertices are small non-negative integers: the standard order of terms restricted to them is < on Nat",
]
ASSUMPTIONS = [
    "graphs passed to the library are well-formed S-representations (keys and neighbour lists strictly sorted, every neighbour a vertex), except the vertex/edge LIST arguments of vertices_edges_to_ugraph, add_vertices, del_vertices, add_edges, del_edges, which are arbitrary lists (unsorted, duplicates, mentioning absent vertices) as the library documentation shows",
    "neighbours/reachable of a vertex that is not in the graph: failure or the empty answer are both accepted (not fixed by the statement)",
    "connect_ugraph/3 is not covered (its fresh start vertex is `First-1`, outside the Nat vertex domain of the model)",
]

IMPL_ENV = {"SV_TIMEOUT_MS": "60000"}


def transient(r):
    return r == "missing" or r.startswith("timeout") or r.startswith("abort") or r.startswith("skipped") or r.startswith("panic")


# ------------------------------------------------------------------ graphs as python values
# graph: tuple of (v, tuple(neighbours)) sorted by v


def mk_graph(vs, es):
    vs = sorted(set(vs) | {a for a, _ in es} | {b for _, b in es})
    es = set(es)
    return tuple((v, tuple(sorted(b for a, b in es if a == v))) for v in vs)


def g_vertices(g):
    return [v for v, _ in g]


def g_edges(g):
    return [(v, n) for v, ns in g for n in ns]


def closure_pairs(es):
    """transitive closure (paths of length >= 1) of a set of pairs, naive fixpoint."""
    c = set(es)
    while True:
        new = {(a, d) for a, b in c for b2, d in c if b == b2} - c
        if not new:
            return c
        c |= new


def is_acyclic(g):
    return all(a != b for a, b in closure_pairs(g_edges(g)))


def valid_top_order(g, order):
    vs = g_vertices(g)
    if sorted(order) != vs or len(set(order)) != len(order):
        return False
    pos = {v: i for i, v in enumerate(order)}
    return all(pos[a] < pos[b] for a, b in g_edges(g))


# ------------------------------------------------------------------ rendering

def pl_list(l):
    return "[" + ",".join(str(x) for x in l) + "]"


def pl_graph(g):
    return "[" + ",".join("%d-%s" % (v, pl_list(ns)) for v, ns in g) + "]"


def pl_edges(es):
    return "[" + ",".join("%d-%d" % (a, b) for a, b in es) + "]"


def can_list(l):
    return "[" + ",".join(str(x) for x in l) + "]"


def can_graph(g):
    return "[" + ",".join("'-'(%d,%s)" % (v, can_list(ns)) for v, ns in g) + "]"


def can_edges(es):
    return "[" + ",".join("'-'(%d,%d)" % (a, b) for a, b in es) + "]"


def tk_list(l):
    return " ".join([str(len(l))] + [str(x) for x in l])


def tk_edges(es):
    return " ".join([str(len(es))] + ["%d %d" % (a, b) for a, b in es])


def tk_graph(g):
    return " ".join([str(len(g))] + ["%d %s" % (v, tk_list(ns)) for v, ns in g])


# ------------------------------------------------------------------ items
# item: dict(op=…, g=…, g2=…, vs=[…], es=[(a,b)…], v=int)
# returns (prolog goal with result variable R, [model ops], model args, ref canonical text | None)

def item_parts(it):
    op = it["op"]
    g = it.get("g")
    if op == "vetu":
        vs, es = it["vs"], it["es"]
        return ("vertices_edges_to_ugraph(%s,%s,R)" % (pl_list(vs), pl_edges(es)), ["vetu"],
                tk_list(vs) + " " + tk_edges(es), can_graph(mk_graph(vs, es)))
    if op == "vertices":
        return ("vertices(%s,R)" % pl_graph(g), ["vertices"], tk_graph(g), can_list(g_vertices(g)))
    if op == "edges":
        return ("edges(%s,R)" % pl_graph(g), ["edges"], tk_graph(g), can_edges(g_edges(g)))
    if op == "addv":
        vs = it["vs"]
        return ("add_vertices(%s,%s,R)" % (pl_graph(g), pl_list(vs)), ["addv", "addvfix"],
                tk_graph(g) + " " + tk_list(vs), can_graph(mk_graph(g_vertices(g) + vs, g_edges(g))))
    if op == "delv":
        vs = set(it["vs"])
        keep = [v for v in g_vertices(g) if v not in vs]
        es = [(a, b) for a, b in g_edges(g) if a not in vs and b not in vs]
        return ("del_vertices(%s,%s,R)" % (pl_graph(g), pl_list(it["vs"])), ["delv", "delvfix"],
                tk_graph(g) + " " + tk_list(it["vs"]), can_graph(mk_graph(keep, es)))
    if op == "adde":
        es = it["es"]
        return ("add_edges(%s,%s,R)" % (pl_graph(g), pl_edges(es)), ["adde"],
                tk_graph(g) + " " + tk_edges(es), can_graph(mk_graph(g_vertices(g), g_edges(g) + es)))
    if op == "dele":
        es = it["es"]
        left = [e for e in g_edges(g) if e not in set(es)]
        return ("del_edges(%s,%s,R)" % (pl_graph(g), pl_edges(es)), ["dele"],
                tk_graph(g) + " " + tk_edges(es), can_graph(mk_graph(g_vertices(g), left)))
    if op == "transpose":
        return ("transpose_ugraph(%s,R)" % pl_graph(g), ["transpose"], tk_graph(g),
                can_graph(mk_graph(g_vertices(g), [(b, a) for a, b in g_edges(g)])))
    if op in ("nbrs", "nbrs_us"):
        v = it["v"]
        ref = can_list(dict(g)[v]) if v in dict(g) else None
        name = "neighbours" if op == "nbrs" else "neighbors"
        return ("%s(%d,%s,R)" % (name, v, pl_graph(g)), ["nbrs"], "1 %d %s" % (v, tk_graph(g)), ref)
    if op in ("compose", "union"):
        g2 = it["g2"]
        vs = g_vertices(g) + g_vertices(g2)
        if op == "compose":
            e2 = g_edges(g2)
            es = [(a, d) for a, b in g_edges(g) for c, d in e2 if b == c]
            name = "compose"
        else:
            es = g_edges(g) + g_edges(g2)
            name = "ugraph_union"
        return ("%s(%s,%s,R)" % (name, pl_graph(g), pl_graph(g2)), [op],
                tk_graph(g) + " " + tk_graph(g2), can_graph(mk_graph(vs, es)))
    if op == "complement":
        vs = g_vertices(g)
        have = set(g_edges(g))
        es = [(a, b) for a in vs for b in vs if a != b and (a, b) not in have]
        return ("complement(%s,R)" % pl_graph(g), ["complement"], tk_graph(g), can_graph(mk_graph(vs, es)))
    if op == "closure":
        return ("transitive_closure(%s,R)" % pl_graph(g), ["closure"], tk_graph(g),
                can_graph(mk_graph(g_vertices(g), list(closure_pairs(g_edges(g))))))
    if op == "reachable":
        v = it["v"]
        if v in dict(g):
            c = closure_pairs(g_edges(g))
            ref = can_list(sorted({v} | {b for a, b in c if a == v}))
        else:
            ref = None
        return ("reachable(%d,%s,R)" % (v, pl_graph(g)), ["reachable"], "1 %d %s" % (v, tk_graph(g)), ref)
    if op == "topsort":
        return ("top_sort(%s,R)" % pl_graph(g), ["topsort"], tk_graph(g), None)
    if op == "topsort3":
        # the two list arguments of top_sort/3 are (tail, list) in the code and (list, tail) in the
        # documentation; bind whichever is still unbound to [] and accept either argument order
        return ("top_sort(%s,A,B),(var(A)->A=[],R=B;B=[],R=A)" % pl_graph(g), ["topsort"], tk_graph(g), None)
    raise ValueError(op)


def norm_item(it):
    """item as loaded from JSON (lists) -> item with tuples, derived fields dropped."""
    out = {}
    for k, v in it.items():
        if k in ("g", "g2"):
            out[k] = tuple((p[0], tuple(p[1])) for p in v)
        elif k == "es":
            out[k] = [tuple(e) for e in v]
        elif k in ("op", "vs", "v"):
            out[k] = v
    return out


def make_case(cid, items):
    """one harness line per item; every line loads the library itself (cheap after the first
    time) so that a machine restarted after a timeout/panic cannot cause spurious errors."""
    impl = []
    model = []
    for k, it in enumerate(items):
        goal, mops, margs, ref = item_parts(it)
        lid = "%s_%d" % (cid, k)
        it["id"] = lid
        it["prolog"] = goal + "."
        it["ref"] = ref
        it["mops"] = mops
        impl.append("Q\t%s\t2\tuse_module(library(ugraphs)),%s." % (lid, goal))
        for j, mo in enumerate(mops):
            model.append("%s\t%s_m%d\t%s" % (mo, lid, j, margs))
    return {"id": cid, "items": items, "impl": impl, "model": model}


def impl_value(text):
    """`{R=term}` (possibly with A/B bindings of top_sort/3) -> term; other answers verbatim."""
    t = text.strip()
    if t.startswith("{") and t.endswith("}"):
        body = t[1:-1]
        k = body.rfind("R=")
        if k >= 0 and (k == 0 or body[k - 1] == ","):
            return body[k + 2:]
    return t


def parse_int_list(t):
    t = t.strip()
    if not (t.startswith("[") and t.endswith("]")):
        return None
    inner = t[1:-1]
    if inner == "":
        return []
    try:
        return [int(x) for x in inner.split(",")]
    except ValueError:
        return None


# ------------------------------------------------------------------ generators

def all_graphs_on(vs):
    vs = list(vs)
    pairs = [(a, b) for a in vs for b in vs]
    for mask in range(1 << len(pairs)):
        yield mk_graph(vs, [p for i, p in enumerate(pairs) if mask >> i & 1])


def small_graphs(labels, maxn):
    out = []
    for n in range(0, maxn + 1):
        for vs in itertools.combinations(labels, n):
            out.extend(all_graphs_on(vs))
    return out


def rand_graph(rng, maxn=7, labels=range(0, 10)):
    n = min(maxn, rng.choice([0, 1, 2, 3, 3, 4, 4, 5, 5, 6, 7]))
    vs = sorted(rng.sample(list(labels), n))
    kind = rng.random()
    dens = rng.choice([0.1, 0.2, 0.3, 0.5, 0.8])
    es = []
    if kind < 0.45:      # DAG w.r.t. a random permutation (top_sort succeeds, non-trivial order)
        perm = vs[:]
        rng.shuffle(perm)
        for i in range(n):
            for j in range(i + 1, n):
                if rng.random() < dens:
                    es.append((perm[i], perm[j]))
    else:                # arbitrary digraph with self-loops and cycles
        for a in vs:
            for b in vs:
                if rng.random() < dens * (0.5 if a == b else 1):
                    es.append((a, b))
    return mk_graph(vs, es)


def rand_list(rng, pool, maxlen, dups=True):
    k = rng.randint(0, maxlen)
    l = [rng.choice(pool) for _ in range(k)] if dups else rng.sample(pool, min(k, len(pool)))
    return l


def unary_items(g, probe_vs):
    its = [{"op": o, "g": g} for o in ("vertices", "edges", "transpose", "complement", "closure",
                                       "topsort", "topsort3")]
    for v in probe_vs:
        its.append({"op": "nbrs", "g": g, "v": v})
        its.append({"op": "reachable", "g": g, "v": v})
    if probe_vs:
        its.append({"op": "nbrs_us", "g": g, "v": probe_vs[0]})
    return its


def gen_quick(rng, n_graphs):
    cases = []
    pool = list(range(0, 11))
    for i in range(n_graphs):
        g = rand_graph(rng)
        vs = g_vertices(g)
        its = unary_items(g, vs[:] + [rng.choice(pool)])
        for _ in range(3):
            its.append({"op": "addv", "g": g, "vs": rand_list(rng, pool, 5, dups=rng.random() < 0.3)})
            # vertex lists for deletion: present and absent vertices, below/between/above the keys
            its.append({"op": "delv", "g": g, "vs": rand_list(rng, pool, 5, dups=rng.random() < 0.5)})
            epool = vs + [rng.choice(pool)] if vs else pool
            es = [(rng.choice(epool), rng.choice(epool)) for _ in range(rng.randint(0, 5))]
            its.append({"op": "adde", "g": g, "es": es})
            have = g_edges(g)
            es2 = [rng.choice(have) if have and rng.random() < 0.6 else (rng.choice(pool), rng.choice(pool))
                   for _ in range(rng.randint(0, 5))]
            its.append({"op": "dele", "g": g, "es": es2})
        for _ in range(2):
            g2 = rand_graph(rng)
            its.append({"op": "compose", "g": g, "g2": g2})
            its.append({"op": "union", "g": g, "g2": g2})
        vl = rand_list(rng, pool, 6)
        el = [(rng.choice(pool), rng.choice(pool)) for _ in range(rng.randint(0, 7))]
        its.append({"op": "vetu", "vs": vl, "es": el})
        cases.append(make_case("r%d" % i, its))
    return cases


def gen_exhaustive(rng, maxn, tag):
    """every graph whose vertex set is a subset of {1,2,3} of size <= maxn, every operation;
    list arguments range over all subsets of {0..4} (random order, sometimes with a duplicate)."""
    cases = []
    graphs = small_graphs([1, 2, 3], maxn)
    pool = [0, 1, 2, 3, 4]
    subsets = [list(s) for k in range(0, 6) for s in itertools.combinations(pool, k)]
    epairs = [(a, b) for a in [1, 2, 3, 4] for b in [1, 2, 3, 4]]
    for i, g in enumerate(graphs):
        its = unary_items(g, [0, 1, 2, 3, 4])
        for s in subsets:
            l = s[:]
            rng.shuffle(l)
            its.append({"op": "delv", "g": g, "vs": l})
            its.append({"op": "addv", "g": g, "vs": l})
            if l and rng.random() < 0.25:
                l2 = l + [rng.choice(l)]
                rng.shuffle(l2)
                its.append({"op": "delv", "g": g, "vs": l2})
                its.append({"op": "addv", "g": g, "vs": l2})
        for e in epairs:
            its.append({"op": "adde", "g": g, "es": [e]})
            its.append({"op": "dele", "g": g, "es": [e]})
        for _ in range(6):
            es = [rng.choice(epairs) for _ in range(rng.randint(2, 5))]
            its.append({"op": "adde", "g": g, "es": es})
            its.append({"op": "dele", "g": g, "es": es})
        cases.append(make_case("%s%d" % (tag, i), its))
    return cases, graphs


def gen_pairs(rng, graphs_a, graphs_b, tag, sample=None):
    pairs = [(a, b) for a in graphs_a for b in graphs_b]
    if sample is not None and sample < len(pairs):
        pairs = rng.sample(pairs, sample)
    cases = []
    chunk = 40
    for i in range(0, len(pairs), chunk):
        its = []
        for a, b in pairs[i:i + chunk]:
            its.append({"op": "compose", "g": a, "g2": b})
            its.append({"op": "union", "g": a, "g2": b})
        cases.append(make_case("%s%d" % (tag, i // chunk), its))
    return cases


def gen_vetu_exhaustive(rng, tag):
    cases = []
    pairs = [(a, b) for a in [1, 2, 3] for b in [1, 2, 3]]
    vsubs = [list(s) for k in range(0, 4) for s in itertools.combinations([1, 2, 3], k)]
    its = []
    for mask in range(1 << len(pairs)):
        es = [p for i, p in enumerate(pairs) if mask >> i & 1]
        for vs in vsubs:
            e2 = es[:]
            v2 = vs[:]
            rng.shuffle(e2)
            rng.shuffle(v2)
            if e2 and rng.random() < 0.3:
                e2.append(rng.choice(e2))
            if v2 and rng.random() < 0.3:
                v2.append(rng.choice(v2))
            its.append({"op": "vetu", "vs": v2, "es": e2})
    for i in range(0, len(its), 64):
        cases.append(make_case("%s%d" % (tag, i // 64), its[i:i + 64]))
    return cases


# ------------------------------------------------------------------ judge

DEFECT = {"delv": "del_vertices-keeps-vertex-after-absent-smaller-one",
          "addv": "add_vertices-duplicate-in-list-duplicates-vertex"}
PROLOG_NAME = {"vetu": "vertices_edges_to_ugraph", "addv": "add_vertices", "delv": "del_vertices",
               "adde": "add_edges", "dele": "del_edges", "transpose": "transpose_ugraph",
               "nbrs": "neighbours", "nbrs_us": "neighbors", "union": "ugraph_union",
               "closure": "transitive_closure", "topsort": "top_sort", "topsort3": "top_sort/3"}


def judge_item(it, impl, model):
    """returns (status, finding|None); status in agree / known-shape / violation / disagreement."""
    lid, op, ref = it["id"], it["op"], it["ref"]
    iv = impl_value(impl.get(lid, "missing"))
    mvs = [model.get("%s_m%d" % (lid, j), "missing") for j in range(len(it["mops"]))]
    pname = PROLOG_NAME.get(op, op)
    sig = {"family": "ugraphs", "op": pname}
    mini = lambda: make_case(lid + "x", [norm_item(it)])

    def fnd(kind, extra, detail):
        s = dict(sig)
        s.update(extra)
        c = mini()
        c["expected"] = ref
        c["observed"] = iv
        c["model_out"] = mvs
        return core.Finding(kind, s, detail, c)

    if op in ("topsort", "topsort3"):
        g = it["g"]
        mv = mvs[0]
        acyclic = is_acyclic(g)
        order = parse_int_list(iv)
        ok = (valid_top_order(g, order) if order is not None else False) if acyclic else (iv == "false")
        m_order = parse_int_list(mv)
        m_ok = (valid_top_order(g, m_order) if m_order is not None else False) if acyclic else (mv == "false")
        if not ok:
            return "violation", fnd("violation", {"graph": pl_graph(g), "impl": iv, "acyclic": str(acyclic)},
                                    "top_sort result is not a topological order of the vertices (or it did not fail on a cyclic graph)")
        if not m_ok or iv != mv:
            return "disagreement", fnd("disagreement", {"graph": pl_graph(g), "impl": iv, "model": mv},
                                       "top_sort order is valid but differs from the transcribed algorithm (model out of date?)")
        return "agree", None

    if ref is None:     # neighbours / reachable of a vertex that is not in the graph
        lenient = {"false", "[]", "[%d]" % it["v"]}
        if iv in lenient and mvs[0] == "false":
            return "agree", None
        return "violation", fnd("violation", {"input": it["prolog"], "impl": iv},
                                "answer for a vertex that is not in the graph mentions vertices/edges that do not exist")

    oracle_model = mvs[-1]      # for addv/delv the repaired algorithm; otherwise the only model line
    if oracle_model != ref:
        return "disagreement", fnd("disagreement", {"input": it["prolog"], "model": oracle_model, "ref": ref},
                                   "Lean model differs from the set-theoretic definition computed in Python (model or generator defect)")
    if iv == ref:
        if mvs[0] != ref and op not in DEFECT:
            return "disagreement", fnd("disagreement", {"input": it["prolog"], "model": mvs[0]}, "model differs")
        return "agree", None
    # implementation differs from the mathematical definition
    if op in DEFECT and iv == mvs[0]:
        # exactly the behaviour of the literal transcription: the documented library defect
        return "known-shape", fnd("violation", {"defect": DEFECT[op], "impl_eq_transcription": "yes"},
                                  "%s returns a graph that is not the one its definition specifies; the result equals the literal transcription of the library algorithm (see notes/findings)" % pname)
    return "violation", fnd("violation", {"input": it["prolog"], "impl": iv, "expected": ref},
                            "%s result differs from its mathematical definition" % pname)


def nontrivial(it):
    if it["op"] == "vetu":
        return len(it["es"]) > 0
    if not g_edges(it["g"]):
        return False
    if "vs" in it and not it["vs"]:
        return False
    if "es" in it and not it["es"]:
        return False
    return True


def run(ctx):
    rng, tier = ctx["rng"], ctx["tier"]
    rep = diff.replay_case(ctx)
    exhaustive = False
    if rep is not None:
        cases = [make_case("rp%d" % i, [norm_item(it) for it in c["items"]]) for i, c in enumerate(rep)]
    else:
        cases = [make_case("k%d" % i, [norm_item(it) for it in c["items"]])
                 for i, c in enumerate(diff.load_corpus("C53"))]
        if tier == "quick":
            ex, graphs = gen_exhaustive(rng, 2, "e")
            cases += ex
            cases += gen_pairs(rng, graphs, graphs, "p", sample=600)
            cases += gen_quick(rng, 700)
        else:
            ex, graphs = gen_exhaustive(rng, 3, "e")
            cases += ex
            small = [g for g in graphs if len(g) <= 2]
            cases += gen_pairs(rng, small, small, "p")
            cases += gen_pairs(rng, graphs, graphs, "q", sample=20000)
            cases += gen_vetu_exhaustive(rng, "v")
            cases += gen_quick(rng, 3000)
            exhaustive = True
    t0 = time.time()
    impl, model = diff.run_cases(cases, impl_env=IMPL_ENV)
    # a query that hit the harness watchdog (or lost its machine) under machine load is run again,
    # alone and sequentially, before it is judged; a second timeout is reported
    flaky = [it for c in cases for it in c["items"] if transient(impl.get(it["id"], "missing"))]
    retried = len(flaky)
    if flaky:
        rc = [make_case("y%d" % i, [norm_item(it)]) for i, it in enumerate(flaky[:2000])]
        impl2, _ = diff.run_cases([{"id": c["id"], "impl": c["impl"]} for c in rc], impl_env=IMPL_ENV, parallel=False)
        for it, c in zip(flaky, rc):
            impl[it["id"]] = impl2.get(c["items"][0]["id"], "missing")
    core.log("[C53] correspondence run: %d cases, %.1fs, %d retried" % (len(cases), time.time() - t0, retried))
    findings, agree, total = [], 0, 0
    distinct = set()
    per_op, known_shape = {}, {}
    branches = {"topsort_acyclic": 0, "topsort_cyclic": 0, "absent_vertex_query": 0, "self_loop_graphs": 0,
                "list_with_duplicates": 0, "list_with_absent_vertex": 0}
    sizes = {}
    for c in cases:
        for it in c["items"]:
            total += 1
            op = it["op"]
            per_op[op] = per_op.get(op, 0) + 1
            if "g" in it:
                n = len(it["g"])
                sizes[n] = sizes.get(n, 0) + 1
                if any(a == b for a, b in g_edges(it["g"])):
                    branches["self_loop_graphs"] += 1
            if op == "topsort":
                branches["topsort_acyclic" if is_acyclic(it["g"]) else "topsort_cyclic"] += 1
            if it["ref"] is None and op in ("nbrs", "reachable"):
                branches["absent_vertex_query"] += 1
            if "vs" in it and op != "vetu":
                if len(set(it["vs"])) < len(it["vs"]):
                    branches["list_with_duplicates"] += 1
                if set(it["vs"]) - set(g_vertices(it["g"])):
                    branches["list_with_absent_vertex"] += 1
            if nontrivial(it):
                distinct.add(it["prolog"])
            status, f = judge_item(it, impl, model)
            if rep is not None:
                print("replay %s\n  impl  = %s\n  model = %s\n  ref   = %s\n  -> %s" % (
                    it["prolog"], impl.get(it["id"]), [model.get("%s_m%d" % (it["id"], j)) for j in range(len(it["mops"]))],
                    it["ref"], status))
            if status == "agree":
                agree += 1
            else:
                if status == "known-shape":
                    known_shape[op] = known_shape.get(op, 0) + 1
                findings.append(f)
    samples = []
    for c in cases[:2] + cases[-2:]:
        samples += [it["prolog"] for it in c["items"][:2]]
    return {
        "evaluations": total,
        "distinct_nontrivial": len(distinct),
        "rule": "quick: every graph with <=2 vertices drawn from {1,2,3} (every operation; list arguments = every subset of {0..4}, "
                "single edges over {1..4}^2) + 600 sampled pairs for compose/ugraph_union + 700 random graphs with <=7 vertices labelled 0..9 "
                "(45% DAGs, rest arbitrary digraphs with loops and cycles) with random list arguments over 0..10 (unsorted, duplicates, absent "
                "vertices below/between/above the keys); thorough: the same exhaustively for <=3 vertices (567 graphs), all pairs of <=2-vertex "
                "graphs and 20000 sampled pairs for the binary operations, all 4096 (vertex subset, edge subset) inputs of "
                "vertices_edges_to_ugraph over {1,2,3}, 3000 random graphs. non-trivial = the graph has an edge and the list argument is "
                "non-empty; distinct by query text",
        "samples": samples,
        "traces_validated_against_impl": agree,
        "disagreements_checked": total - agree,
        "retried_after_timeout": retried,
        "per_operation": per_op,
        "graph_size_histogram": {str(k): v for k, v in sorted(sizes.items())},
        "branches_hit": branches,
        "known_defect_instances": known_shape,
        "exhaustive": exhaustive,
        "findings": findings,
    }
