"""C43 — op/3 and current_op/3 maintain a consistent operator table.

A case is a history of op/3 calls on one fresh machine. After every call the error formal and the
current_op/3 view of the names in play are compared with the Lean model (`Model/OpTable.lean`):

* `opStep` (the ISO-conforming step the theorems of `Props/C43.lean` are about) is the oracle;
* `opStepImpl flags` mirrors `builtins.pl::op/3` as written, with the patch of finding C43-1
  switched on or off.  Which variant the tree under test implements is *measured* at the start of
  the run from three one-call witness histories; the model then follows that variant so that
  histories stay comparable after a deviation, and every step where the followed variant differs
  from `opStep` is reported as a violation with the signature of its defect class.
* A list whose later element clashes (infix against postfix): ISO 8.14.3.1 says "it is undefined
  which, if any, of the atoms in the list is made an operator".  The code makes the elements in front
  of the offending one operators (`opStep`); a tree that checks the whole list first (`opStepAtomic`)
  conforms as well.  Witness w2 measures which of the two the tree does and the oracle follows it;
  neither is reported (theorem C43_atomic_variant relates the two).

Afterwards current_op/3 is queried in several instantiation modes and a fixed family of operator
sentences is read with read_from_chars/2 and compared with the ISO-grammar enumerator of the model.
One reader idiosyncrasy is canonicalised away because it is not about the table (it belongs to the
reader properties, see notes/findings-misc.md): once the prefix operator `-` has been removed the
parser keeps treating a `-` in prefix position as a sign atom (NEGATIVE_SIGN in parser.rs) and
accepts it as an operand where ISO 6.3.1.3 wants brackets; such sentences are counted, not judged.
"""
import re

from .. import core, diff

LEVEL = "proof"
TRUSTED_BASE = [
    "vlib/props/C43.py renders one abstract call both as Prolog text and as driver tokens (hex names); this translation and the helper predicates c43_call/c43_tab/c43_cur/c43_read loaded into module user are trusted",
    "the reader part (operator sentences) is tied only by the differential run against the brute-force ISO 6.3.4 enumerator `readSentence`; no theorem is stated about src/parser/parser.rs",
    "Model/OpTable.lean::defaultTable is a transcription of the table of a fresh machine; every case starts by comparing it (restricted to the names in play; the witness case compares all 44 rows)",
]
ASSUMPTIONS = [
    "histories are run through library predicates called from module user on a fresh Machine (one `R` per case); module-local operator tables (op/3 inside a module being loaded) are not exercised",
    "the culprit of type_error(list, Op) is compared inside Prolog with ==/2 and printed as `same`, because the harness cannot print improper lists of one-char atoms (lib_machine term conversion panics on `[a|b]`)",
    "error precedence: the model follows the code's validation order; ISO 8.14.3.3 fixes no order, theorem C43_rejected only states that the raised error is one whose ISO condition holds",
    "ISO/IEC 13211-1 8.14.3.1 is quoted from memory (no copy of the standard in the sandbox): 'in the event of an error being detected in an Operator list argument, it is undefined which, if any, of the atoms in the list is made an operator'; on that basis a list call rejected for a later clashing element may have made the earlier elements operators, and both that and the all-or-nothing behaviour are accepted",
]

# no goal of this check can loop; a generous watchdog keeps a loaded machine from faking timeouts
IMPL_ENV = {"SV_TIMEOUT_MS": "120000"}

NAMES = ["foo", "+", "-", "|", ",", "[]", "{}", "mod"]
NAME_W = [25, 14, 14, 16, 7, 5, 5, 14]
SPECS = ["xfx", "xfy", "yfx", "xf", "yf", "fx", "fy"]
PRIOS = [0, 1, 200, 700, 1000, 1001, 1200, 1201, -1]
PRIOS_EXTRA = [400, 500, 999, 1100, 100000000000000000000000]
INFIX = ("xfx", "xfy", "yfx")

# full default table (transcribed in Model/OpTable.lean::defaultTable as well)
DEFAULT_NAMES = [":-", "?-", ",", "/", ":", "non_counted_backtracking", "is", "+", "-", "*", "**", "^",
                 "/\\", "\\/", "div", "//", "rdiv", "<<", ">>", "mod", "rem", "\\", ">", "<", "=\\=", "=:=",
                 ">=", "=<", "==", "\\==", "@=<", "@>=", "@<", "@>", "->", ";", "=", "=..", "\\=", "\\+", "-->"]

# ---------------------------------------------------------------- rendering


def hexs(s):
    return s.encode("utf-8").hex()


def pl_atom(a):
    if a in ("[]", "{}"):
        return a
    return "'" + a.replace("\\", "\\\\").replace("'", "\\'") + "'"


def pl_arg(a):
    k = a[0]
    if k == "v":
        return "_"
    if k == "i":
        return str(a[1])
    if k == "a":
        return pl_atom(a[1])
    return a[1]  # other: Prolog text


def drv_arg(a):
    k = a[0]
    if k == "v":
        return "v"
    if k == "i":
        return "i%d" % a[1]
    if k == "a":
        return "a" + hexs(a[1])
    return "o" + hexs(a[2])  # other: canonical harness text


def pl_op(o):
    if o[0] == "1":
        return pl_arg(o[1])
    els, tail = o[1], o[2]
    s = "[" + ",".join(pl_arg(e) for e in els)
    if not (tail[0] == "a" and tail[1] == "[]"):
        s += "|" + pl_arg(tail)
    return s + "]"


def drv_op(o):
    if o[0] == "1":
        return "1 " + drv_arg(o[1])
    return "L %d %s %s" % (len(o[1]), " ".join(drv_arg(e) for e in o[1]), drv_arg(o[2]))


def enc_arg(a):
    """operator-free, name-free query encoding of an argument (decoded by c43_dec/2)."""
    k = a[0]
    if k == "v":
        return "v"
    if k == "i":
        return str(a[1]) if a[1] >= 0 else "neg(%d)" % (-a[1])
    if k == "a":
        return "n(%d)" % NAMES.index(a[1]) if a[1] in NAMES and a[1] != "[]" else pl_atom(a[1])
    return a[1]


def enc_op(o):
    if o[0] == "1":
        return enc_arg(o[1])
    return "l([%s],%s)" % (",".join(enc_arg(e) for e in o[1]), enc_arg(o[2]))


def call_text(st):
    return "op(%s,%s,%s)" % (pl_arg(st["P"]), pl_arg(st["S"]), pl_op(st["O"]))


def cur_text(st):
    return "current_op(%s,%s,%s)" % (
        "P" if st["p"] is None else st["p"], "T" if st["s"] is None else st["s"],
        "N" if st["n"] is None else pl_atom(st["n"]))


TOK = {"[]": "[]", "{}": "{}"}


def sentence(toks):
    return " ".join(toks) + " ."


def _helpers():
    """helper predicates, consulted into `user` on a fresh machine, i.e. while the table is still the
    default one. Query texts sent later never mention a name in play and use no operator at all
    (names travel as n(Index), negative numbers as neg(N), lists as l(Elements,Tail)): query text is
    read under the *current* table, which the history under test has changed."""
    names = "[" + ",".join(pl_atom(n) for n in NAMES) + "]"
    text = "\n".join([
        ":- use_module(library(lists)).",
        ":- use_module(library(charsio)).",
        "c43_names(%s)." % names,
        "c43_dec(E, T) :- var(E), !, T = E.",
        "c43_dec(v, _) :- !.",
        "c43_dec(n(I), A) :- !, c43_names(Ns), nth0(I, Ns, A).",
        "c43_dec(neg(N), M) :- !, M is 0-N.",
        "c43_dec(l(Es,Tl), L) :- !, c43_dec(Tl, T), c43_declist(Es, T, L).",
        "c43_dec(X, X).",
        "c43_declist([], T, T).",
        "c43_declist([E|Es], T, [X|Xs]) :- c43_dec(E, X), c43_declist(Es, T, Xs).",
        "c43_call(P0,S0,O0,E) :- c43_dec(P0,P), c43_dec(S0,S), c43_dec(O0,O), catch(op(P,S,O), error(E0,_), true), "
        "( var(E0) -> E = ok ; E0 = type_error(list,C) -> ( C == O -> E = type_error(list,same) ; E = type_error(list,other) ) ; E = E0 ).",
        "c43_tab(L) :- c43_names(Ns), findall(op(P,T,N), (member(N,Ns), current_op(P,T,N)), L).",
        "c43_cur(P,T,N0,L) :- c43_dec(N0,N), c43_names(Ns), findall(op(P,T,N), (current_op(P,T,N), member(N,Ns)), L).",
        "c43_full(L) :- findall(op(P,T,N), current_op(P,T,N), L).",
        "c43_read(Cs,R) :- catch((read_from_chars(Cs,T), R = ok(T)), error(E,_), R = err(E)).",
        # undo a history (several histories share one machine; the next one re-checks its initial table)
        "c43_restore :- member(N,[foo,+,-,'|',mod]), member(S,[xfx,fy,xf]), catch(op(0,S,[N]),_,true), fail.",
        "c43_restore :- op(500,yfx,[+,-]), op(200,fy,[+,-]), op(400,yfx,mod).",
        ""])
    return text.replace("\\", "\\\\").replace("\n", "\\n")


HELPERS = None


def esc(q):
    """line-level escaping of the harness protocol."""
    return q.replace("\\", "\\\\")


def build_case(cid, steps, names=NAMES, kind="random"):
    """steps: list of abstract steps. Returns the case dict (impl lines; the model line is built in
    run() once the variant flags are known). `names` is NAMES or, for the full-table witness, every
    default name (then whole-table dumps are compared)."""
    full = names is not NAMES and list(names) != NAMES
    tab = "c43_full(L)." if full else "c43_tab(L)."
    cur0 = "c43_full(L)." if full else "c43_cur(_,_,_,L)."
    head = ["R\t%s.r" % cid, "L\t%s.l\tuser\t%s" % (cid, HELPERS)]
    impl = ["Q\t%s.i\t2\t%s" % (cid, cur0)]
    toks = []
    for k, st in enumerate(steps):
        lid = "%s.%d" % (cid, k)
        if st["k"] == "op":
            impl.append("Q\t%s\t2\tc43_call(%s,%s,%s,E)." % (lid, enc_arg(st["P"]), enc_arg(st["S"]), enc_op(st["O"])))
            impl.append("Q\t%s.t\t2\t%s" % (lid, tab))
            impl.append("Q\t%s.u\t2\t%s" % (lid, cur0))
            toks.append("op %s %s %s" % (drv_arg(st["P"]), drv_arg(st["S"]), drv_op(st["O"])))
        elif st["k"] == "cur":
            impl.append("Q\t%s\t2\tc43_cur(%s,%s,%s,L)." % (
                lid, "_" if st["p"] is None else st["p"], "_" if st["s"] is None else st["s"],
                "_" if st["n"] is None else enc_arg(("a", st["n"]))))
            toks.append("cur %s %s %s" % ("_" if st["p"] is None else st["p"], "_" if st["s"] is None else st["s"],
                                          "_" if st["n"] is None else hexs(st["n"])))
        elif st["k"] == "rd":
            impl.append("Q\t%s\t2\tc43_read(\"%s\",R)." % (lid, sentence(st["toks"])))
            toks.append("rd %d %s" % (len(st["toks"]), " ".join(hexs(t) for t in st["toks"])))
    body = [esc(l) for l in impl]
    return {"id": cid, "kind": kind, "steps": steps, "names": list(names), "impl": head + body, "body": body,
            "tokens": " ".join(toks)}


def bundle(bid, group):
    """several histories on one machine: reset + helpers once, `c43_restore` between histories."""
    lines = ["R\t%s.r" % bid, "L\t%s.l\tuser\t%s" % (bid, HELPERS)]
    for c in group:
        lines.extend(c["body"])
        lines.append("Q\t%s.z\t2\tc43_restore." % c["id"])
    return {"id": bid, "impl": lines}


HELPERS = _helpers()


def model_line(c, flags):
    return "hist\t%s\t%s\t%s\t%s" % (c["id"], flags, " ".join(hexs(n) for n in c["names"]), c["tokens"])


# ---------------------------------------------------------------- parsing results

OP_RE = re.compile(r"'op'\((\d+),'([a-z]+)',(\[\]|'(?:[^'\\]|\\.)*')\)")


def unq(a):
    if a == "[]":
        return "[]"
    return a[1:-1].replace("\\\\", "\\").replace("\\'", "'")


def first_answer(r):
    return (r or "missing").split(" ;; ")[0]


def impl_table(r):
    """`{L=[...]}` -> sorted list of (prio, spec, name) or None."""
    a = first_answer(r)
    if not (a.startswith("{L=") and a.endswith("}")):
        return None
    body = a[3:-1]
    rows = sorted((int(p), s, unq(n)) for p, s, n in OP_RE.findall(body))
    # every element must have been recognised
    if body != "[" + ",".join("'op'(%d,'%s',%s)" % (p, s, n) for p, s, n in
                              ((int(p), s, n) for p, s, n in OP_RE.findall(body))) + "]":
        return None
    return rows


def model_table(txt):
    if not txt:
        return []
    rows = []
    for it in txt.split(","):
        p, s, n = it.split(":")
        rows.append((int(p), s, bytes.fromhex(n).decode("utf-8")))
    return sorted(rows)


def impl_binding(r, var):
    a = first_answer(r)
    pre = "{%s=" % var
    if a.startswith(pre) and a.endswith("}"):
        return a[len(pre):-1]
    return "?" + a


# ---------------------------------------------------------------- generation


def w_choice(rng, xs, ws):
    return rng.choices(xs, weights=ws, k=1)[0]


def gen_prio(rng, ill):
    if ill and rng.random() < 0.5:
        return rng.choice([("v",), ("a", "a"), ("o", "1.5", "f(3ff8000000000000)"), ("o", "'^'(2,70)", "'^'(2,70)"),
                           ("a", "[]")])
    if rng.random() < 0.12:
        return ("i", rng.choice(PRIOS_EXTRA))
    return ("i", rng.choice(PRIOS))


def gen_spec(rng, ill):
    if ill and rng.random() < 0.5:
        return rng.choice([("v",), ("a", "yfy"), ("a", "bar"), ("i", 1), ("o", "1.5", "f(3ff8000000000000)"),
                           ("o", "f(x)", "'f'('x')"), ("a", "[]")])
    return ("a", rng.choice(SPECS))


def gen_name(rng):
    return w_choice(rng, NAMES, NAME_W)


def gen_op(rng, ill):
    r = rng.random()
    if ill and r < 0.45:
        # ill-formed third argument
        k = rng.randrange(8)
        if k == 0:
            return ("1", ("v",))
        if k == 1:
            return ("1", ("i", 1))
        if k == 2:
            return ("1", ("o", "1.5", "f(3ff8000000000000)"))
        if k == 3:
            return ("1", ("o", "f(x)", "'f'('x')"))
        els = [("a", gen_name(rng)) for _ in range(rng.randint(1, 3))]
        if k == 4:
            els[rng.randrange(len(els))] = ("v",)
            return ("L", els, ("a", "[]"))
        if k == 5:
            els[rng.randrange(len(els))] = rng.choice([("i", 1), ("o", "f(x)", "'f'('x')")])
            return ("L", els, ("a", "[]"))
        if k == 6:
            return ("L", els, ("v",))
        return ("L", els, rng.choice([("a", "bar"), ("i", 1), ("a", "foo"), ("a", "+")]))
    if r < 0.72:
        return ("1", ("a", gen_name(rng)))
    els = [("a", gen_name(rng)) for _ in range(rng.choice([1, 1, 2, 2, 3]))]
    return ("L", els, ("a", "[]"))


def gen_cur(rng, last):
    """a current_op/3 query pattern; biased to the values of the last call."""
    p = s = n = None
    lp, ls, ln = last
    mode = rng.randrange(8)
    if mode & 1:
        p = lp if (lp is not None and rng.random() < 0.6) else rng.choice([200, 500, 400, 700, 1000, 1001, 1100, 1200, 1])
    if mode & 2:
        s = ls if (ls is not None and rng.random() < 0.6) else rng.choice(SPECS)
    if mode & 4:
        n = ln if (ln is not None and rng.random() < 0.6) else gen_name(rng)
    return {"k": "cur", "p": p, "s": s, "n": n}


TEMPLATES = [
    ["a", "N", "b"], ["N", "a"], ["a", "N"], ["a", "N", "b", "N", "c"], ["a", "N", "b", "=", "c"],
    ["a", "=", "b", "N", "c"], ["N", "a", "=", "b"], ["N", "N", "a"], ["a", "N", "N"], ["N", "a", "N", "b"],
    ["a", "N", "b", "N"],
]


def reads_for(names):
    out = []
    for n in names:
        for tpl in TEMPLATES:
            out.append({"k": "rd", "toks": [n if t == "N" else t for t in tpl]})
    return out


def gen_history(rng, tier):
    n = rng.randint(6, 12)
    steps = []
    used = []
    for _ in range(n):
        ill = rng.random() < 0.22
        P, S, O = gen_prio(rng, ill), gen_spec(rng, ill), gen_op(rng, ill)
        # bias: revisit a name already used in this history (replacement, removal, class conflict)
        if used and O[0] == "1" and O[1][0] == "a" and rng.random() < 0.45:
            O = ("1", ("a", rng.choice(used)))
        if O[0] == "1" and O[1][0] == "a":
            used.append(O[1][1])
        elif O[0] == "L":
            used.extend(e[1] for e in O[1] if e[0] == "a")
        steps.append({"k": "op", "P": P, "S": S, "O": O})
        lp = P[1] if P[0] == "i" and 0 <= P[1] <= 1200 else None
        ls = S[1] if S[0] == "a" and S[1] in SPECS else None
        ln = used[-1] if used else None
        for _ in range(rng.choice([0, 1, 1, 2])):
            steps.append(gen_cur(rng, (lp, ls, ln)))
    # sentences for the names this history touched plus two others
    touched = [n for n in NAMES if n in used]
    others = [n for n in NAMES if n not in used]
    rng.shuffle(others)
    steps.extend(reads_for(touched + others[:2]))
    return steps


def A(n):
    return ("a", n)


NIL = ("a", "[]")


def witness_cases():
    """fixed one-defect histories: they carry the stable signatures and tell which variant of the
    code is under test."""
    w = []
    allnames = DEFAULT_NAMES + [n for n in NAMES if n not in DEFAULT_NAMES]
    w.append(build_case("w0", [{"k": "op", "P": ("v",), "S": ("v",), "O": ("1", ("v",))}], names=allnames, kind="witness"))
    w.append(build_case("w1", [{"k": "op", "P": ("i", 200), "S": A("xfy"), "O": ("L", [A("|")], NIL)},
                               {"k": "cur", "p": 200, "s": "xfy", "n": "|"}] + reads_for(["|"]), kind="witness"))
    w.append(build_case("w2", [{"k": "op", "P": ("i", 200), "S": A("xf"), "O": ("L", [A("foo"), A("+")], NIL)},
                               {"k": "cur", "p": None, "s": None, "n": "foo"}], kind="witness"))
    w.append(build_case("w3", [{"k": "cur", "p": 500, "s": None, "n": "+"},
                               {"k": "cur", "p": 200, "s": None, "n": None},
                               {"k": "cur", "p": 1000, "s": "xfy", "n": None}], kind="witness"))
    # a directed tour of the branches the theorems single out
    tour = [
        (("i", 700), A("xfx"), ("1", A("foo"))), (("i", 200), A("xf"), ("1", A("foo"))),   # conflict
        (("i", 0), A("yfx"), ("1", A("foo"))), (("i", 200), A("xf"), ("1", A("foo"))),     # remove by class, then postfix ok
        (("i", 300), A("xfy"), ("1", A("foo"))),                                             # conflict the other way
        (("i", 1200), A("fy"), ("1", A("foo"))), (("i", 1201), A("fy"), ("1", A("foo"))),
        (("i", 1001), A("yfx"), ("1", A("|"))), (("i", 1000), A("yfx"), ("1", A("|"))),
        (("i", 0), A("fy"), ("1", A("|"))), (("i", 0), A("xfx"), ("1", A("|"))),
        (("i", 1000), A("xfy"), ("1", A(","))), (("i", 0), A("xfy"), ("L", [A("mod"), A(",")], NIL)),
        (("i", 200), A("xfy"), ("1", A("[]"))), (("i", 200), A("xfy"), ("1", A("{}"))),
        (("i", 200), A("xfy"), ("L", [A("mod"), A("{}")], NIL)),
        (("i", 0), A("fy"), ("L", [A("-"), A("+")], NIL)), (("i", 200), A("fy"), ("L", [A("-")], NIL)),
    ]
    steps = []
    for P, S, O in tour:
        steps.append({"k": "op", "P": P, "S": S, "O": O})
        steps.append({"k": "cur", "p": None, "s": S[1], "n": None})
    w.append(build_case("w4", steps + reads_for(NAMES), kind="witness"))
    w.append(build_case("w5", [{"k": "op", "P": ("i", 0), "S": A("fy"), "O": ("1", A("-"))}] + reads_for(["-"]), kind="witness"))
    return w


# ---------------------------------------------------------------- judge

DEFECTS = {
    "bar": {"family": "ops", "defect": "bar-in-list", "call": "op(200,xfy,['|'])"},
    "cur": {"family": "ops", "defect": "current_op-bound-priority", "call": "current_op(500,T,+)"},
}
DETAIL = {
    "bar": "op/3 accepts '|' inside a list with a priority/specifier the '|' restriction forbids (list elements skip the '|' branch of op/3)",
    "cur": "current_op/3 called with an instantiated priority and an unbound specifier or name does not enumerate the matching operators",
}


def case_payload(c, flags):
    return {"id": c["id"], "kind": c["kind"], "steps": c["steps"], "names": c["names"], "impl": c["impl"],
            "model": [model_line(c, flags)]}


def judge_case(c, impl, mres, flags, stats, findings, verbose=False):
    """compare one history step by step. Returns True when everything agreed with the followed model
    and no deviation from the ISO step was seen."""
    cid = c["id"]
    parts = mres.split(" ;; ") if mres else []
    steps = c["steps"]
    clean = True
    if len(parts) != len(steps) or any(p.startswith("bad") for p in parts):
        findings.append(core.Finding("disagreement", {"family": "ops", "defect": "driver-protocol", "case": cid},
                                     "model driver output does not match the steps: %r" % (mres[:200],),
                                     case_payload(c, flags)))
        return False
    names = c["names"]

    def report(kind, sig, detail):
        findings.append(core.Finding(kind, sig, detail, case_payload(c, flags)))

    # a timeout / abort that survived the serial re-run is inconclusive, never a finding
    for l in c["body"]:
        v = impl.get(core.line_id(l))
        if v is None or v.startswith("timeout") or v.startswith("abort(") or v.startswith("skipped("):
            stats["skipped_inconclusive"] += 1
            return None
    # initial table (names in play) must be the default one
    init = impl_table(impl.get(cid + ".i"))
    exp0 = sorted((p, s, n) for (p, s, n) in DEFAULT_ROWS if n in names)
    if init != exp0:
        if not c.get("fresh", True):
            # a later history of a bundle whose predecessor could not be undone: not judged
            stats["skipped_restore_failed"] += 1
            return None
        report("violation" if init is not None else "disagreement",
               {"family": "ops", "defect": "initial-table", "impl": str(init)[:300]},
               "operator table of a fresh machine differs from Model/OpTable.lean::defaultTable (restricted to the names of the case)")
        return False
    inv = True
    hist = []
    prev_tab = exp0

    for k, (st, part) in enumerate(zip(steps, parts)):
        lid = "%s.%d" % (cid, k)
        f = part.split("@@")
        if st["k"] == "op":
            _, ferr, ftab, ierr, itab, tags, invs = f
            ftab, itab = model_table(ftab), model_table(itab)
            inv = invs == "1"
            ct = call_text(st)
            hist.append(ct)
            e = impl_binding(impl.get(lid), "E")
            e = "ok" if e == "'ok'" else e
            t1 = impl_table(impl.get(lid + ".t"))
            t2 = impl_table(impl.get(lid + ".u"))
            if verbose:
                print("  %s\n     impl: %s %s\n     model(followed): %s %s\n     iso: %s %s  tags=%s" % (
                    ct, e, t1, ferr, ftab, ierr, itab, tags))
            stats["calls"] += 1
            if ferr != "ok" and ftab != prev_tab:
                # the ISO-undefined event (Props/C43 PrefixMade): rejected for a later list element
                stats["rejected_list_calls_prefix_made"] += 1
            prev_tab = ftab
            key = "ok" if ierr == "ok" else ierr.split("(")[0] + "/" + (ierr.split(",")[0].split("(")[1] if "(" in ierr else "")
            stats["iso_outcomes"][key] = stats["iso_outcomes"].get(key, 0) + 1
            if e != ferr or t1 != ftab or t2 != ftab:
                clean = False
                broken = (t1 != itab or t2 != itab or (e == "ok") != (ierr == "ok"))
                sig = {"family": "ops", "defect": "step-mismatch", "call": ct, "impl": "%s %s" % (e, t1 if t1 == t2 else (t1, t2)),
                       "iso": "%s %s" % (ierr, itab), "history": "; ".join(hist[:-1])[-300:]}
                if broken:
                    report("violation", sig, "op/3 call: result or current_op/3 table differs from the ISO step (oracle: Props/C43 opStep) and from the mirrored code")
                else:
                    report("disagreement", sig, "op/3 call: same table and acceptance as the ISO step but a different error formal than the mirrored code (may be another applicable ISO error)")
                return False  # states may have diverged: stop comparing this history
            if tags:
                clean = False
                for tg in tags.split(","):
                    stats["deviations"][tg] = stats["deviations"].get(tg, 0) + 1
                    if tg in DEFECTS:
                        report("violation", dict(DEFECTS[tg]), DETAIL[tg] + " — here: " + ct + " after [" + "; ".join(hist[:-1])[-300:] + "]")
                    else:
                        report("violation", {"family": "ops", "defect": "unclassified-deviation", "call": ct},
                               "followed model differs from opStep without a known class")
        elif st["k"] == "cur":
            _, fl, il = f
            il = model_table(il)
            t = impl_table(impl.get(lid))
            stats["cur_queries"] += 1
            mode = ("P" if st["p"] is not None else "-") + ("T" if st["s"] is not None else "-") + ("N" if st["n"] is not None else "-")
            stats["cur_modes"][mode] = stats["cur_modes"].get(mode, 0) + 1
            if verbose:
                print("  %s  impl: %s  iso: %s" % (cur_text(st), t, il))
            if t != il:
                clean = False
                buggy_mode = st["p"] is not None and (st["s"] is None or st["n"] is None)
                if buggy_mode and flags[2] == "0":
                    stats["deviations"]["cur"] = stats["deviations"].get("cur", 0) + 1
                    report("violation", dict(DEFECTS["cur"]), DETAIL["cur"] + " — here: %s gives %s, table has %s" % (cur_text(st), t, il))
                else:
                    report("violation", {"family": "ops", "defect": "current_op-mismatch", "query": cur_text(st),
                                         "impl": str(t), "iso": str(il), "history": "; ".join(hist)[-300:]},
                           "current_op/3 does not enumerate the matching rows of the table")
        elif st["k"] == "rd":
            r = impl_binding(impl.get(lid), "R")
            stats["reads"] += 1
            if not inv:
                stats["reads_skipped_noninv"] += 1
                continue
            m = f[1]
            if m == "ambiguous":
                stats["reads_ambiguous"] += 1
                continue
            if r.startswith("'ok'(") and r.endswith(")"):
                got = "T=" + r[5:-1]
            elif r.startswith("'err'('syntax_error'("):
                got = "syntax_error"
            else:
                got = r
            if verbose:
                print("  read %s  impl: %s  model: %s" % (sentence(st["toks"]), got, m))
            stats["read_outcomes"]["term" if m.startswith("T=") else "syntax_error"] += 1
            if got != m:
                name = [t for t in st["toks"] if t not in ("a", "b", "c", "=")]
                nm = name[0] if name else "?"
                rows = sorted(last_rows(c, parts, nm))
                if nm == "-" and m == "syntax_error" and got.startswith("T=") and not any(r_[1] in ("fy", "fx") for r_ in rows):
                    # not about the table: with the prefix operator - removed the parser still reads a
                    # - in prefix position as a sign atom and takes it as an operand (reader property)
                    stats["reads_minus_sign_atom"] += 1
                else:
                    clean = False
                    report("violation", {"family": "ops", "defect": "reader", "sentence": sentence(st["toks"]),
                                         "rows": str(rows), "impl": got, "iso": m},
                           "read_from_chars/2 under the table produced by the history does not give the ISO reading")
    return clean


def last_rows(c, parts, name):
    rows = [(p, s, n) for (p, s, n) in DEFAULT_ROWS if n == name]
    for st, part in zip(c["steps"], parts):
        if st["k"] == "op":
            rows = [r for r in model_table(part.split("@@")[2]) if r[2] == name]
    return rows


DEFAULT_ROWS = [
    (1200, "xfx", ":-"), (1200, "fx", ":-"), (1200, "fx", "?-"), (1000, "xfy", ","), (400, "yfx", "/"),
    (600, "xfy", ":"), (700, "fx", "non_counted_backtracking"), (700, "xfx", "is"), (500, "yfx", "+"),
    (500, "yfx", "-"), (400, "yfx", "*"), (200, "xfx", "**"), (200, "xfy", "^"), (500, "yfx", "/\\"),
    (500, "yfx", "\\/"), (400, "yfx", "div"), (400, "yfx", "//"), (400, "yfx", "rdiv"), (400, "yfx", "<<"),
    (400, "yfx", ">>"), (400, "yfx", "mod"), (400, "yfx", "rem"), (200, "fy", "+"), (200, "fy", "-"),
    (200, "fy", "\\"), (700, "xfx", ">"), (700, "xfx", "<"), (700, "xfx", "=\\="), (700, "xfx", "=:="),
    (700, "xfx", ">="), (700, "xfx", "=<"), (700, "xfx", "=="), (700, "xfx", "\\=="), (700, "xfx", "@=<"),
    (700, "xfx", "@>="), (700, "xfx", "@<"), (700, "xfx", "@>"), (1050, "xfy", "->"), (1100, "xfy", ";"),
    (700, "xfx", "="), (700, "xfx", "=.."), (700, "xfx", "\\="), (900, "fy", "\\+"), (1200, "xfx", "-->"),
]


def measure_flags(cases, impl):
    """which variant is the tree under test? (from the witness histories) bar: finding C43-1 repaired;
    atomic: a list with a clashing element changes nothing (ISO 8.14.3.1 leaves it open); cur: finding
    C43-2 repaired."""
    e = impl_binding(impl.get("w1.0"), "E")
    t2 = impl_table(impl.get("w2.0.t"))
    t3 = impl_table(impl.get("w3.0"))
    if e.startswith("?") or t2 is None or t3 is None:
        raise RuntimeError("C43: witness histories gave no usable answer (w1=%r w2=%r w3=%r)" % (
            impl.get("w1.0"), impl.get("w2.0.t"), impl.get("w3.0")))
    bar = "0" if e == "'ok'" else "1"
    atomic = "0" if any(n == "foo" for (_, _, n) in t2) else "1"
    cur = "1" if t3 == [(500, "yfx", "+")] else "0"
    return bar + atomic + cur


def nontrivial(c, parts):
    """a history counts when the visible table changed at least twice and a call was rejected."""
    prev = None
    changes = rejected = 0
    for st, part in zip(c["steps"], parts):
        if st["k"] != "op":
            continue
        f = part.split("@@")
        if prev is not None and f[2] != prev:
            changes += 1
        if prev is None and model_table(f[2]) != sorted(r for r in DEFAULT_ROWS if r[2] in c["names"]):
            changes += 1
        prev = f[2]
        if f[1] != "ok":
            rejected += 1
    return changes >= 2 and rejected >= 1


def run(ctx):
    rng, tier = ctx["rng"], ctx["tier"]
    rep = diff.replay_case(ctx)
    if rep is not None:
        cases = [build_case(c["id"], c["steps"], names=c.get("names", NAMES), kind="replay") for c in rep]
        # the variant flags are measured from the witnesses, which therefore run as well
        have = {c["id"] for c in cases}
        cases = [w for w in witness_cases() if w["id"] not in have and w["id"] in ("w1", "w2", "w3")] + cases
    else:
        cases = witness_cases()
        for c in diff.load_corpus("C43"):
            if "steps" in c:
                cases.append(build_case("k" + str(len(cases)), c["steps"], names=c.get("names", NAMES), kind="corpus"))
        n = 260 if tier == "quick" else 2000
        for i in range(n):
            cases.append(build_case("h%d" % i, gen_history(rng, tier)))
    G = 8
    singles = [c for c in cases if c["kind"] != "random"]
    rnd = [c for c in cases if c["kind"] == "random"]
    runs = list(singles) + [bundle("b%d" % i, rnd[i:i + G]) for i in range(0, len(rnd), G)]
    impl, _ = diff.run_cases(runs, impl_env=IMPL_ENV)
    # a watchdog timeout / harness abort on a loaded machine is not evidence: run those machines
    # again, one after the other, and judge the second result
    def inconclusive(r):
        for l in r["impl"]:
            v = impl.get(core.line_id(l))
            if v is None or v.startswith("timeout") or v.startswith("abort(") or v.startswith("skipped("):
                return True
        return False
    again = [r for r in runs if inconclusive(r)]
    if again:
        impl2, _ = diff.run_cases(again, impl_env=IMPL_ENV, parallel=False)
        impl.update(impl2)
    for _ in range(3):
        try:
            flags = measure_flags(cases, impl)
            break
        except RuntimeError:
            w, _ = diff.run_cases([c for c in cases if c["id"] in ("w1", "w2", "w3")], impl_env=IMPL_ENV, parallel=False)
            impl.update(w)
    else:
        flags = measure_flags(cases, impl)
    model = core.run_model([model_line(c, flags) for c in cases])
    for i, c in enumerate(rnd):
        c["fresh"] = (i % G == 0)
    stats = {"skipped_inconclusive": 0, "skipped_restore_failed": 0, "calls": 0, "cur_queries": 0, "reads": 0, "reads_skipped_noninv": 0, "reads_ambiguous": 0, "reads_minus_sign_atom": 0, "rejected_list_calls_prefix_made": 0,
             "iso_outcomes": {}, "deviations": {}, "cur_modes": {}, "read_outcomes": {"term": 0, "syntax_error": 0}}
    findings = []
    agree = 0
    distinct = set()
    evals = 0
    for c in cases:
        mres = model.get(c["id"], "")
        if rep is not None and c["id"] in ("w1", "w2", "w3") and c["kind"] == "witness":
            continue
        if rep is not None:
            print("replay case %s (variant flags bar/atomic/cur = %s)" % (c["id"], flags))
        evals += 1
        ok = judge_case(c, impl, mres, flags, stats, findings, verbose=rep is not None)
        if ok is None:
            evals -= 1
            continue
        if ok:
            agree += 1
        parts = mres.split(" ;; ") if mres else []
        if len(parts) == len(c["steps"]) and nontrivial(c, parts):
            distinct.add(c["tokens"])
    samples = []
    for c in cases[:2] + cases[-2:]:
        samples.append("; ".join(call_text(s) if s["k"] == "op" else cur_text(s) for s in c["steps"] if s["k"] != "rd")[:400])
    return {
        "evaluations": evals,
        "distinct_nontrivial": len(distinct),
        "rule": "one case = one history of 6-12 op/3 calls on a fresh machine over names {foo,+,-,'|',',',[],{},mod} (single or in lists of 1-3), priorities {0,1,200,700,1000,1001,1200,1201,-1}+{400,500,999,1100,10^23}, all 7 specifiers, 22% ill-typed calls (unbound, non-integer priority, non-atom/unknown specifier, non-list / partial / improper list, non-atom element); after each call the error formal and two current_op/3 dumps are compared, 0-2 current_op/3 queries in a random instantiation mode follow, and at the end 11 sentence templates are read for every name the history touched and two others; non-trivial = the visible table changed at least twice and at least one call was rejected; distinct by history text",
        "samples": samples,
        "traces_validated_against_impl": agree,
        "disagreements_checked": evals - agree,
        "variant_flags_measured": {"C43-1 fixed": flags[0] == "1", "list checked for clashes before the first update (ISO leaves it open)": flags[1] == "1", "C43-2 fixed": flags[2] == "1"},
        "op_calls": stats["calls"],
        "current_op_queries": stats["cur_queries"],
        "current_op_modes": stats["cur_modes"],
        "iso_outcomes": stats["iso_outcomes"],
        "deviation_steps": stats["deviations"],
        "rejected_list_calls_that_made_a_prefix_of_the_list_operators": stats["rejected_list_calls_prefix_made"],
        "histories_skipped_restore_failed": stats["skipped_restore_failed"],
        "machines_rerun_after_timeout": len(again),
        "histories_skipped_inconclusive_after_rerun": stats["skipped_inconclusive"],
        "sentences_read": stats["reads"],
        "sentences_skipped_table_outside_invariant": stats["reads_skipped_noninv"],
        "sentences_ambiguous": stats["reads_ambiguous"],
        "sentences_not_judged_minus_sign_atom": stats["reads_minus_sign_atom"],
        "sentence_outcomes": stats["read_outcomes"],
        "exhaustive": False,
        "findings": findings,
    }
