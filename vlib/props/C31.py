"""C31 — An interrupt at any point is caught cleanly.

Tie (schedule enumeration): hook `verif_hooks::set_interrupt_at(n)` raises the interrupt flag just
before the n-th dispatched instruction of a query (harness op `QI`), `instr_stats()` reports the
number of dispatched instructions and the count at which `check_for_interrupt` consumed the flag.
For every workload template (a clause `t31_<name>(R)`), wrapper shape and phase padding, the
unfaulted run gives the instruction count I; n is swept over the polling windows of 1..I (the poll
happens every 255 dispatched instructions, so all n of one window give the same run; padding the
goal with j unit calls shifts the windows over the goal's instruction boundaries).  Oracle of the
statement, per run:
  * if the flag was consumed (at > 0): the result is the documented exception — caught by the
    goal's own `catch/3` (`E = '$interrupt_thrown'`) or, when it arrived outside that catch/3,
    reported by the query as `error('$interrupt_thrown', repl/0)`; never a normal answer (the
    interrupt was swallowed), another term, a failure, a panic or a time-out;
  * if it was not consumed (the query ended before the next poll) the normal answer;
  * `setup_call_cleanup/3`: when the interrupt arrives while the goal runs the clean-up has run once;
  * afterwards a fixed probe on the same machine gives its known answer.
Model side (`drv_C31`): the polling transition system predicts the delivery iteration
(`deliveryPoint 255 n`, or none when the run is shorter) — compared with the hook's report — and
`solveInj intBall` on a reference program is compared with the implementation running the same
program with an explicit throw at the labelled point.
"""
import re

from .. import core, diff

LEVEL = "partial"
TRUSTED_BASE = [
    "hook patch notes/hooks/C30-repo.diff: verif_hooks::set_interrupt_at / instr_stats, the cfg(feature=verif) calls instr_tick() at the top of both dispatch loops and note_interrupt_delivery() in check_for_interrupt; harness op QI (notes/hooks/fam_c30.rs)",
    "the flag is raised synchronously by the counting hook on the machine's own thread (what a signal handler / watchdog thread does asynchronously with a Relaxed store)",
]
ASSUMPTIONS = [
    "PARTIAL: the theorems are about the reference interpreter with an injected throw and about the polling transition system; that the machine's state at every instruction boundary is consistent enough to unwind from is shown by this sweep only for the boundaries the templates reach",
    "real signal delivery (ctrlc handler thread, memory ordering of the Relaxed atomic) is not modelled; long-running single instructions (a sort of a huge list, bignum arithmetic) delay the poll and are outside the statement",
    "the polling period is 255 dispatched instructions per dispatch-loop entry (u8 wrap-around); the sweep covers the phases reached by padding the query with unit calls",
]

PERIOD = 255

PROG = r"""
:- dynamic(cl31/1).
:- dynamic(f31/1).
u31.
add31(X,A0,A) :- A is A0+X.
lp31(0) :- !.
lp31(N) :- M is N-1, lp31(M).
mk31(0,[]) :- !.
mk31(N,[N|T]) :- M is N-1, mk31(M,T).
len31([],N,N).
len31([_|T],A,N) :- A1 is A+1, len31(T,A1,N).
dp31(0,0) :- !.
dp31(N,R) :- M is N-1, dp31(M,R0), R is R0+1.
fib31(0,A,_,A) :- !.
fib31(N,A,B,R) :- M is N-1, C is A+B, fib31(M,B,C,R).
thr31(0) :- !.
thr31(N) :- catch(throw(b31(N)), b31(_), true), M is N-1, thr31(M).
rth31(N) :- catch(lp31(N), E, throw(E)).
as31(0) :- !.
as31(N) :- assertz(f31(N)), M is N-1, as31(M).
digits31([D|T]) --> [D], { D @>= '0', D @=< '9' }, !, digits31r(T).
digits31r([D|T]) --> [D], { D @>= '0', D @=< '9' }, !, digits31r(T).
digits31r([]) --> [].
ite31(0,A,A) :- !.
ite31(N,A,R) :- ( N mod 3 =:= 0 -> A1 is A+1 ; \+ N mod 3 =:= 1 -> A1 is A+2 ; A1 = A ), M is N-1, ite31(M,A1,R).
cp31(0,_) :- !.
cp31(N,T) :- copy_term(T,_), M is N-1, cp31(M,T).
probe31(N,A,X,Ys,At,C) :- mk31(50,L), len31(L,0,N), atom_length(abc,A), X is N*A, findall(Y,member(Y,[a,b]),Ys), atom_chars(At,"xyz"), copy_term(f(V,V,1),C).
"""

USES = ["lists", "charsio", "format", "assoc", "iso_ext", "between", "dcgs"]

PROBE = "probe31(N,A,X,Ys,At,C)."
PROBE_EXPECT = "{A=3,At='xyz',C='f'(_G0,_G0,1),N=50,X=150,Ys=\"ab\"} ;; ..."

TEMPLATES = [
    ("nop", "R = ok", "nothing (prologue and epilogue of the query only)"),
    ("loop", "lp31(1500), R = ok", "deterministic counting loop"),
    ("list", "mk31(800,L), len31(L,0,R)", "list construction and traversal (heap growth inside the goal)"),
    ("deep", "dp31(700,R)", "deep non-tail recursion (environment stack)"),
    ("findall", "findall(X, between(1,400,X), L), len31(L,0,R)", "findall/3 over between/3"),
    ("between_fail", "( between(1,600,X), X < 0 -> R = no ; R = ok )", "failure-driven enumeration (choice points)"),
    ("between_cut", "between(1,100000,X), X >= 500, !, R = X", "between/3 cut after 500 answers"),
    ("fib", "fib31(700,0,1,F), R is F mod 1000", "bignum arithmetic in a loop (arena allocation)"),
    ("throw_loop", "thr31(150), R = ok", "catch/throw in every iteration (inner catcher never matches the interrupt)"),
    ("rethrow", "rth31(1200), R = ok", "inner catch-all that re-throws"),
    ("assert_loop", "as31(150), findall(X,f31(X),L), len31(L,0,R), retractall(f31(_))", "assertz loop, findall, retractall"),
    ("sort", "mk31(600,L), sort(L,S), S = [R|_]", "sort/2 between loops"),
    ("append", "mk31(500,L), append(L,L,L2), reverse(L2,L3), L3 = [R|_]", "library(lists) append/reverse"),
    ("maplist", "length(L,400), maplist(=(x),L), len31(L,0,R)", "maplist/2 (call/N)"),
    ("foldl", "mk31(300,L), foldl(add31,L,0,R)", "foldl/4"),
    ("nested_findall", "findall(L1,(between(1,25,I),findall(J,between(1,I,J),L1)),Ls), len31(Ls,0,R)", "nested findall/3"),
    ("setof", "setof(X, between(1,200,X), L), len31(L,0,R)", "setof/3"),
    ("bagof", "bagof(X-Y, (between(1,150,X), Y = a), L), len31(L,0,R)", "bagof/3 (free-variable machinery)"),
    ("atom_chars", "mk31(200,L), findall(C,(member(X,L),number_chars(X,C)),Cs), len31(Cs,0,R)", "number_chars/2 in a loop"),
    ("dcg", "number_chars(12345678901234567890123456789012345678901234567890,Cs), phrase(digits31(Ds),Cs), len31(Ds,0,R)", "DCG parsing"),
    ("ite", "ite31(800,0,R)", "if-then-else and negation in a loop"),
    ("copy_loop", "cp31(300,f(A,B,[A,B,c])), R = ok", "copy_term/2 in a loop"),
    ("assoc", "findall(K-K,between(1,60,K),Ps), list_to_assoc(Ps,As), get_assoc(30,As,R)", "library(assoc)"),
    ("format", "mk31(60,L), phrase(format_(\"~w~n\",[L]),Cs), length(Cs,R)", "format_//2"),
    ("read", "read_from_chars(\"foo(Bar, [1,2,3], 'q q', \\\"str\\\", 0'a, 1.5e3).\", T), functor(T,_,R)", "read_from_chars/2 (parser)"),
    ("forall", "forall(between(1,300,X), X > 0), R = ok", "forall/2 (double negation)"),
    ("once_naf", "lp31(200), once(member(R,[ok,no])), \\+ fail", "once/1, \\+/1"),
    ("scc_inner", "setup_call_cleanup(true, lp31(800), true), R = ok", "setup_call_cleanup/3 inside the goal"),
    ("length_enum", "length(L,N), N >= 120, !, R = N", "length/2 enumerating lists"),
    ("string_ops", "atom_chars(A,\"abcdefghij\"), findall(S,sub_atom(A,_,3,_,S),Ss), len31(Ss,0,R)", "sub_atom/5 enumeration"),
    ("bb", "mk31(300,L), bb_put(k31,L), bb_get(k31,L2), len31(L2,0,R)", "bb_put/bb_get"),
]

SHAPES = {
    "caught": "catch((%s), error(E,_), true).",
    "inner_nomatch": "catch(catch((%s), foo31, true), error(E,_), true).",
    "scc": "catch(setup_call_cleanup(true, (%s), assertz(cl31(c))), error(E,_), true).",
    "uncaught": "(%s).",
    # a long continuation behind the catch/3: a flag that is not cleared by its delivery is delivered again there
    "then_loop": "catch((%s), error(E,_), true), lp31(400).",
}


def esc(s):
    return s.replace("\\", "\\\\").replace("\n", "\\n").replace("\t", "\\t")


def full_prog():
    return PROG + "".join("t31_%s(R) :- %s.\n" % (t[0], t[1]) for t in TEMPLATES)


def query_text(name, shape, pad):
    g = ", ".join(["u31"] * pad + ["t31_%s(R)" % name])
    return SHAPES[shape] % g


def setup_lines(cid):
    ls = []
    for i, u in enumerate(USES):
        ls.append("Q\t%s.u%d\t1\tuse_module(library(%s))." % (cid, i, u))
    ls.append("L\t%s.l\tuser\t%s" % (cid, esc(full_prog())))
    return ls


QI_RE = re.compile(r"i=(\d+) at=(\d+) \| (.*)$", re.S)


def parse_qi(r):
    m = QI_RE.match(r or "")
    if not m:
        return None, None, r or "missing"
    return int(m.group(1)), int(m.group(2)), m.group(3)


def mk_count_case(name, shape, pad):
    """the unfaulted run: instruction count and reference answer."""
    cid = "c/%s/%s/%d" % (name, shape, pad)
    q = query_text(name, shape, pad)
    ls = setup_lines(cid)
    ls.append("Q\t%s.z\t1\tretractall(cl31(_)), retractall(f31(_))." % cid)
    ls.append("QI\t%s.f\t0\t1\t%s" % (cid, q))
    return {"id": cid, "template": name, "shape": shape, "pad": pad, "impl": ls, "query": q}


def mk_sweep_case(name, shape, pad, ns, total):
    """one case = one template/shape/pad with all its interrupt points (same machine throughout)."""
    cid = "s/%s/%s/%d" % (name, shape, pad)
    q = query_text(name, shape, pad)
    ls = setup_lines(cid)
    model = []
    for n in ns:
        ls.append("Q\t%s.%d.z\t1\tretractall(cl31(_)), retractall(f31(_))." % (cid, n))
        ls.append("QI\t%s.%d.f\t%d\t1\t%s" % (cid, n, n, q))
        ls.append("Q\t%s.%d.c\t1\tfindall(X, cl31(X), Cl)." % (cid, n))
        ls.append("Q\t%s.%d.p\t1\t%s" % (cid, n, PROBE))
    return {"id": cid, "template": name, "shape": shape, "pad": pad, "ns": list(ns), "total": total,
            "impl": ls, "model": model, "query": q}


def classify(res, ref):
    if res is None:
        return "missing"
    if res.startswith("panic("):
        return "panic"
    if res.startswith("abort(") or res.startswith("skipped("):
        return "abort"
    if res.startswith("timeout"):
        return "timeout"
    if "E='$interrupt_thrown'" in res:
        return "caught"
    if res.startswith("error('error'('$interrupt_thrown','/'('repl',0)))"):
        return "uncaught_documented"
    if ref is not None and res == ref:
        return "normal"
    if res.startswith("false"):
        return "failed"
    if res.startswith("error(") or res.startswith("exception("):
        return "other_exception"
    return "wrong_answer"


def window_points(total, rng, limit, dense_edges=2):
    """one n per polling window of 1..total (all n of a window give the same run), window choice
    sampled down to `limit`, plus both edges of the first/last windows."""
    wins = list(range(0, total // PERIOD + 1))
    pts = set()
    for w in wins:
        lo, hi = w * PERIOD + 1, min((w + 1) * PERIOD, total)
        if lo > total:
            break
        pts.add(rng.randint(lo, hi))
    pts = sorted(pts)
    if limit and len(pts) > limit:
        keep = set(pts[:dense_edges]) | set(pts[-dense_edges:])
        rest = [p for p in pts if p not in keep]
        rng.shuffle(rest)
        keep |= set(rest[: max(0, limit - len(keep))])
        pts = sorted(keep)
    # window edges (exactly on / just after a poll) for the first windows
    for w in range(1, min(3, total // PERIOD + 1)):
        for p in (w * PERIOD, w * PERIOD + 1):
            if 1 <= p <= total:
                pts.append(p)
    pts.append(total)          # raised at the very last instruction: not consumed by this query
    pts.append(total + 50)     # never raised
    return sorted(set(pts))


def s_cases():
    """reference-interpreter tie: explicit throw at label j on the implementation vs solveInj."""
    prog = ("mkt31(0,_,[]).\nmkt31(N,J,[N|T]) :- N > 0, ( N =:= J -> throw(error('$interrupt_thrown', repl/0)) ; true ), "
            "M is N-1, mkt31(M,J,T).\n")
    out = []
    for j in range(0, 8):
        cid = "S/%d" % j
        ls = ["L\t%s.l\tuser\t%s" % (cid, esc(prog)),
              "QI\t%s.q\t0\t1\tcatch(mkt31(5,%d,L), error(E,_), true), X = done, ( var(L) -> LB = unbound ; LB = bound ), ( var(E) -> EB = none ; EB = E )." % (cid, j)]
        out.append({"id": cid, "impl": ls, "model": ["S\t%s.m\t5\t%d" % (cid, j)], "j": j})
    return out


def judge_s(c, impl, model):
    r = impl.get(c["id"] + ".q", "missing")
    m = model.get(c["id"] + ".m", "missing")
    mm = re.match(r"E=(\S+) L=(\S+) X=(\S+)", m)
    if not mm:
        return "model:%s" % m
    e, l, x = mm.groups()
    exp_e = "EB='none'" if e == '-' else "EB='%s'" % e
    ok = (exp_e in r) and ("LB='%s'" % l in r) and ("X='%s'" % x in r)
    return None if ok else "impl=%s model=%s" % (r[:200], m)


def run(ctx):
    tier, rng = ctx["tier"], ctx["rng"]
    env = {"SV_TIMEOUT_MS": "60000"}
    findings = []

    rep = diff.replay_case(ctx)
    if rep is not None:
        for c in rep:
            impl, model = diff.run_cases([c], impl_env=env, parallel=False)
            for l in c["impl"]:
                i = core.line_id(l)
                print("impl", i, impl.get(i))
            for i, v in model.items():
                print("model", i, v)
        return {"evaluations": len(rep), "distinct_nontrivial": 0, "rule": "replay", "samples": [],
                "traces_validated_against_impl": 0, "disagreements_checked": 0, "findings": []}

    names = [t[0] for t in TEMPLATES]
    if tier == "quick":
        sel = ["nop", "loop"] + rng.sample([n for n in names if n not in ("nop", "loop")], 8)
        combos = [(n, "caught", 0) for n in sel]
        combos += [(sel[2], "inner_nomatch", 0), (sel[3], "uncaught", 0), ("loop", "scc", 0), (sel[4], "caught", rng.randint(1, 120)),
                   ("loop", "then_loop", 0)]
        limit = 14
    else:
        combos = []
        for n in names:
            for pad in (0, 1, 2, 7, 31, 100):
                combos.append((n, "caught", pad))
            combos.append((n, "inner_nomatch", 0))
            combos.append((n, "uncaught", 0))
            combos.append((n, "scc", 0))
            combos.append((n, "scc", 53))
            combos.append((n, "then_loop", 0))
        limit = 0

    # phase 1: unfaulted runs
    ccases = [mk_count_case(n, sh, pad) for (n, sh, pad) in combos]
    impl, _ = diff.run_cases(ccases, impl_env=env)
    info = {}
    evaluations = 0
    for c in ccases:
        i, at, r = parse_qi(impl.get(c["id"] + ".f"))
        evaluations += 1
        key = (c["template"], c["shape"], c["pad"])
        if i is None or not (r.startswith("{") and "R=" in r):
            findings.append(core.Finding("violation", {"template": c["template"], "shape": c["shape"], "class": "unfaulted-run-broken"},
                                         "unfaulted run of the template did not give an answer: %s" % (r[:300],), c))
            continue
        info[key] = (i, r)
    nop_total = info.get(("nop", "caught", 0), (0, ""))[0]

    # phase 2: sweeps
    scases = []
    for key in combos:
        if key not in info:
            continue
        total, ref = info[key]
        ns = window_points(total, rng, limit)
        sc = mk_sweep_case(key[0], key[1], key[2], ns, total)
        sc["ref"] = ref
        for n in ns:
            # model ticks are the boundaries BETWEEN dispatched instructions (the poll sits at the top of
            # the next loop iteration): a run of `total` instructions has total-1 of them
            sc["model"].append("D\t%s.%d.m\t%d\t%d\t%d" % (sc["id"], n, PERIOD, n, max(total - 1, 0)))
        scases.append(sc)
    scases += s_cases()
    impl, model = diff.run_cases(scases, impl_env=env)

    classes = {}
    agree = 0
    disagree = 0
    delivered_points = set()
    samples = []
    retried = 0
    for c in scases:
        if "j" in c:
            evaluations += 1
            bad = judge_s(c, impl, model)
            if bad:
                disagree += 1
                findings.append(core.Finding("disagreement", {"kind": "reference-interpreter", "j": str(c["j"])}, bad, c))
            else:
                agree += 1
            continue
        ref = c["ref"]
        for n in c["ns"]:
            evaluations += 1
            rid = "%s.%d" % (c["id"], n)
            i, at, r = parse_qi(impl.get(rid + ".f"))
            cls = classify(r, ref)
            if cls in ("timeout", "missing") and retried < 40:
                # load: re-run this point alone
                retried += 1
                one = mk_sweep_case(c["template"], c["shape"], c["pad"], [n], c["total"])
                im2 = core.run_impl(one["impl"], env=env)
                impl.update(im2)
                i, at, r = parse_qi(impl.get(rid + ".f"))
                cls = classify(r, ref)
            pr = impl.get(rid + ".p")
            cl = impl.get(rid + ".c", "")
            m = model.get(rid + ".m", "")
            mm = re.match(r"at=(\d+) point=(\d+)", m)
            m_at = int(mm.group(1)) if mm else -1
            classes[cls] = classes.get(cls, 0) + 1
            single = {"id": rid, "template": c["template"], "shape": c["shape"], "pad": c["pad"], "n": n,
                      "impl": setup_lines(rid) + [l for l in c["impl"] if l.split("\t")[1].startswith(rid + ".")],
                      "model": ["D\t%s.m\t%d\t%d\t%d" % (rid, PERIOD, n, max(c["total"] - 1, 0))]}
            if len(samples) < 6:
                samples.append({"query": c["query"], "n": n, "impl": (impl.get(rid + ".f") or "")[:160], "model": m})
            sig = None
            detail = None
            if at is None:
                sig = {"template": c["template"], "shape": c["shape"], "class": cls}
                detail = "no result: %s" % (r[:200],)
            elif at > 0:
                delivered_points.add((c["template"], c["shape"], c["pad"], at))
                okset = ("caught", "uncaught_documented") if c["shape"] != "uncaught" else ("uncaught_documented",)
                if cls not in okset:
                    phase = "expansion" if at <= nop_total else "body"
                    if cls == "normal":
                        sig = {"class": "swallowed", "phase": phase, "shape": c["shape"]}
                        detail = ("interrupt raised before instruction %d was consumed by the poll at instruction %d, but the query "
                                  "completed normally (%d instructions): %s" % (n, at, i, r[:200]))
                    else:
                        sig = {"class": cls, "phase": phase, "shape": c["shape"], "template": c["template"]}
                        detail = "interrupt consumed at instruction %d; result is not the documented exception: %s" % (at, r[:300])
                elif c["shape"] == "scc" and cls == "caught" and nop_total and at > nop_total + 300 and at < c["total"] - 300:
                    # interrupt arrived while the goal of setup_call_cleanup/3 was running
                    if cl.count("'c'") != 1 and 'Cl="c"' not in cl:
                        sig = {"class": "cleanup-not-run", "shape": "scc", "template": c["template"]}
                        detail = "interrupt at instruction %d inside setup_call_cleanup/3's goal: clean-up ran %s" % (at, cl[:100])
            else:
                # not consumed by this query: the normal answer is required
                if cls != "normal":
                    sig = {"class": "no-delivery-" + cls, "shape": c["shape"], "template": c["template"]}
                    detail = "flag not consumed (raised before instruction %d of %d) but the result is %s" % (n, i, r[:300])
            if sig is None and pr != PROBE_EXPECT:
                sig = {"class": "probe-wrong", "shape": c["shape"], "template": c["template"]}
                detail = "follow-up probe after interrupt at %d: %s" % (n, (pr or "missing")[:300])
            if sig is not None:
                findings.append(core.Finding("violation", sig, detail, single))
                if cls in ("panic", "abort", "missing"):
                    # the machine was discarded: the remaining points of this case ran without the program
                    classes["skipped-after-panic"] = classes.get("skipped-after-panic", 0) + (len(c["ns"]) - c["ns"].index(n) - 1)
                    break
                continue
            # correspondence with the polling model
            if at is not None and m_at >= 0:
                if at == m_at:
                    agree += 1
                elif at > 0 and n <= at < n + PERIOD:
                    # delivered within one period but in another phase (nested dispatch loop): allowed
                    agree += 1
                    classes["phase-shifted"] = classes.get("phase-shifted", 0) + 1
                else:
                    disagree += 1
                    findings.append(core.Finding("violation" if (at > 0 and at < n) or (at == 0 and m_at > 0 and i >= m_at) or (at >= n + PERIOD) else "disagreement",
                                                 {"class": "delivery-point", "shape": c["shape"], "template": c["template"]},
                                                 "flag raised before instruction %d of %d: consumed at %d, model says %d" % (n, i, at, m_at), single))
    # inside the goal's own catch/3 the interrupt must be CAUGHT: an uncaught report between two caught
    # ones of the same sweep means the handler ran and the interrupt was delivered again (or escaped)
    for c in scases:
        if "j" in c or c["shape"] == "uncaught":
            continue
        pts = []
        for n in c["ns"]:
            rid = "%s.%d" % (c["id"], n)
            i, at, r = parse_qi(impl.get(rid + ".f"))
            if at:
                pts.append((at, classify(r, c["ref"]), n))
        caught_at = [a for a, cl, _ in pts if cl == "caught"]
        if not caught_at:
            if len(pts) > 6 and c["total"] > nop_total + 4 * PERIOD:
                findings.append(core.Finding("violation", {"class": "never-caught", "shape": c["shape"], "template": c["template"]},
                                             "no interrupt point of this sweep was caught by the goal's own catch/3 (%d delivered)" % len(pts), c))
            continue
        lo, hi = min(caught_at), max(caught_at)
        for a, cl, n in pts:
            if lo < a < hi and cl == "uncaught_documented":
                findings.append(core.Finding("violation", {"class": "escaped-own-catch", "shape": c["shape"], "template": c["template"]},
                                             "interrupt consumed at instruction %d (inside the goal: caught at %d and %d) was not caught by the goal's catch/3" % (a, lo, hi),
                                             mk_sweep_case(c["template"], c["shape"], c["pad"], [n], c["total"])))
                break
    return {
        "evaluations": evaluations,
        "distinct_nontrivial": len(delivered_points),
        "rule": "one run per (template, wrapper shape, padding, polling window): distinct = distinct (template, shape, padding, delivery instruction) at which the interrupt was actually delivered",
        "samples": samples,
        "traces_validated_against_impl": agree,
        "disagreements_checked": disagree,
        "findings": findings,
        "outcome_classes": classes,
        "templates": sorted(set(k[0] for k in combos)),
        "combos": len(combos),
        "retried": retried,
        "exhaustive": False,
    }
