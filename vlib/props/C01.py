"""C01 — Integer arithmetic is exact at every magnitude."""
from .. import core, diff, arith_gen as ag

LEVEL = "proof"
TRUSTED_BASE = [
    "dashu Integer primitives (+ - * / % gcd pow << >> & | ^ !) are modelled by the exact Int operation; the correspondence run compares them on every generated line",
    "Python big-int reference in vlib/arith_gen.py is used to bound result sizes and as a third opinion (not part of the proof)",
]
ASSUMPTIONS = [
    "expressions whose exact value exceeds %d bits are not sent to the implementation (allocation of such bignums is C30's subject)" % ag.MAXBITS,
]


def make_case(i, e):
    q = "catch(X is %s, error(Err,_), true)." % ag.to_prolog(e)
    return {"id": "a%d" % i, "expr": ag.to_model(e), "prolog": q,
            "impl": ["Q\ta%d\t2\t%s" % (i, q)],
            "model": ["arith\ta%d\t%s" % (i, ag.to_model(e)), "arithspec\ts%d\t%s" % (i, ag.to_model(e))]}


def boundary_pairs():
    """every binary functor over the boundary set (thorough: exhaustive over this finite set)."""
    out = []
    B = ag.BOUND
    for op in ag.BIN:
        for a in B:
            rhs = B if op not in ("shl", "shr", "pow") else (
                [s for s in ag.SHIFTS] + [-s for s in ag.SHIFTS] if op != "pow" else
                [0, 1, 2, 3, 5, 31, 32, 55, 56, 63, 64, -1, -2, 2 ** 32, 2 ** 64])
            for b in rhs:
                out.append((op, a, b))
    for op in ag.UN:
        for a in B:
            out.append((op, a))
    return out


def run(ctx):
    rng, tier = ctx["rng"], ctx["tier"]
    cases, meta = [], {}
    exprs = []
    rep = diff.replay_case(ctx)
    if rep is not None:
        cases = rep
    else:
        cases = diff.load_corpus("C01")
        n = 4000 if tier == "quick" else 150000
        if tier == "thorough":
            exprs.extend(boundary_pairs())
        else:
            bp = boundary_pairs()
            exprs.extend(rng.sample(bp, 2500))
        for _ in range(n):
            e, ref, tr = ag.gen_bounded(rng, rng.choice([1, 1, 2, 2, 3, 4]))
            exprs.append(e)
        k = len(cases)
        for e in exprs:
            tr = []
            try:
                v = ag.ref_eval(e, tr)
                ref = "ok %d" % v
            except ag.EvalErr as x:
                ref = x.kind
            except ag.TooBig:
                continue
            c = make_case(k, e)
            c["ref"] = ref
            c["nontrivial"] = ag.nontrivial(e, ref, tr)
            cases.append(c)
            k += 1
    impl, model = diff.run_cases(cases)
    findings = []
    agree = 0
    distinct = set()
    err_kinds = {}
    reprs = {"fix": 0, "big": 0}
    for c in cases:
        i = c["id"]
        iv = ag.canon_impl_answer(impl.get(i, "missing"))
        mv_full = model.get(i, "missing")
        mv = " ".join(mv_full.split(" ")[:2]) if mv_full.startswith("ok") else mv_full
        sv = model.get("s" + i[1:], "missing")
        if mv_full.startswith("ok"):
            reprs[mv_full.split(" ")[2]] = reprs.get(mv_full.split(" ")[2], 0) + 1
        if mv.startswith("err"):
            err_kinds[mv.split(" ")[1]] = err_kinds.get(mv.split(" ")[1], 0) + 1
        if c.get("nontrivial", True):
            distinct.add(c["expr"])
        ref = c.get("ref")
        if rep is not None:
            print("replay %s: impl=%s model=%s spec=%s ref=%s" % (c.get("prolog"), iv, mv, sv, ref))
        if iv == mv == sv and (ref is None or ref == sv):
            agree += 1
            continue
        # the model of the mechanism, the ℤ specification (a theorem says they agree) and the
        # implementation: the spec value is the oracle of this functional property.
        op = c["expr"].split(" ")[1] if c["expr"].startswith("(") else "lit"
        sig = {"family": "arith", "expr": c["expr"], "op": op, "impl": iv, "spec": sv, "model": mv}
        if iv != sv:
            findings.append(core.Finding("violation", sig,
                                         "implementation result differs from the exact integer value",
                                         {k: c[k] for k in ("id", "expr", "prolog", "impl", "model")}))
        else:
            findings.append(core.Finding("disagreement", sig,
                                         "mechanism model differs from implementation/spec (model defect or changed mechanism)",
                                         {k: c[k] for k in ("id", "expr", "prolog", "impl", "model")}))
    return {
        "evaluations": len(cases),
        "distinct_nontrivial": len(distinct),
        "rule": "expression trees (depth<=4) over all C01 functors with leaves from the boundary set {0,±1,±2^31,±2^55,±2^63,±2^64,…}±2 and random 30-300 bit values, plus (thorough: all / quick: 2500 sampled) operator×boundary×boundary triples; non-trivial = some leaf or intermediate value outside the 56-bit fixnum range, or an evaluation error; distinct by expression text",
        "samples": [c["prolog"] for c in cases[:3]] + [c["prolog"] for c in cases[-3:]],
        "traces_validated_against_impl": agree,
        "disagreements_checked": len(cases) - agree,
        "error_kinds_hit": err_kinds,
        "result_representation": reprs,
        "exhaustive": False,
        "findings": findings,
    }
