"""C22 — Atom and character builtins agree with their string semantics.

Every case is one goal `op(args)`; the implementation's ordered answer list / error formal is compared
with the Lean model's (lean/ScryerModel/Model/AtomOps.lean through drv_C22) after parsing both into the
same term structure (strings, lists and partial lists are normalised)."""
import struct
import unicodedata

from .. import core, diff

LEVEL = "proof"
TRUSTED_BASE = [
    "vlib/props/C22.py renders one abstract goal both as Prolog text (quoted atoms with \\xHH\\ escapes for control / boundary characters) and as canonical terms for drv_C22; both renderings come from the same tuple tree",
    "char_type/2 on non-ASCII characters: the six Unicode class bits (alphabetic numeric whitespace control lowercase uppercase) are taken from the implementation's own answer and passed to the model as the host parameter (only the derived classes and the answer order are checked there); to_uppercase/to_lowercase of a curated list of long-stable characters come from Python's str.upper()/str.lower()",
    "error contexts (second argument of error/2) are not compared, only the formal",
]
ASSUMPTIONS = [
    "list arguments with an atom other than [] as tail ([a|foo]) are not generated: the library API panics when converting such a term (noted in notes/findings-misc.md); integer / float / compound tails are used instead",
    "a trailing `false` (left-over choice point) is not compared: only the answers",
]

MAXANS = 1000000

# ------------------------------------------------------------------ terms
# ('v',name) ('i',n) ('a',text) ('f',hex16) ('s',functor,[args]) ('l',[elems],tail)  (tail is never a list)

NIL = ('a', '[]')


def A(s):
    return ('a', s)


def I(n):
    return ('i', n)


def V(n):
    return ('v', n)


def F(x):
    return ('f', "%016x" % struct.unpack(">Q", struct.pack(">d", x))[0], x)


def S(f, *args):
    return ('s', f, list(args))


def L(elems, tail=NIL):
    elems = list(elems)
    if tail[0] == 'l':
        elems, tail = elems + list(tail[1]), tail[2]
    if not elems:
        return tail
    return ('l', elems, tail)


def chars(s, tail=NIL):
    return L([A(c) for c in s], tail)


def codes(s, tail=NIL):
    return L([I(ord(c)) for c in s], tail)


def plain_char(c):
    o = ord(c)
    if o < 0x20 or 0x7f <= o < 0xa1:
        return False
    if o < 0x7f:
        return True
    cat = unicodedata.category(c)
    return cat[0] in "LNPS" and cat not in ("Cn", "Co", "Cs") and (o & 0xfffe) != 0xfffe


def esc_prolog(s, q):
    out = []
    for c in s:
        if c == '\\':
            out.append('\\\\')
        elif c == q:
            out.append('\\' + q)
        elif plain_char(c) or c == ' ' or unicodedata.category(c) == 'Mn':
            out.append(c)
        else:
            out.append('\\x%x\\' % ord(c))
    return ''.join(out)


def esc_canon(s, q):
    out = []
    for c in s:
        if c == '\\':
            out.append('\\\\')
        elif c == q:
            out.append('\\' + q)
        elif ord(c) < 0x20 or 0x7f <= ord(c) < 0xa1 or not plain_char(c):
            out.append('\\x%x\\' % ord(c))
        else:
            out.append(c)
    return ''.join(out)


def is_charlist(t):
    return t[0] == 'l' and t[2] == NIL and all(e[0] == 'a' and len(e[1]) == 1 for e in t[1])


def to_prolog(t, strings=True):
    k = t[0]
    if k == 'v':
        return t[1]
    if k == 'i':
        return str(t[1]) if t[1] >= 0 else "(%d)" % t[1]
    if k == 'f':
        return repr(t[2])
    if k == 'a':
        if t[1] in ('[]', '{}'):
            return t[1]
        return "'" + esc_prolog(t[1], "'") + "'"
    if k == 's':
        return "'" + esc_prolog(t[1], "'") + "'(" + ",".join(to_prolog(a, strings) for a in t[2]) + ")"
    if k == 'l':
        if strings and is_charlist(t):
            return '"' + esc_prolog(''.join(e[1] for e in t[1]), '"') + '"'
        body = ",".join(to_prolog(e, strings) for e in t[1])
        return "[" + body + ("]" if t[2] == NIL else "|" + to_prolog(t[2], strings) + "]")
    raise ValueError(t)


def to_canon(t):
    k = t[0]
    if k == 'v':
        return t[1]
    if k == 'i':
        return str(t[1])
    if k == 'f':
        return "f(%s)" % t[1]
    if k == 'a':
        return "[]" if t[1] == '[]' else "'" + esc_canon(t[1], "'") + "'"
    if k == 's':
        return "'" + esc_canon(t[1], "'") + "'(" + ",".join(to_canon(a) for a in t[2]) + ")"
    if k == 'l':
        if t[2] == NIL:
            if is_charlist(t):
                return '"' + esc_canon(''.join(e[1] for e in t[1]), '"') + '"'
            return "[" + ",".join(to_canon(e) for e in t[1]) + "]"
        out = to_canon(t[2])
        for e in reversed(t[1]):
            out = "'.'(" + to_canon(e) + "," + out + ")"
        return out
    raise ValueError(t)


def rename_vars(t, m=None):
    """variables renamed by first occurrence (the harness prints _G0…, the model the given names)"""
    m = {} if m is None else m
    k = t[0]
    if k == 'v':
        return ('v', m.setdefault(t[1], "_%d" % len(m)))
    if k == 's':
        return ('s', t[1], [rename_vars(a, m) for a in t[2]])
    if k == 'l':
        return ('l', [rename_vars(a, m) for a in t[1]], rename_vars(t[2], m))
    return t


class P:
    """parser of the canonical syntax (harness/src/canon.rs, Drv/TermIO.lean)."""

    def __init__(self, s):
        self.s, self.i = s, 0

    def quoted(self, q):
        s, i, out = self.s, self.i, []
        while True:
            c = s[i]
            if c == '\\':
                d = s[i + 1]
                if d == 'x':
                    j = s.index('\\', i + 2)
                    out.append(chr(int(s[i + 2:j], 16)))
                    i = j + 1
                else:
                    out.append(d)
                    i += 2
            elif c == q:
                self.i = i + 1
                return ''.join(out)
            else:
                out.append(c)
                i += 1

    def args(self, close):
        out = []
        while True:
            out.append(self.term())
            c = self.s[self.i]
            self.i += 1
            if c == close:
                return out
            if c != ',':
                raise ValueError("bad separator %r at %d in %r" % (c, self.i, self.s[:200]))

    def term(self):
        s = self.s
        c = s[self.i]
        if c == "'":
            self.i += 1
            name = self.quoted("'")
            if self.i < len(s) and s[self.i] == '(':
                self.i += 1
                a = self.args(')')
                if name == '.' and len(a) == 2:
                    return L([a[0]], a[1])
                return ('s', name, a)
            return ('a', name)
        if c == '"':
            self.i += 1
            return chars(self.quoted('"'))
        if c == '[':
            if s[self.i + 1] == ']':
                self.i += 2
                return NIL
            self.i += 1
            return L(self.args(']'))
        if s.startswith("f(", self.i):
            j = s.index(')', self.i)
            h = s[self.i + 2:j]
            self.i = j + 1
            return ('f', h, struct.unpack(">d", struct.pack(">Q", int(h, 16)))[0])
        if s.startswith("r(", self.i):
            j = s.index(')', self.i)
            n, d = s[self.i + 2:j].split(",")
            self.i = j + 1
            return ('s', 'r', [I(int(n)), I(int(d))])
        j = self.i
        if c == '-' or c.isdigit():
            j += 1
            while j < len(s) and s[j].isdigit():
                j += 1
            self.i, v = j, int(s[self.i:j])
            return ('i', v)
        while j < len(s) and (s[j].isalnum() or s[j] == '_'):
            j += 1
        if j == self.i:
            raise ValueError("cannot parse at %d: %r" % (j, s[:200]))
        self.i, name = j, s[self.i:j]
        return ('v', name)


def parse_answer(a):
    """'true' | '{X=t,Y=t}' -> dict"""
    if a == 'true':
        return {}
    if not a.startswith('{'):
        raise ValueError("not an answer: %r" % a[:100])
    p = P(a)
    p.i = 1
    out = {}
    if a[1] == '}':
        return out
    while True:
        j = a.index('=', p.i)
        name = a[p.i:j]
        p.i = j + 1
        out[name] = p.term()
        c = a[p.i]
        p.i += 1
        if c == '}':
            return out
        if c != ',':
            raise ValueError("bad answer %r" % a[:200])


def parse_result(res, from_impl):
    """-> ('err', formal) | ('ans', [dict…], truncated) | ('bad', text)"""
    if res is None:
        return ('bad', 'missing')
    try:
        if res.startswith("error("):
            t = P(res[6:-1]).term()
            if from_impl:
                if t[0] == 's' and t[1] == 'error' and len(t[2]) == 2:
                    return ('err', t[2][0])
                return ('bad', res[:200])
            return ('err', t)
        if res.startswith(("panic(", "timeout", "abort(", "exception(", "skipped", "bad-op", "missing")):
            return ('bad', res[:200])
        parts = res.split(" ;; ")
        trunc = False
        if parts and parts[-1] == '...':
            parts, trunc = parts[:-1], True
        if parts and parts[-1] == 'false':
            parts = parts[:-1]
        return ('ans', [parse_answer(p) for p in parts], trunc)
    except Exception as e:  # noqa
        return ('bad', "unparsable (%s): %s" % (e, res[:200]))


# ------------------------------------------------------------------ generators

SPECIAL_ATOMS = ['', 'a', 'abc', 'hello world', '[]', '{}', '.', 'é', 'aé€😀', 'e\u0301', 'a\u0300\u0301b', 'a\x00b', '\x00',
                 '\x7f', '\x80', '\x7f\x80', '\u07ff\u0800', '\uffff\U00010000', '\U0010ffff', 'a\U0010ffffb', 'abab', 'aaa',
                 'aaaa', 'abcabcabc', 'ééé', 'éaéa', '😀😀', 'ab\u0301ab\u0301', "don't", 'a\\b', '"q"', 'a\nb', ' ', 'ß', 'İ', 'X', '_x', '0', '-1',
                 'true', 'e\u0301e\u0301']
ALPH_MIX = ['a', 'b', 'Z', '0', ' ', '_', 'é', 'ß', '€', '😀', '\u0301', '\x00', '\x7f', '\x80', '\u07ff', '\u0800', '\uffff',
            '\U00010000', '\U0010ffff', "'", '\\', '"', '\n', '\ud7ff', '\ue000']
BOUNDARY_CODES = [0, 1, 0x7f, 0x80, 0x7ff, 0x800, 0xd7ff, 0xe000, 0xfffd, 0xfffe, 0xffff, 0x10000, 0x10ffff]
BAD_CODES = [-1, -97, 0xd800, 0xdbff, 0xdc00, 0xdfff, 0x110000, 0x110000 + 97, 2 ** 31, 2 ** 32, 2 ** 32 + 97, 2 ** 53, -2 ** 31 - 1]
BIG_CODES = [2 ** 56, 2 ** 60 + 97, 2 ** 62, 2 ** 63, 2 ** 64 + 97, 2 ** 70, -2 ** 63, -2 ** 70, 10 ** 26]
BIG = 2 ** 55


def rand_atom(rng, maxlen=6):
    r = rng.random()
    if r < 0.3:
        return rng.choice(SPECIAL_ATOMS)
    n = rng.choice([0, 1, 1, 2, 2, 3, 3, 4, 5, 6])
    n = min(n, maxlen)
    if r < 0.55:
        return ''.join(rng.choice("ab") for _ in range(n))
    if r < 0.7:
        return ''.join(rng.choice(["a", "é", "😀"]) for _ in range(n))
    return ''.join(rng.choice(ALPH_MIX) for _ in range(n))


def rand_char(rng):
    r = rng.random()
    if r < 0.4:
        return chr(rng.randrange(0, 128))
    if r < 0.7:
        return rng.choice(ALPH_MIX)
    return chr(rng.choice(BOUNDARY_CODES))


def ill_for_atom(rng):
    return rng.choice([I(1), I(0), I(-3), F(1.5), S('f', A('x')), S('foo', I(1), A('b')), chars("ab"), L([A('a')]), L([I(97)]),
                       I(2 ** 70), S('-', A('a'), A('b'))])


def ill_for_int(rng):
    return rng.choice([A('a'), A('foo'), A('1'), A(''), F(1.0), F(0.0), F(-2.5), S('f', A('x')), chars("1"), L([I(1)]), NIL,
                       S('+', I(1), I(1))])


def mutate(rng, s):
    """a text near s"""
    cs = list(s)
    r = rng.random()
    if cs and r < 0.4:
        i = rng.randrange(len(cs))
        cs[i] = rng.choice(ALPH_MIX)
    elif cs and r < 0.6:
        del cs[rng.randrange(len(cs))]
    else:
        cs.insert(rng.randrange(len(cs) + 1), rng.choice(ALPH_MIX))
    return ''.join(cs)


class VarPool:
    def __init__(self, rng, alias=0.12):
        self.rng, self.n, self.alias = rng, 0, alias

    def new(self):
        if self.n and self.rng.random() < self.alias:
            return V("V%d" % self.rng.randrange(self.n))
        self.n += 1
        return V("V%d" % (self.n - 1))


def gen_atom_length(rng):
    vp = VarPool(rng)
    r = rng.random()
    if r < 0.72:
        s = rand_atom(rng, 8)
        a = A(s)
    elif r < 0.8:
        s, a = '', vp.new()
    else:
        s, a = '', ill_for_atom(rng)
    r = rng.random()
    if r < 0.4:
        l = vp.new()
    elif r < 0.55:
        l = I(len(s))
    elif r < 0.7:
        l = I(rng.choice([0, 1, 2, 3, len(s) + 1, len(s.encode()), 7]))
    elif r < 0.8:
        l = I(rng.choice([-1, -2, -2 ** 63, -2 ** 70]))
    elif r < 0.87:
        l = I(rng.choice([2 ** 55, 2 ** 62, 2 ** 63, 2 ** 64, 2 ** 64 + len(s), 2 ** 70]))
    else:
        l = ill_for_int(rng)
    return [a, l]


def gen_text_list(rng, s, codes_mode, vp):
    """a list pattern related to the text s"""
    mk = (lambda c: I(ord(c))) if codes_mode else (lambda c: A(c))
    elems = [mk(c) for c in s]
    r = rng.random()
    tail = NIL
    if r < 0.22:
        return vp.new()
    if r < 0.42:
        pass
    elif r < 0.6:
        k = rng.randrange(len(elems) + 1)
        elems, tail = elems[:k], vp.new()
    elif r < 0.7:
        elems = [mk(c) for c in mutate(rng, s)]
    elif r < 0.78:
        k = rng.randrange(len(elems) + 2)
        elems = (elems + [mk('z')])[:k]
        tail = rng.choice([I(1), F(1.5), S('f', A('x')), S('f', V('Y')), I(2 ** 70)])
    # replace elements
    for i in range(len(elems)):
        x = rng.random()
        if x < 0.12:
            elems[i] = vp.new()
        elif x < 0.17:
            if codes_mode:
                elems[i] = rng.choice([I(c) for c in BAD_CODES] + [A('a'), F(97.0), S('f', A('x')), S('f', V('Y')), A('')] +
                                      ([I(c) for c in BIG_CODES] if rng.random() < 0.5 else []))
            else:
                elems[i] = rng.choice([A('ab'), A(''), I(97), I(1), F(1.5), S('f', A('x')), S('f', V('Y')), NIL, A('[]'), chars("a"), A('éé')])
    return L(elems, tail)


def gen_atom_text(rng, codes_mode):
    vp = VarPool(rng)
    s = rand_atom(rng, 8)
    r = rng.random()
    if r < 0.5:
        a = A(s)
    elif r < 0.9:
        a = vp.new()
    else:
        a = ill_for_atom(rng)
    l = gen_text_list(rng, s, codes_mode, vp)
    if a[0] == 'v' and rng.random() < 0.6:
        # conversion direction: mostly ground lists
        l = L([(I(ord(c)) if codes_mode else A(c)) for c in s]) if rng.random() < 0.7 else l
    return [a, l]


def gen_char_code(rng):
    vp = VarPool(rng)
    ch = rand_char(rng)
    r = rng.random()
    if r < 0.4:
        c = A(ch)
    elif r < 0.75:
        c = vp.new()
    elif r < 0.88:
        c = A(rng.choice(['', 'ab', 'éé', '[]', 'a\u0301', '\x00\x00']))
    else:
        c = ill_for_atom(rng)
    r = rng.random()
    if r < 0.3:
        k = vp.new()
    elif r < 0.55:
        k = I(ord(ch))
    elif r < 0.65:
        k = I(rng.choice(BOUNDARY_CODES))
    elif r < 0.8:
        k = I(rng.choice(BAD_CODES))
    elif r < 0.88:
        k = I(rng.choice(BIG_CODES))
    else:
        k = ill_for_int(rng)
    return [c, k]


def gen_atom_concat(rng):
    vp = VarPool(rng, alias=0.2)
    z = rand_atom(rng, 7)
    if rng.random() < 0.15:
        h = rand_atom(rng, 3)
        z = h + h
    k = rng.randrange(len(z) + 1)
    x, y = z[:k], z[k:]

    def pick(right):
        r = rng.random()
        if r < 0.42:
            return vp.new()
        if r < 0.8:
            return A(right)
        if r < 0.92:
            return A(mutate(rng, right) if rng.random() < 0.6 else rand_atom(rng, 4))
        return ill_for_atom(rng)
    return [pick(x), pick(y), pick(z)]


def gen_sub_atom(rng, maxlen=6):
    vp = VarPool(rng, alias=0.1)
    s = rand_atom(rng, maxlen)
    n = len(s)
    b = rng.randrange(n + 1)
    l = rng.randrange(n - b + 1)
    a = n - b - l
    r = rng.random()
    if r < 0.88:
        atm = A(s)
    elif r < 0.94:
        atm = vp.new()
    else:
        atm = ill_for_atom(rng)

    def pick_int(right):
        r = rng.random()
        if r < 0.5:
            return vp.new()
        if r < 0.8:
            return I(right)
        if r < 0.88:
            return I(rng.randrange(0, n + 2))
        if r < 0.92:
            return I(rng.choice([-1, -2, -2 ** 70]))
        if r < 0.95:
            return I(rng.choice([2 ** 56, 2 ** 64, 2 ** 64 + right]))
        return ill_for_int(rng)
    r = rng.random()
    ints = [pick_int(b), pick_int(l), pick_int(a)]
    if r < 0.5:
        # never aliased with Before/Length/After (see notes/design/C22.md, "sub_atom aliasing")
        sub = V("S")
    elif r < 0.8:
        sub = A(s[b:b + l])
    elif r < 0.93:
        sub = A(mutate(rng, s[b:b + l]) if rng.random() < 0.5 else rand_atom(rng, 2))
    else:
        sub = ill_for_atom(rng)
    return [atm] + ints + [sub]


CTYPES = ["alnum", "alpha", "alphabetic", "alphanumeric", "ascii", "ascii_graphic", "ascii_punctuation", "binary_digit", "control",
          "decimal_digit", "exponent", "graphic", "graphic_token", "hexadecimal_digit", "layout", "lower", "meta", "numeric",
          "octal_digit", "octet", "prolog", "sign", "solo", "symbolic_control", "symbolic_hexadecimal", "upper", "whitespace"]
INFO_FREE = ["ascii", "ascii_graphic", "ascii_punctuation", "binary_digit", "decimal_digit", "exponent", "graphic", "graphic_token",
             "hexadecimal_digit", "layout", "meta", "octal_digit", "octet", "sign", "solo", "symbolic_control", "symbolic_hexadecimal"]
INFO_BITS = ["alphabetic", "numeric", "whitespace", "control", "lower", "upper"]

# characters whose case mappings have been stable for a long time (Python's tables are older than Rust's)
STABLE_CASE = ([chr(c) for c in range(0xa1, 0x180)] + [chr(c) for c in range(0x391, 0x3ca) if c != 0x3a2] +
               [chr(c) for c in range(0x410, 0x450)] + list("ßŉǰİıſﬁﬀΐᾳǅǄǆΣςσµÿŸ"))
OTHER_NONASCII = ['\xff', '\u0100', '€', '😀', '\u0301', '\x80', '\x85', '\xa0', '\u07ff', '\u0800', '\u2028', '\u3000', '\uffff', '\U00010000', '\U0010ffff',
                  '\u0660', '\u00b2', '\u2160', '\u216f', '\u2170', '\u4e00', '\u00aa', '\u02b0', '\u1d2c', '\ufeff', '\u200b', '\ue000',
                  '\u0345', '\u1e9e', '\ua7cb', '\u0264']


def gen_char_type_misc(rng):
    """mode / error table of char_type/2 on ASCII characters"""
    vp = VarPool(rng, alias=0.1)
    ch = chr(rng.randrange(0, 128))
    r = rng.random()
    if r < 0.7:
        c = A(ch)
    elif r < 0.82:
        c = vp.new()
    elif r < 0.92:
        c = A(rng.choice(['', 'ab', '[]', 'éé']))
    else:
        c = ill_for_atom(rng)
    r = rng.random()
    if c[0] == 'v' and r < 0.75:
        r = r / 0.75 * 0.45
    if r < 0.35:
        t = A(rng.choice(CTYPES))
    elif r < 0.45:
        t = vp.new()
    elif r < 0.75:
        f = rng.choice(['upper', 'lower'])
        m = ch.upper() if f == 'upper' else ch.lower()
        x = rng.random()
        if x < 0.3:
            u = vp.new()
        elif x < 0.5:
            u = chars(m)
        elif x < 0.6:
            u = chars(ch.swapcase())
        elif x < 0.7:
            u = L([vp.new()], vp.new())
        elif x < 0.8:
            u = L([vp.new()])
        else:
            u = rng.choice([A('foo'), I(1), chars("ab"), L([A('a')], I(1)), A(m), L([I(ord(m))]), NIL, S('f', vp.new())])
        t = S(f, u)
    else:
        t = rng.choice([A('foo'), A('digit'), A('space'), A('punct'), A('csym'), A('to_lower'), I(1), F(1.5), S('upper', A('a'), A('b')),
                        S('to_lower', vp.new()), S('alpha', A('a')), chars("alpha"), NIL])
    return [c, t]


def is_ground(t):
    if t[0] == 'v':
        return False
    if t[0] == 's':
        return all(is_ground(a) for a in t[2])
    if t[0] == 'l':
        return all(is_ground(a) for a in t[1]) and is_ground(t[2])
    return True


def goal_text(op, args, strings):
    return "%s(%s)." % (op, ",".join(to_prolog(a, strings) for a in args))


def hesc(s):
    return s.replace("\\", "\\\\").replace("\n", "\\n").replace("\t", "\\t").replace("\r", "\\r")


def mk_case(i, op, args, rng=None, maxans=MAXANS, extra=None, strings=None):
    if strings is None:
        strings = True if rng is None else rng.random() < 0.6
    c = {"id": "c%d" % i, "op": op, "args": [to_canon(a) for a in args], "goal": goal_text(op, args, strings), "max": maxans}
    if extra:
        c.update(extra)
    return c


def impl_lines(c):
    pre = ["Q\tu%s\t1\tuse_module(library(charsio))." % c["id"][1:]] if c["op"] == "char_type" else []
    return pre + ["Q\t%s\t%d\t%s" % (c["id"], c["max"], hesc(c["goal"]))]


def info_from_impl(c, impl_res):
    """host parameter for one non-ASCII character: class bits from the implementation's own answers,
    case mappings from Python for characters with stable mappings, else from the implementation."""
    ch = c["char"]
    pr = parse_result(impl_res, True)
    if pr[0] != 'ans':
        return None
    names, up, lo = set(), None, None
    for a in pr[1]:
        t = a.get("T")
        if t is None:
            return None
        if t[0] == 'a':
            names.add(t[1])
        elif t[0] == 's' and t[1] in ('upper', 'lower') and len(t[2]) == 1 and is_charlist(t[2][0]):
            txt = ''.join(e[1] for e in t[2][0][1])
            if t[1] == 'upper':
                up = txt
            else:
                lo = txt
    bits = ''.join('1' if n in names else '0' for n in INFO_BITS)
    stable = ch in STABLE_CASE
    if stable:
        up, lo = ch.upper(), ch.lower()
    elif up is None:
        return None
    else:
        lo = ch.lower() if lo is None else lo      # the implementation's own lower(_) is what is compared apart
        c["lower_from_impl"] = True
    return "%x:%s:%s:%s" % (ord(ch), bits, ".".join("%x" % ord(x) for x in up), ".".join("%x" % ord(x) for x in lo))


def model_line(c, impl):
    if c["op"] == "char_type":
        info = c.get("info", "-")
        if info == "from-impl":
            info = info_from_impl(c, impl.get(c["id"])) or "-"
        return "char_type\t%s\t%d\t%s\t%s" % (c["id"], c.get("limit", 128), info, "\t".join(c["args"]))
    return "%s\t%s\t%s" % (c["op"], c["id"], "\t".join(c["args"]))


def has_big_code(c):
    def big(t):
        if t[0] == 'i':
            return abs(t[1]) >= BIG
        if t[0] == 's':
            return any(big(a) for a in t[2])
        if t[0] == 'l':
            return any(big(a) for a in t[1]) or big(t[2])
        return False
    return any(big(P(a).term()) for a in c["args"])


def split_lower(ans):
    """answers of char_type with T unbound: (answers without the lower(_) entry, the lower(_) entries)"""
    rest, low = [], []
    for a in ans:
        if any(t[0] == 's' and t[1] == 'lower' and len(t[2]) == 1 for t in a.values()):
            low.append(a)
        else:
            rest.append(a)
    return rest, low


def short(x, n=160):
    s = str(x)
    return s if len(s) <= n else s[:n] + "…"


def judge(c, ires, mres):
    """-> list of (kind, sig, detail); empty = agreement"""
    op = c["op"]
    pi, pm = parse_result(ires, True), parse_result(mres, False)
    out = []
    base = {"op": op}
    if pm[0] == 'bad':
        return [("disagreement", dict(base, defect="model-output-unusable", model=short(pm[1])), "the model driver gave no usable result")]
    if pi[0] == 'bad':
        if ires is not None and ires.startswith("panic(") and op in ("char_code", "atom_codes") and has_big_code(c) \
                and pm == ('err', ('s', 'representation_error', [A('character_code')])):
            return [("violation", dict(base, defect="bignum-code-panic"),
                     "a character code that does not fit the small-integer representation panics instead of raising representation_error(character_code): %s -> %s" % (c["goal"], short(ires)))]
        return [("violation", dict(base, defect="no-result", goal=short(c["goal"], 80), impl=short(pi[1], 80)),
                 "the implementation gave no answer list / error: %s -> %s (model: %s)" % (c["goal"], short(ires), short(mres)))]
    if pi[0] != pm[0]:
        return [("violation", dict(base, defect="error-vs-answers", goal=short(c["goal"], 80)),
                 "%s: implementation %s, model %s" % (c["goal"], short(ires), short(mres)))]
    if pi[0] == 'err':
        if rename_vars(pi[1]) != rename_vars(pm[1]):
            return [("violation", dict(base, defect="error-formal", goal=short(c["goal"], 80)),
                     "%s: implementation raises %s, model %s" % (c["goal"], short(ires), short(mres)))]
        return []
    ia, ma = pi[1], pm[1]
    lower_goal = op == "char_type" and c["args"][1].startswith("'lower'(")
    if c.get("prefix"):           # only the first answers are compared (the rest needs the Unicode tables)
        ma = ma[:c["max"]]
        ia = ia[:len(ma)]
    elif pi[2]:
        return [("violation", dict(base, defect="too-many-answers", goal=short(c["goal"], 80)),
                 "%s: more than %d answers" % (c["goal"], c["max"]))]
    if op == "char_type":
        ir, il = split_lower(ia)
        mr, ml = split_lower(ma)
        if il != ml and not c.get("lower_from_impl"):
            out.append(("violation", dict(base, defect="lower-mapping"),
                        "%s: lower(L) answers %s, to_lowercase gives %s" % (c["goal"], short(il), short(ml))))
        elif len(il) != len(ml):
            out.append(("violation", dict(base, defect="lower-answer-count", goal=short(c["goal"], 80)), "%s: %s vs %s" % (c["goal"], short(il), short(ml))))
        ia, ma = ir, mr
    if ia != ma and lower_goal:
        out.append(("violation", dict(base, defect="lower-mapping"),
                    "%s: implementation %s, with to_lowercase %s" % (c["goal"], short(ires), short(mres))))
    elif ia != ma:
        k = 0
        while k < min(len(ia), len(ma)) and ia[k] == ma[k]:
            k += 1
        out.append(("violation", dict(base, defect="answers", goal=short(c["goal"], 80)),
                    "%s: answer lists differ at position %d (implementation %d answers, model %d): impl %s | model %s" % (
                        c["goal"], k, len(ia), len(ma), short(ia[k:k + 2]), short(ma[k:k + 2]))))
    return out


def build_cases(rng, tier):
    cases = []

    def add(op, args, **kw):
        extra = kw.pop("extra", None)
        cases.append(mk_case(len(cases), op, args, rng, extra=extra, **kw))

    quick = tier == "quick"
    n = 280 if quick else 4000
    for _ in range(n):
        add("atom_length", gen_atom_length(rng))
        add("atom_chars", gen_atom_text(rng, False))
        add("atom_codes", gen_atom_text(rng, True))
        add("char_code", gen_char_code(rng))
        add("atom_concat", gen_atom_concat(rng))
        add("sub_atom", gen_sub_atom(rng))
        add("sub_atom", gen_sub_atom(rng))
        ct = gen_char_type_misc(rng)
        if ct[0][0] == 'v' and is_ground(ct[1]):
            add("char_type", ct, extra={"limit": 128, "prefix": True, "needs_count": True})
        else:
            add("char_type", ct)
    # every special atom: conversions in both directions, full enumerations
    for s in SPECIAL_ATOMS + [rand_atom(rng, 6) for _ in range(20 if quick else 300)]:
        add("atom_length", [A(s), V('N')])
        add("atom_chars", [A(s), V('L')])
        add("atom_codes", [A(s), V('L')])
        add("atom_chars", [V('X'), chars(s)])
        add("atom_codes", [V('X'), codes(s)])
        add("atom_chars", [A(s), chars(s)])
        add("atom_concat", [V('X'), V('Y'), A(s)])
        add("sub_atom", [A(s), V('B'), V('L'), V('A'), V('S')])
        if s:
            k = rng.randrange(len(s))
            add("sub_atom", [A(s), V('B'), V('L'), V('A'), A(s[k:k + rng.choice([1, 1, 2])])])
            add("sub_atom", [A(s), V('B'), I(rng.randrange(len(s) + 1)), V('A'), V('S')])
            add("sub_atom", [A(s), V('B'), V('L'), I(rng.randrange(len(s) + 1)), V('S')])
            add("sub_atom", [A(s), V('B'), V('B'), V('A'), V('S')])
    # every code point boundary
    for k in BOUNDARY_CODES + BAD_CODES + BIG_CODES:
        add("char_code", [V('C'), I(k)])
        add("atom_codes", [V('A'), L([I(97), I(k)])])
        if 0 <= k <= 0x10ffff and not 0xd800 <= k <= 0xdfff:
            add("char_code", [A(chr(k)), V('K')])
            add("atom_length", [A(chr(k) * 3), V('N')])
            add("sub_atom", [A('a' + chr(k) + 'b' + chr(k)), V('B'), V('L'), V('A'), A(chr(k))])
    # all 16 instantiation patterns of sub_atom/5 for consistent and inconsistent values
    for s in (['abab', 'aé€😀', ''] if quick else ['abab', 'aé€😀', '', 'aaa', 'e\u0301e\u0301', 'a\x00a']):
        n_ = len(s)
        for (b, l) in ([(0, 0), (1, 2), (n_, 0)] if quick else [(b, l) for b in range(n_ + 1) for l in range(n_ - b + 1)]):
            if b + l > n_:
                continue
            for mask in range(16):
                vals = [I(b), I(l), I(n_ - b - l), A(s[b:b + l])]
                args = [A(s)] + [vals[j] if mask >> j & 1 else V("BLAS"[j]) for j in range(4)]
                add("sub_atom", args)
            for mask in range(8):
                x, y = s[:b], s[b:]
                vals = [A(x), A(y), A(s)]
                add("atom_concat", [vals[j] if mask >> j & 1 else V("XYZ"[j]) for j in range(3)])
    # long atoms
    for ln in ([300, 5000] if quick else [300, 5000, 70000, 300000]):
        s = ''.join(rng.choice(["a", "b", "é", "€", "😀"]) for _ in range(ln))
        add("atom_length", [A(s), V('N')])
        add("atom_chars", [A(s), V('L')])
        add("atom_codes", [A(s), V('L')])
        # explicit list syntax only up to 5000 elements: a 70000-element list literal in the query text
        # aborts the process (reader recursion; noted in notes/findings-misc.md, not C22's subject)
        add("atom_chars", [V('X'), chars(s)], strings=True if ln > 5000 else None)
        if ln <= 5000:
            add("atom_codes", [V('X'), codes(s)])
        k = ln // 3
        add("atom_concat", [A(s[:k]), A(s[k:]), V('Z')])
        if ln <= 300:
            add("atom_concat", [V('X'), A(s[k:]), A(s)])     # the model builds all splits: quadratic
        add("atom_concat", [A(s[:k]), V('Y'), A(s)])
        if ln <= 300:
            add("sub_atom", [A(s), V('B'), V('L'), V('A'), A(s[k:k + 2])])
            add("sub_atom", [A(s), I(k), I(5), V('A'), V('S')])
            add("sub_atom", [A(s), V('B'), I(2), I(0), V('S')])
    s = ''.join(rng.choice("ab") for _ in range(40 if quick else 120))
    add("sub_atom", [A(s), V('B'), V('L'), V('A'), V('S')])
    add("atom_concat", [V('X'), V('Y'), A(s)])
    # char_type: every ASCII character against every class (all answers, in order)
    for cp in range(128):
        add("char_type", [A(chr(cp)), V('T')])
    for ch in STABLE_CASE + OTHER_NONASCII if not quick else rng.sample(STABLE_CASE, 30) + OTHER_NONASCII:
        add("char_type", [A(ch), V('T')], extra={"info": "from-impl", "char": ch})
    # enumeration of the characters of a class: complete for the classes that do not need Unicode tables
    full = INFO_FREE if not quick else ["octet"] + rng.sample([t for t in INFO_FREE if t != "octet"], 2)
    for t in full:
        add("char_type", [V('C'), A(t)], extra={"limit": 0x110000})
    for t in CTYPES:
        if t not in INFO_FREE:
            add("char_type", [V('C'), A(t)], extra={"limit": 128, "prefix": True, "needs_count": True})
    for f, txt in [("upper", "K"), ("lower", "k"), ("upper", "1"), ("lower", "a"), ("upper", "SS")]:
        add("char_type", [V('C'), S(f, chars(txt))], extra={"limit": 128, "prefix": True, "needs_count": True})
    return cases


def run_all(cases):
    """implementation first (the non-ASCII char_type cases take their host parameter from it), then the model"""
    # prefix cases: the number of answers asked from the implementation = number of ASCII answers of the model
    pre = [c for c in cases if c.get("needs_count")]
    if pre:
        m0 = core.run_model([model_line(c, {}) for c in pre])
        for c in pre:
            pr = parse_result(m0.get(c["id"]), False)
            c["max"] = max(1, len(pr[1])) if pr[0] == 'ans' else 1
    env = {"SV_TIMEOUT_MS": "60000"}
    impl = core.run_impl_parallel([impl_lines(c) for c in cases], env=env)
    # one sequential retry for lines that only timed out / lost their machine (load)
    again = [c for c in cases if str(impl.get(c["id"], "missing")).startswith(("timeout", "missing", "abort(", "skipped"))]
    if again:
        impl.update(core.run_impl([l for c in again for l in impl_lines(c)], env=env))
    model = core.run_model([model_line(c, impl) for c in cases])
    return impl, model, len(again)


def run(ctx):
    rng, tier = ctx["rng"], ctx["tier"]
    rep = diff.replay_case(ctx)
    if rep is not None:
        cases = rep
    else:
        cases = diff.load_corpus("C22")
        for k, c in enumerate(cases):
            c["id"] = "k%d" % k
        cases += build_cases(rng, tier)
    impl, model, retried = run_all(cases)
    findings, agree = [], 0
    distinct, per_op, outcome = set(), {}, {}
    for c in cases:
        ires, mres = impl.get(c["id"]), model.get(c["id"])
        if rep is not None:
            print("replay %s\n impl : %s\n model: %s" % (c["goal"], short(ires, 2000), short(mres, 2000)))
        per_op[c["op"]] = per_op.get(c["op"], 0) + 1
        pm = parse_result(mres, False)
        kind = "error:" + (pm[1][1] if pm[1][0] in 'as' else '?') if pm[0] == 'err' else (
            "answers:%s" % ("0" if not pm[1] else "1" if len(pm[1]) == 1 else "many") if pm[0] == 'ans' else "bad")
        outcome[c["op"] + " " + kind] = outcome.get(c["op"] + " " + kind, 0) + 1
        if any(ord(ch) > 127 for ch in c["goal"]) or "\\x" in c["goal"] or kind.startswith("error") or kind.endswith("many") or "V" in "".join(c["args"]):
            distinct.add(c["goal"])
        js = judge(c, ires, mres)
        if not js:
            agree += 1
        for kind_, sig, detail in js:
            cc = {k: v for k, v in c.items() if k != "corpus"}
            findings.append(core.Finding(kind_, sig, detail, cc))
    return {
        "evaluations": len(cases),
        "distinct_nontrivial": len(distinct),
        "rule": "one goal per case over atom_length/atom_chars/atom_codes/char_code/atom_concat/sub_atom/char_type: atoms from a list of special texts (empty, [], multi-byte, combining marks, NUL, U+7F/80, U+7FF/800, U+FFFF/10000, U+10FFFF, repeated patterns) or random over {a,b} / mixed alphabets, each argument unbound (sometimes aliased) / right / wrong / ill-typed (floats, compounds, strings, negative, > 2^55); all 16 modes of sub_atom and 8 of atom_concat for fixed atoms; long atoms; char_type of all 128 ASCII characters against all classes, of non-ASCII characters with host bits, and class enumerations; non-trivial = non-ASCII text, an error, several answers or an unbound argument; distinct by goal text",
        "samples": [c["goal"] for c in cases[:3]] + [c["goal"] for c in cases[-2:]],
        "traces_validated_against_impl": agree,
        "disagreements_checked": len(cases) - agree,
        "cases_per_builtin": per_op,
        "model_outcomes": outcome,
        "retried_after_timeout": retried,
        "exhaustive": False,
        "findings": findings,
    }
