"""C15 — Printed terms read back as the same term.

One case = one term (as a tree) + a list of user operator declarations. The implementation
  * declares the operators with op/3,
  * writes the term with four writers — the option sets of writeq/1 (`quoted(true),numbervars(true)`),
    write_canonical/1 (`quoted(true),ignore_ops(true)`), write_term/2 `quoted(true)`, and the toplevel's
    `quoted(true),double_quotes(true)` — through write_term_to_chars/3,
  * reads each text back with read_from_chars/2 under the same operator table and checks that the result is
    a variant of the term (the property's own oracle),
  * removes the operators again.
The model (`drv_C15`)
  * tokenises every text with the proved token reader of C55 (`Model/Quote.lean`),
  * reads the write_canonical text with the deterministic canonical reader (`Model/Syntax.lean`, theorem
    `C15_canonical_roundtrip`) and must obtain exactly the term,
  * reads the three operator-notation texts with the operator-precedence reader `readOps` under the case's
    operator table and must obtain exactly the term,
  * prints the term itself in canonical notation (`writeCanon`): the implementation must read that text
    back as the term too.
print/1 does not exist in this scryer-prolog; '$VAR'(N) terms are excluded (writeq prints them as variable
names by design).
"""
import os
import re
import sys

from .. import core, diff
from . import C55 as base

LEVEL = "proof"
TRUSTED_BASE = [
    "vlib/props/C15.py renders one abstract term both as canonical Prolog text for the query (always-quoted atoms, functional notation) and as a prefix S-expression for drv_C15",
    "writeq/1, write_canonical/1 are tied through write_term_to_chars/3 with the option values builtins.pl passes to '$write_term'",
    "variant check on the implementation = subsumes_term/2 in both directions; floats are compared by ==",
    "the operator-precedence reader of the model (`readOps`) has no round-trip theorem (only the canonical reader and the grammaticality of the operator printer are proved); it is a second, independent reader in the differential run",
    "Unicode classes of non-ASCII characters: parameters, values from char_type/2 (see C55)",
]
ASSUMPTIONS = [
    "'$VAR'(N) subterms are excluded (writeq/print write them as variable names by design, ISO 7.10.4)",
    "-0.0 is not generated (the statement allows it to come back as 0.0); NaN/Inf cannot be written as terms",
    "terms are finite trees of size <= 25 (quick) / 40 (thorough); cyclic terms are out of scope",
]

hline = base.hline
enc, dec, parse_codes, split_top, codes_pl = base.enc, base.dec, base.parse_codes, base.split_top, base.codes_pl

ATOMS = ["a", "b", "foo", "[]", "{}", "", "A", "a b", "_x", "-", "+", "*", ",", "|", ";", "!", "é", "É", "hello world", "\n",
         "'", "''", "\\", "is", "mod", ":-", "-->", "=", "\\+", "dynamic", ".", "..", "/*", "a.b", "0", "1a", "e", "[", "{}a",
         "€", "ⅷ", "xfx", "end_of_file", "\t", "a\\b", "^", "**", ":", "->", "?-", "//", "rem", "@", "#", "$", "&", "~", "`"]
FUNCTORS = ["f", "g", "foo", "A b", "[]", "{}", ",", "|", "é", "-", "+", "\\+", ":-", ".", "", "'", "a.b", "is", "=", ";"]
DEFAULT_INFIX = [":-", "-->", ",", ";", "->", "=", "\\=", "==", "is", "<", "+", "-", "*", "/", "//", "mod", "rem", "**", "^", ":",
                 "=..", ">>", "rdiv", "div", "/\\", "\\/", "@<", "=:=", ">="]
DEFAULT_PREFIX = [":-", "?-", "\\+", "-", "+", "\\"]
USER_OPS = ["op1", "fy1", "xx", "A", "a b", "++", "-*", "=>", "<--", "#", "@", "&", "$$", "é", "É", "~~", "::", "'", "0", "x0", "_", " ",
            "\n", "/*", "..", "-.", "e", "E", "a+", "+a", "[]a", "`"]
INTS = [0, 1, 2, 7, 10, 42, 123456789, 2 ** 62, 2 ** 64, 10 ** 30, -1, -2, -10, -(2 ** 63), -(10 ** 30)]
FLOATS = ["1.0", "-1.0", "0.0", "1.5e10", "1.0e-10", "3.141592653589793", "1.0e100", "5.0e-324", "1.7976931348623157e308", "0.1",
          "-2.5", "123456789.0", "1.0e22", "1.0e21", "-1.0e-7"]
TYPES = {"xfx": 2, "xfy": 2, "yfx": 2, "fy": 1, "fx": 1, "xf": 1, "yf": 1}


def q_atom(s):
    if s == "[]":
        return "[]"
    out = ["'"]
    for ch in s:
        o = ord(ch)
        if ch == "\\":
            out.append("\\\\")
        elif ch == "'":
            out.append("\\'")
        elif 32 <= o < 127:
            out.append(ch)
        else:
            out.append("\\x%x\\" % o)
    out.append("'")
    return "".join(out)


def pl_text(t):
    k = t[0]
    if k == "a":
        return q_atom(t[1])
    if k == "i":
        return str(t[1])
    if k == "f":
        return t[1]
    if k == "v":
        return "_V%d" % t[1]
    return "%s(%s)" % (q_atom(t[1]) if t[1] != "[]" else "'[]'", ",".join(pl_text(x) for x in t[2]))


def sx(t):
    """prefix S-expression for the driver: a<codes> | i<int> | f<codes of literal> | v<k> | c<codes> <n> args…"""
    k = t[0]
    if k == "a":
        return ["a" + enc([ord(c) for c in t[1]])]
    if k == "i":
        return ["i%d" % t[1]]
    if k == "f":
        return ["f" + enc([ord(c) for c in t[1]])]
    if k == "v":
        return ["v%d" % t[1]]
    out = ["c" + enc([ord(c) for c in t[1]]), str(len(t[2]))]
    for x in t[2]:
        out += sx(x)
    return out


def parse_sx(text):
    toks = text.split()
    pos = [0]

    def go():
        if pos[0] >= len(toks):
            raise ValueError("short")
        t = toks[pos[0]]
        pos[0] += 1
        k = t[0]
        if k == "a":
            return ("a", "".join(map(chr, dec(t[1:]))))
        if k == "i":
            return ("i", int(t[1:]))
        if k == "f":
            return ("f", "".join(map(chr, dec(t[1:]))))
        if k == "v":
            return ("v", int(t[1:]))
        if k == "c":
            n = int(toks[pos[0]])
            pos[0] += 1
            return ("c", "".join(map(chr, dec(t[1:]))), [go() for _ in range(n)])
        raise ValueError("bad token " + t)
    try:
        r = go()
    except (ValueError, IndexError):
        return None
    return r if pos[0] == len(toks) else None


def norm_vars(t):
    """number variables by first occurrence (preorder), as the driver does"""
    m = {}

    def go(t):
        if t[0] == "v":
            if t[1] not in m:
                m[t[1]] = len(m)
            return ("v", m[t[1]])
        if t[0] == "c":
            return ("c", t[1], [go(x) for x in t[2]])
        return t
    return go(t)


def same_tree(a, b):
    if a is None or b is None or a[0] != b[0]:
        return False
    if a[0] == "f":
        try:
            return float(a[1]) == float(b[1])
        except ValueError:
            return False
    if a[0] == "c":
        return a[1] == b[1] and len(a[2]) == len(b[2]) and all(same_tree(x, y) for x, y in zip(a[2], b[2]))
    return a[1] == b[1]


def fetch_default_ops():
    q = "findall(ZP-ZT-ZCs,(current_op(ZP,ZT,ZN),atom_codes(ZN,ZCs)),A1)"
    impl, _ = diff.run_cases([{"id": "ops0", "impl": ["R\tropsx", "Q\tops0\t1\t%s,%s." % (base.PRELUDE, q)]}])
    r = impl.get("ops0", "")
    out = []
    for m in re.finditer(r"'-'\('-'\((\d+),'(\w+)'\),(\[[\d,]*\]|\"[^\"]*\")\)", r):
        cs = m.group(3)
        name = "".join(map(chr, parse_codes(cs))) if cs.startswith("[") else cs[1:-1]
        out.append((int(m.group(1)), m.group(2), name))
    return out


def op_class(ty):
    return "in" if TYPES[ty] == 2 else ("pre" if ty in ("fy", "fx") else "post")


def merged_ops(default, user):
    tbl = list(default)
    for p, ty, n in user:
        tbl = [(p2, t2, n2) for (p2, t2, n2) in tbl if not (n2 == n and op_class(t2) == op_class(ty))]
        tbl.append((p, ty, n))
    return tbl


def size(t):
    return 1 + (sum(size(x) for x in t[2]) if t[0] == "c" else 0)


def has_var(t):
    return t[0] == "v" or (t[0] == "c" and any(has_var(x) for x in t[2]))


def has_float(t):
    return t[0] == "f" or (t[0] == "c" and any(has_float(x) for x in t[2]))


def gen_term(rng, depth, ops, nv):
    r = rng.random()
    if depth <= 0 or r < 0.30:
        r2 = rng.random()
        if r2 < 0.55:
            pool = ATOMS + [n for _, _, n in ops] * 3
            return ("a", rng.choice(pool))
        if r2 < 0.78:
            return ("i", rng.choice(INTS))
        if r2 < 0.86:
            return ("f", rng.choice(FLOATS))
        nv[0] = max(nv[0], 1)
        k = rng.randrange(0, min(nv[0] + 1, 3))
        nv[0] = max(nv[0], k + 1)
        return ("v", k)
    r2 = rng.random()
    if r2 < 0.30 and ops:
        p, ty, n = rng.choice(ops)
        ar = TYPES[ty]
        return ("c", n, [gen_term(rng, depth - 1, ops, nv) for _ in range(ar)])
    if r2 < 0.50:
        n = rng.choice(DEFAULT_INFIX)
        return ("c", n, [gen_term(rng, depth - 1, ops, nv) for _ in range(2)])
    if r2 < 0.60:
        n = rng.choice(DEFAULT_PREFIX)
        return ("c", n, [gen_term(rng, depth - 1, ops, nv)])
    if r2 < 0.72:   # list / partial list / string
        n = rng.randrange(1, 4)
        r3 = rng.random()
        if r3 < 0.25:
            items = [("a", rng.choice("abcé \"\\'\n")) for _ in range(n)]
            tail = ("a", "[]")
        else:
            items = [gen_term(rng, depth - 1, ops, nv) for _ in range(n)]
            tail = ("a", "[]") if r3 < 0.75 else gen_term(rng, 0, ops, nv)
        t = tail
        for x in reversed(items):
            t = ("c", ".", [x, t])
        return t
    if r2 < 0.78:
        return ("c", "{}", [gen_term(rng, depth - 1, ops, nv)])
    ar = rng.choice([1, 1, 2, 2, 3])
    return ("c", rng.choice(FUNCTORS), [gen_term(rng, depth - 1, ops, nv) for _ in range(ar)])


def gen_ops(rng):
    k = rng.choice([0, 0, 1, 2, 3])
    ops, seen = [], set()
    for _ in range(k):
        n = rng.choice(USER_OPS)
        ty = rng.choice(list(TYPES))
        cls = "in" if TYPES[ty] == 2 else ("pre" if ty in ("fy", "fx") else "post")
        # ISO: no infix and postfix operator with the same name
        if (n, "in") in seen and cls == "post" or (n, "post") in seen and cls == "in" or (n, cls) in seen:
            continue
        seen.add((n, cls))
        ops.append((rng.choice([1, 50, 200, 400, 500, 700, 900, 999, 1000, 1100, 1200]), ty, n))
    return ops


WRITERS = [("writeq", "[quoted(true),numbervars(true)]"), ("write_canonical", "[quoted(true),ignore_ops(true)]"),
           ("write_term_quoted", "[quoted(true)]"), ("toplevel", "[quoted(true),double_quotes(true)]")]


def make_case(i, term, ops, reset=False, extra_text=None):
    cid = "t%d" % i
    decl = ",".join("op(%d,%s,%s)" % (p, ty, q_atom(n)) for p, ty, n in ops)
    undo = ",".join("catch(op(0,%s,%s),_,true)" % (ty, q_atom(n)) for p, ty, n in ops)
    body = ["ZT = (%s)" % pl_text(term)]
    k = 1
    for name, opts in WRITERS:
        body.append("write_term_to_chars(ZT,%s,ZC%d),maplist(char_code,ZC%d,A%d)," % (opts, k, k, 2 * k - 1) +
                    "append(ZC%d,\" .\",ZD%d),catch((read_from_chars(ZD%d,ZR%d),"
                    "((subsumes_term(ZT,ZR%d),subsumes_term(ZR%d,ZT))->A%d=same;A%d=diff)),error(ZE%d,_),"
                    "(ZE%d=syntax_error(_)->A%d=syntax;A%d=err))" % (k, k, k, k, k, k, 2 * k, 2 * k, k, k, 2 * k, 2 * k))
        k += 1
    n_out = 8
    if extra_text is not None:
        body.append("catch((atom_codes(ZXA,%s),atom_chars(ZXA,ZXC),read_from_chars(ZXC,ZXR),"
                    "((subsumes_term(ZT,ZXR),subsumes_term(ZXR,ZT))->A9=same;A9=diff)),error(_,_),A9=err)" % codes_pl(extra_text))
        n_out = 9
    goal = ",".join(body)
    if decl:
        goal = "catch((%s),_,fail),catch((%s),ZEE,((%s),throw(ZEE))),%s" % (decl, goal, undo, undo)
    lines = []
    if reset:
        lines.append("R\tr%s" % cid)
    lines.append(hline(cid, goal, n_out))
    if reset:
        lines.append("R\tq%s" % cid)
    return {"id": cid, "term": term, "ops": ops, "impl": lines, "n_out": n_out, "reset": reset}


def ops_arg(ops):
    return ";".join("%d:%s:%s" % (p, ty, enc([ord(c) for c in n])) for p, ty, n in ops) if ops else "-"


def all_cps(term, ops):
    s = set()

    def walk(t):
        if t[0] in ("a", "c"):
            s.update(ord(c) for c in t[1])
        if t[0] == "c":
            for x in t[2]:
                walk(x)
    walk(term)
    for _, _, n in ops:
        s.update(ord(c) for c in n)
    return s


def run(ctx):
    rng = ctx["rng"]
    replay = diff.replay_case(ctx)
    cases = []
    if replay is not None:
        for k, c in enumerate(replay):
            cases.append(make_case(k, tuplify(c["term"]), [tuple(o) for o in c["ops"]], c.get("reset", False)))
    else:
        n = 12000 if ctx["tier"] == "thorough" else 1500
        corpus = diff.load_corpus("C15")
        i = 0
        for c in corpus:
            cases.append(make_case(i, tuplify(c["term"]), [tuple(o) for o in c["ops"]], c.get("reset", False)))
            i += 1
        for _ in range(n):
            ops = gen_ops(rng)
            nv = [0]
            depth = rng.choice([1, 2, 2, 3, 3, 4])
            t = gen_term(rng, depth, ops, nv)
            if size(t) > (40 if ctx["tier"] == "thorough" else 25):
                continue
            cases.append(make_case(i, t, ops))
            i += 1
    allc = set()
    for c in cases:
        allc |= all_cps(c["term"], c["ops"])
    tbl, _missing = base.uc_table(allc)
    default_ops = fetch_default_ops()
    if len(default_ops) < 30:
        core.log("[C15] could not read the operator table of a fresh machine (%d rows)" % len(default_ops))

    # first model pass: canonical text of the term, to be read by the implementation
    pre = ["canon\tp%s\t%s\t%s" % (c["id"], base.uc_arg(tbl, all_cps(c["term"], c["ops"])), " ".join(sx(c["term"]))) for c in cases]
    mp = core.run_model(pre)
    for c in cases:
        txt = mp.get("p" + c["id"], "")
        if txt and txt != "error" and not txt.startswith("bad"):
            cps = dec(txt) + [32, 46]
            c2 = make_case(int(c["id"][1:]), c["term"], c["ops"], c["reset"], extra_text=cps)
            c["impl"], c["n_out"] = c2["impl"], c2["n_out"]
            c["canon"] = dec(txt)
    t_impl, _ = diff.run_cases(cases)
    flaky = [c for c in cases if base.transient(t_impl.get(c["id"], "missing")) or split_top(t_impl.get(c["id"], ""), c["n_out"]) is None]
    retried = len(flaky)
    if flaky:
        i2, _ = diff.run_cases([{"id": c["id"], "impl": c["impl"]} for c in flaky[:3000]], parallel=False)
        t_impl.update(i2)

    second = []
    for c in cases:
        g = split_top(t_impl.get(c["id"], ""), c["n_out"])
        if not g:
            continue
        u = base.uc_arg(tbl, all_cps(c["term"], c["ops"]))
        for k, (name, _) in enumerate(WRITERS):
            cps = parse_codes(g[2 * k])
            if cps is None:
                continue
            op = "readc" if name == "write_canonical" else "reado"
            second.append("%s\tm%s_%d\t%s\t%s\t%s" % (op, c["id"], k, u, ops_arg(merged_ops(default_ops, c["ops"])), enc(cps)))
    m2 = core.run_model(second) if second else {}

    findings, agree, total = [], 0, 0
    distinct = set()
    hist = {"size": {}, "with_user_ops": 0, "with_vars": 0, "with_floats": 0, "writer_texts": 0, "model_reads_ok": 0,
            "model_not_modelled": 0}
    samples = []

    def add(kind, sig, detail, c):
        findings.append(core.Finding(kind, sig, detail, {"term": c["term"], "ops": c["ops"], "reset": c["reset"]}))

    for c in cases:
        total += 1
        r = t_impl.get(c["id"], "missing")
        g = split_top(r, c["n_out"])
        want_t = norm_vars(c["term"])
        want = " ".join(sx(want_t))
        if not g:
            add("disagreement", {"what": "unparsable"}, "impl=%r" % r[:400], c)
            continue
        distinct.add(want + "|" + ops_arg(c["ops"]))
        sz = size(c["term"])
        hist["size"][sz] = hist["size"].get(sz, 0) + 1
        hist["with_user_ops"] += bool(c["ops"])
        hist["with_vars"] += has_var(c["term"])
        hist["with_floats"] += has_float(c["term"])
        ok = True
        for k, (name, _) in enumerate(WRITERS):
            cps = parse_codes(g[2 * k])
            verdict = g[2 * k + 1].strip("'")
            text = "".join(map(chr, cps or []))
            hist["writer_texts"] += 1
            shape = classify(c["term"])
            if verdict != "same" and has_two_quote_atom(c["term"]) and name != "?":
                ok = False
                add("violation", {"defect": "two-quote-atom-written-as-empty", "writer": name},
                    "term %s written by %s as %r reads back: %s (C55-1: the atom '' of two quote characters is written as the empty atom)"
                    % (pl_text(c["term"]), name, text, verdict), c)
            elif verdict != "same" and name != "write_canonical" and prefix_before_opatom(c["term"], merged_ops(default_ops, c["ops"])):
                ok = False
                add("violation", {"defect": "prefix-operator-glued-to-bracketed-operator-atom", "writer": name},
                    "term %s with ops %r written by %s as %r reads back: %s (C15-1: no space between a prefix operator and the "
                    "bracket of an operator atom that starts its operand)" % (pl_text(c["term"]), c["ops"], name, text, verdict), c)
            elif verdict != "same" and name != "write_canonical" and last_arg_999(c["term"], merged_ops(default_ops, c["ops"])):
                ok = False
                add("violation", {"defect": "last-argument-fy-xfy-999", "writer": name},
                    "term %s with ops %r written by %s as %r reads back: %s (C15-2: the reader rejects a last argument that is an "
                    "fy/xfy operator term of priority 999)" % (pl_text(c["term"]), c["ops"], name, text, verdict), c)
            elif verdict != "same":
                ok = False
                add("violation", {"what": "roundtrip", "writer": name, "result": verdict, "shape": shape, "user_ops": str(bool(c["ops"]))},
                    "term %s with ops %r written by %s as %r reads back: %s" % (pl_text(c["term"]), c["ops"], name, text, verdict), c)
            mo = m2.get("m%s_%d" % (c["id"], k), "missing")
            if mo.startswith("notmodelled"):
                hist["model_not_modelled"] += 1
            elif verdict != "same" and (has_two_quote_atom(c["term"]) or (name != "write_canonical" and
                                          (prefix_before_opatom(c["term"], merged_ops(default_ops, c["ops"])) or
                                           last_arg_999(c["term"], merged_ops(default_ops, c["ops"]))))):
                pass
            elif not same_tree(parse_sx(mo), want_t):
                ok = False
                kind = "disagreement"
                add(kind, {"what": "model-read", "writer": name, "shape": shape, "impl_roundtrip": verdict},
                    "term %s with ops %r written by %s as %r: model reader gives %s, expected %s" % (pl_text(c["term"]), c["ops"], name, text, mo[:200], want[:200]), c)
            else:
                hist["model_reads_ok"] += 1
        if c["n_out"] == 9:
            v = g[8].strip("'")
            if v != "same":
                ok = False
                add("disagreement", {"what": "impl-reads-model-canonical", "result": v, "shape": classify(c["term"])},
                    "term %s: the model's canonical text %r is read by the implementation as: %s" % (pl_text(c["term"]), "".join(map(chr, c.get("canon", []))), v), c)
        agree += ok
        if len(samples) < 8 and sz > 5:
            samples.append({"term": pl_text(c["term"]), "ops": c["ops"], "writeq": "".join(map(chr, parse_codes(g[0]) or []))})
    if replay is not None:
        for c in cases:
            print("impl :", t_impl.get(c["id"]))
            for k in range(4):
                print("model:", m2.get("m%s_%d" % (c["id"], k)))
    hist["size"] = {str(k): v for k, v in sorted(hist["size"].items())}
    return {
        "evaluations": total,
        "distinct_nontrivial": len(distinct),
        "rule": "random terms (depth <= 4) over %d tricky atoms, %d functor names, default infix/prefix operators as functors, lists, partial "
                "lists, char lists, curly terms, 15 integers incl. bignums and negatives, 15 floats, variables; 0-3 random user operators "
                "(op/3) from %d names per case; each written by 4 writers and read back; distinct by term+table; non-trivial = parsed on "
                "both sides" % (len(ATOMS), len(FUNCTORS), len(USER_OPS)),
        "samples": samples,
        "traces_validated_against_impl": agree,
        "disagreements_checked": total - agree,
        "retried_after_timeout": retried,
        "histogram": hist,
        "findings": findings,
    }


def has_two_quote_atom(t):
    return (t[0] in ("a", "c") and t[1] == "\'\'") or (t[0] == "c" and any(has_two_quote_atom(x) for x in t[2]))


def leftmost_opatom(t, tbl):
    """does printing `t` as an operand start with a bracketed operator atom? (the leftmost leaf, descending through
    left operands of infix/postfix operator terms, is an atom that is an operator)"""
    while True:
        if t[0] == "a":
            return any(n == t[1] for _, _, n in tbl) and t[1] not in ("[]", "{}")
        if t[0] != "c":
            return False
        ar = len(t[2])
        classes = {op_class(ty) for _, ty, n in tbl if n == t[1]}
        if ar == 2 and "in" in classes and t[1] != ".":
            t = t[2][0]
        elif ar == 1 and "post" in classes and "pre" not in classes:
            t = t[2][0]
        else:
            return False


def prefix_before_opatom(t, tbl):
    """the shape of defect C15-1: a prefix-operator term whose operand is an infix/postfix operator term that starts
    with a (bracketed) operator atom"""
    if t[0] != "c":
        return False
    if len(t[2]) == 1 and any(n == t[1] and op_class(ty) == "pre" for _, ty, n in tbl):
        x = t[2][0]
        if x[0] == "c" and leftmost_opatom(x, tbl):
            return True
    return any(prefix_before_opatom(x, tbl) for x in t[2])


def last_arg_999(t, tbl):
    """the shape of defect C15-2: a compound written in functional notation whose last argument is a prefix fy (or infix
    xfy) operator term of priority exactly 999"""
    if t[0] != "c":
        return False
    classes = {op_class(ty) for p, ty, n in tbl if n == t[1]}
    ar = len(t[2])
    functional = not ((ar == 2 and "in" in classes) or (ar == 1 and ("pre" in classes or "post" in classes))
                      or (t[1] == "." and ar == 2) or (t[1] == "{}" and ar == 1))
    if functional:
        x = t[2][-1]
        if x[0] == "c":
            for p, ty, n in tbl:
                if n == x[1] and p == 999 and ((ty == "fy" and len(x[2]) == 1) or (ty == "xfy" and len(x[2]) == 2)):
                    return True
    return any(last_arg_999(x, tbl) for x in t[2])


def classify(t):
    """coarse shape of the term for finding signatures"""
    tags = set()

    def walk(t, top=True):
        k = t[0]
        if k == "a":
            if t[1] in DEFAULT_INFIX or t[1] in DEFAULT_PREFIX or t[1] in USER_OPS:
                tags.add("opatom")
        elif k == "i" and t[1] < 0:
            tags.add("neg")
        elif k == "f":
            tags.add("float")
        elif k == "v":
            tags.add("var")
        elif k == "c":
            if t[1] == ".":
                tags.add("list")
            elif t[1] == "{}":
                tags.add("curly")
            elif len(t[2]) <= 2 and (t[1] in DEFAULT_INFIX or t[1] in DEFAULT_PREFIX or t[1] in USER_OPS):
                tags.add("op")
            for x in t[2]:
                walk(x, False)
    walk(t)
    return "+".join(sorted(tags)) or "plain"


def tuplify(t):
    if isinstance(t, list):
        if t and t[0] == "c":
            return ("c", t[1], [tuplify(x) for x in t[2]])
        return tuple(t)
    return t
