"""C35 — Reloading a program is idempotent.

A case is a history on one machine: texts (programs) are loaded 1..6 times through the three entry
points (`consult/1` of a file, `consult_module_string` = harness op L, `load_module_string` =
harness op LM; the source path is a real file or the non-file name `user`), clauses are asserted
in between, and after loads the answers of a fixed query set (every predicate of the case through
call and, for dynamic ones, clause/2; the operators; two flags) are compared with the loader model
`drv_C35` (operational model and its proved closed form, which must also agree with each other).
The SIZE part of the statement is checked on the implementation directly: within a run of
consecutive loads of the same text the footprint (harness op FP, hook
`verif_hooks::machine_footprint`) after load k >= 2 must equal the footprint after load 1 on every
component the statement names.
"""
import os
import shutil

from .. import core, diff

LEVEL = "proof"
TRUSTED_BASE = [
    "Model/Loader.lean is a specification-level reading of loader.pl / loader.rs / load_state.rs / compile.rs (term queue, compile_and_submit decisions, declarations, in-situ filename module reset); clause bodies, code generation and indexing are not modelled; the implementation is tied by the correspondence run only",
    "vlib/props/C35.py: rendering of abstract items to Prolog text (facts, rules with a trivial body, the two syntactic forms of a declaration) and to driver tokens; the rendering variants are assumed to be equivalent for the loader's bookkeeping",
    "hook verif_hooks::machine_footprint (notes/hooks/C35-repo.diff) reads the counters it names; harness family fam_c35.rs (FP, LM)",
]
ASSUMPTIONS = [
    "directives of generated programs have no effect beyond declarations (dynamic/discontiguous/multifile, op/3, set_prolog_flag/2, initialization(true), term_expansion/2 clauses)",
    "footprint components compared (named by the statement): heap, atom table, stack, trail, loader state = load contexts, live/inactive load-state payloads, streams, predicate/operator/meta-predicate/expansion/module directories, skeleton and local-skeleton clause lists, float table. Code area, code-index table, arena slab count and dynamic-clause tombstones are never reclaimed by design and are reported as observations only",
    "every observation query text is run once before the first load of a case, so that atoms interned by the queries themselves do not count as growth",
]

TMP = os.path.join(core.ROOT, "build", "tmp", "C35")

NAMED = ["heap", "atoms", "stack", "trail", "tr", "b", "e", "ball_stack", "cont_pts", "attr_goals",
         "lifted_heap", "floats", "live_load_states", "inactive_load_states", "load_contexts",
         "streams", "code_dir", "op_dir", "meta_predicates", "goal_expansions", "global_variables",
         "ext_preds", "local_ext_preds", "modules", "module_code_dirs", "module_op_dirs",
         "module_meta_predicates", "module_ext_preds", "module_local_ext_preds",
         "skeleton_clauses", "skeleton_clause_locs", "local_clause_locs"]
OBSERVED_ONLY = ["code", "code_index_tbl", "arena_slabs", "arena_dropped", "retracted_dynamic_clauses"]

KINDS = [(), ("dyn",), ("disc",), ("multi",), ("dyn", "disc"), ("dyn", "multi"), ("disc", "multi"),
         ("dyn", "disc", "multi")]
KIND_W = [5, 4, 4, 3, 3, 2, 1, 1]
OPV = [(700, "xfx"), (200, "xfy"), (400, "yfx"), (1100, "xfy")]     # infix class
DQ = ["chars", "codes", "atom"]
OC = ["false", "true", "error"]
FLAGN = {0: "double_quotes", 1: "occurs_check"}
FLAGV = {0: DQ, 1: OC}


def esc(s):
    return s.replace("\\", "\\\\").replace("\n", "\\n").replace("\t", "\\t")


# ------------------------------------------------------------------ generation
def gen_text(rng, keys, kinds, nops, decl_all):
    """abstract items of one text. keys: the predicate ids it defines."""
    items = []
    declared = set()
    body = []
    for k in keys:
        n = rng.choice([1, 1, 2, 2, 3])
        groups = 1 if ("disc" not in kinds[k] or rng.random() < 0.3) else rng.choice([1, 2, 3])
        if rng.random() < 0.08:
            groups = 2          # discontiguous clauses of a predicate not declared so
        for g in range(groups):
            body.append([("c", k, rng.randrange(1, 60)) for _ in range(n if g == 0 else rng.choice([1, 2]))])
    rng.shuffle(body)
    # declarations first (canonical text); a predicate of a multi-source kind may be left undeclared
    for k in keys:
        if kinds[k] and (decl_all or rng.random() < 0.8):
            fl = list(kinds[k])
            rng.shuffle(fl)
            for f in fl:
                items.append(("d", k, f))
            declared.add(k)
    for g in body:
        r = rng.random()
        if r < 0.15:
            items.append(("n", rng.choice(["init", "texp"])))
        elif r < 0.27 and nops:
            o = rng.randrange(nops)
            items.append(("o", o, rng.choice([0, 1, 2, 3, 3, "-"])))
        elif r < 0.35:
            f = rng.randrange(2)
            items.append(("f", f, rng.randrange(3)))
        items.extend(g)
    if rng.random() < 0.1:      # a late (repeated) declaration: non canonical text
        k = rng.choice(keys)
        if kinds[k] and k in declared:
            items.insert(rng.randrange(len(items) + 1), ("d", k, rng.choice(kinds[k])))
    return items


def gen_case(rng, cid):
    nk = rng.choice([2, 3, 3, 4, 5])
    kinds = [rng.choices(KINDS, KIND_W)[0] for _ in range(nk)]
    nops = rng.choice([0, 1, 2])
    nt = rng.choice([1, 1, 2, 2, 3])
    texts = []
    allfile = rng.random() < 0.7
    for t in range(nt):
        fm = allfile or rng.random() < 0.5
        entry = rng.choice(["consult", "L", "LM"]) if fm else rng.choice(["L", "LM"])
        ks = [k for k in range(nk) if rng.random() < 0.7] or [rng.randrange(nk)]
        if t > 0:
            # a later text may only add to predicates of a multi-source kind, or define its own
            ks = [k for k in ks if not texts or k not in texts[0]["keys"] or
                  "multi" in kinds[k] or "disc" in kinds[k] or rng.random() < 0.15] or [nk - 1]
        texts.append({"fm": fm, "entry": entry, "keys": ks,
                      "items": gen_text(rng, ks, kinds, nops, decl_all=(t == 0 or rng.random() < 0.5)),
                      "render": rng.randrange(1 << 30)})
    steps = []
    dyn_declared = set()
    for _ in range(rng.choice([2, 3, 4, 5])):
        r = rng.random()
        cand = sorted(dyn_declared)
        if r < 0.3 and cand:
            steps.append(("A", rng.choice(cand), rng.randrange(60, 99)))
        else:
            t = rng.randrange(nt)
            n = rng.choice([1, 2, 2, 3, 4, 6])
            steps.append(("L", t, n, rng.random() < 0.5))
            for it in texts[t]["items"]:
                if it[0] == "d" and it[2] == "dyn":
                    dyn_declared.add(it[1])
    return {"id": cid, "kinds": [list(k) for k in kinds], "nops": nops, "texts": texts, "steps": steps}


# ------------------------------------------------------------------ rendering
def pname(c, k):
    return "p%d_%s" % (k, c["id"])


def oname(c, o):
    return "op%d_%s" % (o, c["id"])


def render_text(c, t):
    import random
    rr = random.Random(t["render"])
    out = []
    texp_done = set()
    items = t["items"]
    i = 0
    while i < len(items):
        it = items[i]
        if it[0] == "c":
            p, v = pname(c, it[1]), it[2]
            r = rr.random()
            if r < 0.75:
                out.append("%s(%d)." % (p, v))
            else:
                out.append("%s(%d) :- true." % (p, v))
        elif it[0] == "d":
            word = {"dyn": "dynamic", "disc": "discontiguous", "multi": "multifile"}[it[2]]
            pi = "%s/1" % pname(c, it[1])
            r = rr.random()
            out.append(":- %s(%s)." % (word, pi) if r < 0.7 else ":- %s([%s])." % (word, pi))
        elif it[0] == "o":
            if it[2] == "-":
                out.append(":- op(0, xfx, %s)." % oname(c, it[1]))
            else:
                out.append(":- op(%d, %s, %s)." % (OPV[it[2]][0], OPV[it[2]][1], oname(c, it[1])))
        elif it[0] == "f":
            out.append(":- set_prolog_flag(%s, %s)." % (FLAGN[it[1]], FLAGV[it[1]][it[2]]))
        elif it[0] == "n":
            if it[1] == "init":
                out.append(":- initialization(true).")
            else:
                out.append("term_expansion(tx_%s(X), ty_%s(X))." % (c["id"], c["id"]))
        i += 1
    return "\n".join(out) + "\n"


def model_items(t):
    toks = []
    for it in t["items"]:
        if it[0] == "c":
            toks.append("c:%d:%d" % (it[1], it[2]))
        elif it[0] == "d":
            toks.append("d:%d:%s" % (it[1], it[2]))
        elif it[0] == "o":
            toks.append("o:%d:%s" % (it[1], it[2]))
        elif it[0] == "f":
            toks.append("f:%d:%d" % (it[1], it[2]))
        else:
            toks.append("n")
    return " ".join(toks)


def obs_queries(c):
    """(tag, query text) of the observation set."""
    qs = []
    for k, kind in enumerate(c["kinds"]):
        p = pname(c, k)
        qs.append(("k%d" % k, "catch(findall(X, %s(X), L), error(existence_error(procedure, _), _), L = undef)." % p))
        if "dyn" in kind:
            qs.append(("c%d" % k, "catch(findall(X, clause(%s(X), _), L), error(_, _), L = err)." % p))
    for o in range(c["nops"]):
        qs.append(("o%d" % o, "findall(P-T, current_op(P, T, %s), L)." % oname(c, o)))
    qs.append(("f0", "current_prolog_flag(double_quotes, L)."))
    qs.append(("f1", "current_prolog_flag(occurs_check, L)."))
    return qs


def make_case(c):
    cid = c["id"]
    impl, mod = [], []
    qn = [0]

    def q(text, tag):
        qn[0] += 1
        i = "%s.%d.%s" % (cid, qn[0], tag)
        impl.append("Q\t%s\t3\t%s" % (i, esc(text)))
        return i

    paths = []
    for n, t in enumerate(c["texts"]):
        src = render_text(c, t)
        t["text"] = src
        if t["fm"]:
            p = os.path.join(TMP, "%s_%d.pl" % (cid, n))
            os.makedirs(TMP, exist_ok=True)
            with open(p, "w") as fh:
                fh.write(src)
            paths.append(p)
        else:
            paths.append("user")
    reset = "set_prolog_flag(double_quotes, chars), set_prolog_flag(occurs_check, false)."
    q(reset, "r0")
    obs = obs_queries(c)
    for tag, text in obs:          # warm-up: interns the atoms of the query texts
        q(text, "w" + tag)
    plan = []                      # what the judge walks through
    for s in c["steps"]:
        if s[0] == "A":
            i = q("assertz(%s(%d))." % (pname(c, s[1]), s[2]), "a")
            mod.append("A %d %d" % (s[1], s[2]))
            plan.append(("A", i, s))
            continue
        _, ti, n, between = s
        t = c["texts"][ti]
        seg = {"text": ti, "loads": [], "entry": t["entry"], "fm": t["fm"], "between": between}
        for k in range(n):
            qn[0] += 1
            lid = "%s.%d.l" % (cid, qn[0])
            if t["entry"] == "consult":
                impl.append("Q\t%s\t3\t%s" % (lid, esc("consult('%s')." % paths[ti])))
            else:
                impl.append("%s\t%s\t%s\t%s" % (t["entry"], lid, paths[ti], esc(t["text"])))
            qn[0] += 1
            fid = "%s.%d.fp" % (cid, qn[0])
            impl.append("FP\t%s" % fid)
            mod.append("L %d %d %s" % (1 if t["fm"] else 0, (ti + 1) if t["fm"] else 0, model_items(t)))
            ob = None
            if between or k == n - 1:
                ob = [(tag, q(text, tag)) for tag, text in obs]
                mod.append("Q " + " ".join(
                    ["k:%d" % k2 for k2 in range(len(c["kinds"]))] +
                    ["o:%d" % o for o in range(c["nops"])] + ["f:0", "f:1"]))
            seg["loads"].append({"lid": lid, "fid": fid, "obs": ob})
        plan.append(("L", seg))
    q(reset, "r1")
    steps = ";".join(mod)
    return {"id": cid, "impl": impl,
            "model": ["run\t%s.run\t%s" % (cid, steps), "spec\t%s.spec\t%s" % (cid, steps)],
            "plan": plan, "spec": c}


# ------------------------------------------------------------------ judging
def parse_fp(r):
    try:
        return {k: int(v) for k, v in (kv.split("=") for kv in r.split())}
    except Exception:
        return None


def impl_list(r):
    """`{L=[1,2]}` -> '1,2'; `{L='undef'}` -> 'undef'."""
    if r is None:
        return "missing"
    r = r.split(" ;; ")[0]
    if r.startswith("{L=") and r.endswith("}"):
        v = r[3:-1]
        if v == "[]":
            return ""
        if v.startswith("[") and v.endswith("]"):
            return v[1:-1]
        return v.strip("'")
    return r


def norm_op(v):
    # "'-'(700,'xfx')" list -> "700:xfx"
    if v == "":
        return "-"
    v = v.replace("'-'(", "").replace(")", "").replace("'", "")
    parts = v.split(",")
    return ";".join("%s:%s" % (parts[i], parts[i + 1]) for i in range(0, len(parts) - 1, 2))


def model_obs(tok, c):
    """model token -> the text the implementation should give for the same request."""
    name, _, v = tok.partition("=")
    if name[0] == "k":
        return v
    if name[0] == "o":
        return "-" if v == "-" else "%d:%s" % OPV[int(v)]
    f = int(name[1:])
    return (FLAGV[f][int(v)] if v != "-" else FLAGV[f][0])


def features(c, ti):
    t = c["texts"][ti]
    fs = set()
    for it in t["items"]:
        if it[0] == "d":
            fs.add(it[2])
        elif it[0] == "n":
            fs.add(it[1])
        elif it[0] == "o":
            fs.add("op")
        elif it[0] == "f":
            fs.add("flag")
    return ",".join(sorted(fs)) or "plain"


def canonical(c):
    """every text declares a predicate before its first clause (the hypothesis of the closed form)."""
    for t in c["texts"]:
        seen = set()
        for it in t["items"]:
            if it[0] == "c":
                seen.add(it[1])
            elif it[0] == "d" and it[1] in seen:
                return False
    return True


def infra(r):
    return r is None or r.startswith(("panic(", "timeout", "abort(", "skipped("))


def judge(cases, impl, model, replay=False):
    findings, agree = [], 0
    cov = {"loads": 0, "reload_segments": 0, "obs": 0, "entries": {}, "kinds": {}, "observations_growth": {}}
    for case in cases:
        c, cid = case["spec"], case["id"]
        ok = True
        run = model.get(cid + ".run", "missing").split(" ## ")
        spec = model.get(cid + ".spec", "missing").split(" ## ")
        if run != spec and canonical(c):
            findings.append(core.Finding("disagreement", {"family": "model", "what": "closed-form-vs-operational"},
                                         "loadKey and its closed form specKey differ: run=%s spec=%s" % (run, spec), slim(case)))
            ok = False
        oi = 0
        foreign_seen = False
        for st in case["plan"]:
            if st[0] == "A":
                foreign_seen = True
                if not str(impl.get(st[1])).startswith("true"):
                    findings.append(core.Finding("disagreement", {"family": "setup", "what": "assertz", "impl": str(impl.get(st[1]))[:60]},
                                                 "assertz on a declared dynamic predicate did not succeed", slim(case)))
                    ok = False
                continue
            seg = st[1]
            cov["reload_segments"] += 1 if len(seg["loads"]) > 1 else 0
            ek = "%s/%s" % (seg["entry"], "file" if seg["fm"] else "nonfile")
            cov["entries"][ek] = cov["entries"].get(ek, 0) + len(seg["loads"])
            fp1 = None
            grown = {}
            first_obs = None
            changed = False
            for n, ld in enumerate(seg["loads"]):
                cov["loads"] += 1
                lr = str(impl.get(ld["lid"]))
                if not (lr.startswith("loaded") or lr.startswith("true")):
                    findings.append(core.Finding("violation", {"family": "load", "entry": seg["entry"], "impl": lr[:50]},
                                                 "load %d of text %d did not succeed: %s" % (n + 1, seg["text"], lr), slim(case)))
                    ok = False
                fp = parse_fp(str(impl.get(ld["fid"])))
                if fp is None:
                    findings.append(core.Finding("disagreement", {"family": "footprint", "what": "hook-missing"},
                                                 "FP did not return a footprint (hook patch / fam_c35 not applied?): %s" % impl.get(ld["fid"]), slim(case)))
                    ok = False
                elif fp1 is None:
                    fp1 = fp
                else:
                    for comp in NAMED:
                        if fp.get(comp) != fp1.get(comp) and comp not in grown:
                            grown[comp] = (n + 1, fp1.get(comp), fp.get(comp))
                    for comp in OBSERVED_ONLY:
                        if fp.get(comp) != fp1.get(comp):
                            cov["observations_growth"][comp] = cov["observations_growth"].get(comp, 0) + 1
                if ld["obs"] is not None:
                    # the statement's own oracle: the answers after load k are those after load 1
                    cur = {tag: impl_list(impl.get(qi)) for tag, qi in ld["obs"]}
                    if first_obs is None:
                        first_obs = cur
                    else:
                        for tag in cur:
                            if cur[tag] != first_obs[tag] and not changed:
                                changed = True
                                k = int(tag[1:]) if tag[0] in "kc" else -1
                                findings.append(core.Finding(
                                    "violation",
                                    {"family": "answers", "what": "changed-by-reload", "obs": tag[0],
                                     "kind": (",".join(c["kinds"][k]) or "static") if k >= 0 else "-",
                                     "mode": "file" if seg["fm"] else "nonfile", "entry": seg["entry"]},
                                    "load %d of the same text (text %d, %s) changed the answers of %s: [%s] after load 1, [%s] now"
                                    % (n + 1, seg["text"], ek, tag, first_obs[tag], cur[tag]), slim(case)))
                                ok = False
                    want = run[oi].split(" ") if oi < len(run) else []
                    oi += 1
                    wm = {w.partition("=")[0]: w for w in want}
                    for tag, qi in ld["obs"]:
                        cov["obs"] += 1
                        got = impl_list(impl.get(qi))
                        if tag[0] == "c":
                            # clause/2 must enumerate the clauses that a call runs (dynamic predicates)
                            callv = impl_list(impl.get(dict(ld["obs"])["k" + tag[1:]]))
                            if got != callv and callv != "undef" and got != "err":
                                k = int(tag[1:])
                                findings.append(core.Finding(
                                    "violation",
                                    {"family": "answers", "what": "clause-vs-call", "kind": ",".join(c["kinds"][k]),
                                     "mode": "file" if seg["fm"] else "nonfile"},
                                    "after load %d of text %d: call answers [%s] but clause/2 lists [%s] for dynamic %s"
                                    % (n + 1, seg["text"], callv, got, pname(c, k)), slim(case)))
                                ok = False
                            continue
                        if tag[0] == "o":
                            got = norm_op(got)
                        exp = model_obs(wm.get(tag, tag + "=missing"), c)
                        if replay:
                            print("replay %s impl=%s model=%s" % (qi, got, exp))
                        if got != exp:
                            sig = {"family": "answers", "what": tag[0], "mode": "file" if seg["fm"] else "nonfile",
                                   "entry": seg["entry"], "load": "first" if n == 0 else "again"}
                            if tag[0] == "k":
                                k = int(tag[1:])
                                sig["kind"] = ",".join(c["kinds"][k]) or "static"
                                sig["impl"] = "empty" if got == "" else ("undef" if got == "undef" else
                                                                        ("error" if not got[:1].isdigit() else "list"))
                                sig["model"] = "empty" if exp == "" else ("undef" if exp == "undef" else "list")
                                sig["other_sources_or_asserts"] = "yes" if (foreign_seen or len(c["texts"]) > 1) else "no"
                            findings.append(core.Finding(
                                "violation", sig,
                                "after load %d of text %d (%s): implementation answers [%s], the loader model (idempotent by theorem C35_load_idem) answers [%s] for %s"
                                % (n + 1, seg["text"], ek, got, exp, tag), slim(case)))
                            ok = False
            for comp, (n, a, b) in grown.items():
                if changed and comp in ("skeleton_clauses", "skeleton_clause_locs", "local_clause_locs"):
                    continue        # consequence of the changed answers reported above
                findings.append(core.Finding(
                    "violation",
                    {"family": "footprint", "component": comp, "entry": seg["entry"],
                     "mode": "file" if seg["fm"] else "nonfile",
                     "cause": ("expansion-clauses-of-a-non-file-source"
                               if (not seg["fm"] and "texp" in features(c, seg["text"]).split(",")
                                   and comp in ("skeleton_clauses", "skeleton_clause_locs", "local_clause_locs"))
                               else "-")},
                    "%s after load %d of the same text = %s, after load 1 = %s (text %d, entry %s, directives in the text: %s, queries between the loads: %s)"
                    % (comp, n, b, a, seg["text"], ek, features(c, seg["text"]), "yes" if seg["between"] else "no"), slim(case)))
                ok = False
        for k in c["kinds"]:
            kk = ",".join(k) or "static"
            cov["kinds"][kk] = cov["kinds"].get(kk, 0) + 1
        if ok:
            agree += 1
    return findings, agree, cov


def slim(case):
    c = case["spec"]
    return {"id": c["id"], "kinds": c["kinds"], "nops": c["nops"], "steps": c["steps"],
            "texts": [{k: t[k] for k in ("fm", "entry", "keys", "items", "render")} for t in c["texts"]]}


def thaw(c):
    """JSON -> tuples."""
    c = dict(c)
    c["steps"] = [tuple(s) for s in c["steps"]]
    c["texts"] = [dict(t, items=[tuple(i) for i in t["items"]]) for t in c["texts"]]
    return c


def directed():
    """histories that pin the behaviours singled out by the theorems (and the known defects)."""
    def T(items, fm=True, entry="consult", keys=(0,)):
        return {"fm": fm, "entry": entry, "keys": list(keys), "items": items, "render": 1}
    out = []
    dd = [("d", 0, "dyn"), ("d", 0, "disc"), ("c", 0, 1), ("c", 1, 5), ("c", 0, 2)]
    for entry in ("consult", "L", "LM"):
        out.append({"kinds": [["dyn", "disc"], []], "nops": 0, "texts": [T(dd, True, entry, (0, 1))],
                    "steps": [("L", 0, 2, True), ("A", 0, 77), ("L", 0, 2, True), ("L", 0, 1, True)]})
        out.append({"kinds": [["dyn"], []], "nops": 0,
                    "texts": [T([("d", 0, "dyn"), ("c", 0, 1), ("c", 0, 2), ("c", 1, 3)], True, entry, (0, 1))],
                    "steps": [("L", 0, 1, True), ("A", 0, 77), ("L", 0, 3, True)]})
        out.append({"kinds": [["multi"], ["disc"]], "nops": 1,
                    "texts": [T([("d", 0, "multi"), ("d", 1, "disc"), ("c", 0, 1), ("o", 0, 0), ("c", 1, 2), ("n", "init"), ("c", 1, 3)], True, entry, (0, 1)),
                              T([("c", 0, 11), ("c", 1, 12), ("f", 0, 1)], True, entry, (0, 1))],
                    "steps": [("L", 0, 2, True), ("L", 1, 2, True), ("L", 0, 2, False), ("L", 1, 3, True), ("L", 0, 6, False)]})
        if entry != "consult":
            out.append({"kinds": [["disc"]], "nops": 0,
                        "texts": [T([("d", 0, "disc")], False, entry), T([("c", 0, 1)], False, entry)],
                        "steps": [("L", 0, 1, True), ("L", 1, 3, True)]})
            out.append({"kinds": [["dyn"], []], "nops": 1,
                        "texts": [T([("d", 0, "dyn"), ("c", 0, 1), ("c", 1, 3), ("o", 0, 1), ("n", "texp"), ("c", 0, 2)], False, entry, (0, 1))],
                        "steps": [("L", 0, 6, False), ("A", 0, 70), ("L", 0, 2, True)]})
    for n, c in enumerate(out):
        c["id"] = "d%d" % n
    return out


def run(ctx):
    rng, tier = ctx["rng"], ctx["tier"]
    rep = diff.replay_case(ctx)
    shutil.rmtree(TMP, ignore_errors=True)
    os.makedirs(TMP, exist_ok=True)
    if rep is not None:
        specs = [thaw(c) for c in rep]
    else:
        specs = [thaw(c) for c in diff.load_corpus("C35")]
        specs += directed()
        n = 500 if tier == "quick" else 6000
        n = globals().get("N_OVERRIDE", n)
        specs += [gen_case(rng, "c%d" % i) for i in range(n)]
    cases = [make_case(c) for c in specs]
    env = {"SV_TIMEOUT_MS": "60000"}
    impl, model = diff.run_cases(cases, impl_env=env)
    again = [c for c in cases if any(infra(impl.get(core.line_id(l))) for l in c["impl"])]
    if again:
        impl.update(core.run_impl(["R\tretry.R"] + [l for c in again for l in c["impl"]], env=env))
    fps = [impl.get(i) for i in impl if i.endswith(".fp")]
    if fps and all(str(r).startswith("bad-op") for r in fps):
        # the harness has no FP/LM operations: the hook patch and fam_c35.rs are not applied
        return {"evaluations": 0, "distinct_nontrivial": 0, "rule": "hook missing", "samples": [],
                "traces_validated_against_impl": 0, "disagreements_checked": 0,
                "findings": [core.Finding("disagreement", {"family": "footprint", "what": "hook-missing"},
                                          "the harness does not know the operations FP / LM: apply notes/hooks/C35-repo.diff to /repo and add notes/hooks/fam_c35.rs to the harness (see notes/design/C35.md)",
                                          {"id": "hook"})]}
    findings, agree, cov = judge(cases, impl, model, replay=rep is not None)
    distinct = set()
    for c in cases:
        if any(s[0] == "L" and s[2] > 1 for s in c["spec"]["steps"]):
            distinct.add(c["model"][0].split("\t", 2)[2])
    return {
        "evaluations": len(cases),
        "distinct_nontrivial": len(distinct),
        "rule": "a case = 2..5 predicates of random kinds (static / dynamic / discontiguous / multifile and combinations), 0..2 operators, 1..3 texts (declarations first, clause groups shuffled and interleaved with op/3, set_prolog_flag/2, initialization/1 directives and term_expansion/2 clauses; 10% with a late declaration, 8% with discontiguous clauses of a predicate not declared so; later texts add to multifile/discontiguous predicates, declared or not, or redefine), each text bound to an entry point (consult/1 of a file, consult_module_string, load_module_string; path = real file or `user`), and 2..5 steps (load text t 1..6 times with or without observation between loads; assertz to a declared dynamic predicate); plus directed histories for the behaviours the theorems single out. non-trivial = at least one text loaded more than once in a row; distinct by the model history",
        "samples": [c["model"][0].split("\t", 2)[2][:300] for c in (cases[:2] + cases[-2:])],
        "traces_validated_against_impl": agree,
        "disagreements_checked": len(cases) - agree,
        "loads": cov["loads"],
        "reload_segments": cov["reload_segments"],
        "observations_compared": cov["obs"],
        "loads_by_entry_point": cov["entries"],
        "predicates_by_kind": cov["kinds"],
        "never_reclaimed_components_grown_in_segments": cov["observations_growth"],
        "histories_rerun_after_infrastructure_failure": len(again),
        "exhaustive": False,
        "findings": findings,
    }
