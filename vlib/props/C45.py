"""C45 — read_term/2 reports variables, names and singletons exactly.

One abstract *item* = a text made of 1..3 clauses; every clause is a list of fragments
(text, kind) with kind in o (non-variable token text) | l (layout / comment) | v (variable token).
The clause text (concatenation of the fragment texts) goes to the implementation
(read_term_from_chars/3, or read_term/3 on a file stream); the kinds (and the variable names) go
to the Lean model (drv_C45: mirrored dictionary/sort mechanism + specification). Variables in the
implementation's answer are identified by their rank (first occurrence in the term read), which
is how the harness names them (_G0, _G1, …).
"""
import os
import re
import shutil
import time

from .. import core, diff

LEVEL = "proof"
TRUSTED_BASE = [
    "vlib/props/C45.py renders one abstract clause (a term tree) both as Prolog text and as the token-kind sequence given to drv_C45; the rendering uses only ISO syntax whose tokenisation is fixed by construction (layout only at safe places, operator operands parenthesised by priority)",
    "the harness names the unbound variables of an answer _G0,_G1,… by first occurrence in the answer term r(T,Vs,VNs,Ss), T first (harness/src/canon.rs)",
    "the parser keeps the left-to-right order of the variable tokens in the term it builds (checked on every case: the per-occurrence variable pattern of T is compared with the model's)",
]
ASSUMPTIONS = [
    "the statement fixes the ORDER of variables/1 and variable_names/1 but only the CONTENT of singletons/1: singletons are compared as sets (the implementation lists them in dictionary = breadth-first order; the agreement count with left-to-right order is reported)",
    "default operator table and flags (double_quotes=chars)",
]

IMPL_ENV = {"SV_TIMEOUT_MS": "60000"}
TMP = os.path.join(core.BUILD, "tmp", "C45")

HELPER = r"""
c45_opt(v, Vs, _, _, variables(Vs)).
c45_opt(n, _, VNs, _, variable_names(VNs)).
c45_opt(s, _, _, Ss, singletons(Ss)).
c45_opts([], _, _, _, []).
c45_opts([C|Cs], Vs, VNs, Ss, [O|Os]) :- c45_opt(C, Vs, VNs, Ss, O), c45_opts(Cs, Vs, VNs, Ss, Os).
c45_chars(Cs, P, R) :- atom_chars(P, Pc), c45_opts(Pc, Vs, VNs, Ss, Os),
    catch((read_term_from_chars(Cs, T, Os), R = r(T,Vs,VNs,Ss)), error(E,_), R = e(E)).
c45_file(F, N, P, Rs) :- atom_chars(P, Pc), open(F, read, S),
    catch(c45_rd(N, S, Pc, Rs), Ex, (close(S), throw(Ex))), close(S).
c45_rd(0, _, _, []) :- !.
c45_rd(N, S, Pc, [R|Rs]) :- c45_opts(Pc, Vs, VNs, Ss, Os),
    catch((read_term(S, T, Os), R = r(T,Vs,VNs,Ss)), error(E,_), R = e(E)),
    N1 is N-1, c45_rd(N1, S, Pc, Rs).
"""


def transient(r):
    return (r == "missing" or r.startswith("timeout") or r.startswith("abort") or r.startswith("skipped")
            or r.startswith("panic") or "existence_error" in r)


# ------------------------------------------------------------------ generator

NAMED_POOL = ["A", "B", "C", "X", "Y", "Z", "X1", "Xy", "Foo", "Aa", "AA", "X_", "X_1", "Bar_baz",
              "_A", "_B", "_x", "_1", "__", "_a1", "_X_y", "___", "_0", "_Foo",
              "\u00c9a", "\u03a9", "\u00c4rger", "_\u00c9", "X\u00e9", "A\u03c9", "\u0416", "_\u03c9"]
ATOMS = ["a", "b", "foo", "aB", "a_B", "x_Y", "[]", "{}", "'X'", "'_'", "'_A'", "'hello World'", "'It''s A'",
         "'a\\'B'", "\u00e9a", "a1", "'A,B'", "'f(X)'", "'% X'", "'/* A'", "xFF", "e5", "'0''A'"]
NUMBERS = ["0", "1", "42", "0'A", "0'_", "0'z", "0'X", "1.0E5", "1.5e3", "2.0e-3", "0xFF", "0xAB", "0b101", "0o17",
           "1_000", "1.0", "123456789012345678901234567890", "0'\\n", "7"]
STRINGS = ['"abc"', '"X Y _"', '"a\\"B"', '"_A"', '""', '"Foo(Bar)"', '"it\'s"', '"% X"', '"/* A */"', '"A,_B"']
FUNCTORS = ["f", "g", "foo", "'F'", "'_'", "'X y'", "p_Q", "aB", "\u00e9"]
COMMENTS = ["% X Y _\n", "/* A _ B */", "/* 'A */", "% \"B\n", "/* % */", "%\n", "/* X\n Y */", "% 'q\n", "/**/"]
SPACES = [" ", " ", "\n", "\t", "  ", " \n "]

# ISO operator table entries used by the renderer: name -> (priority, type, symbolic?)
INFIX = {":-": (1200, "xfx", True), "-->": (1200, "xfx", True), ";": (1100, "xfy", False), "->": (1050, "xfy", True),
         ",": (1000, "xfy", False), "=": (700, "xfx", True), "\\=": (700, "xfx", True), "==": (700, "xfx", True),
         "\\==": (700, "xfx", True), "@<": (700, "xfx", True), "=..": (700, "xfx", True), "is": (700, "xfx", None),
         "<": (700, "xfx", True), "=<": (700, "xfx", True), ">=": (700, "xfx", True), "=:=": (700, "xfx", True),
         "+": (500, "yfx", True), "-": (500, "yfx", True), "*": (400, "yfx", True), "/": (400, "yfx", True),
         "mod": (400, "yfx", None), "rem": (400, "yfx", None), "//": (400, "yfx", True), ">>": (400, "yfx", True),
         "**": (200, "xfx", True), "^": (200, "xfy", True)}
PREFIX = {"-": (200, "fy", True), "\\+": (900, "fy", True), ":-": (1200, "fx", True), "?-": (1200, "fx", True),
          "\\": (200, "fy", True)}
SYMCH = set("+-*/\\^<>=~:.?@#&$")


def gen_var(rng, names):
    r = rng.random()
    if r < 0.3:
        return ("anon",)
    return ("var", rng.choice(names))


def gen_term(rng, names, depth):
    r = rng.random()
    if depth <= 0 or r < 0.25:
        k = rng.random()
        if k < 0.6:
            return gen_var(rng, names)
        if k < 0.75:
            return ("atom", rng.choice(ATOMS))
        if k < 0.9:
            return ("num", rng.choice(NUMBERS))
        return ("str", rng.choice(STRINGS))
    if r < 0.5:
        n = rng.choice([1, 1, 2, 2, 3, 4, 6])
        return ("cmp", rng.choice(FUNCTORS), [gen_term(rng, names, depth - 1) for _ in range(n)])
    if r < 0.65:
        n = rng.choice([0, 1, 2, 3, 4, 5])
        items = [gen_term(rng, names, depth - 1) for _ in range(n)]
        tail = None
        if n > 0 and rng.random() < 0.4:
            # (an atom tail after one-char atoms makes the library API's answer conversion panic:
            # notes/findings-misc.md; integer tails are fine)
            tail = gen_var(rng, names) if rng.random() < 0.8 else ("num", "7")
        return ("list", items, tail)
    if r < 0.72:
        n = rng.choice([1, 2, 3])
        return ("curly", [gen_term(rng, names, depth - 1) for _ in range(n)])
    if r < 0.9:
        op = rng.choice(list(INFIX))
        return ("infix", op, gen_term(rng, names, depth - 1), gen_term(rng, names, depth - 1))
    if r < 0.96:
        return ("prefix", rng.choice(list(PREFIX)), gen_term(rng, names, depth - 1))
    return ("paren", gen_term(rng, names, depth - 1))


def lay(rng, p=0.25, must=False):
    """optional layout fragment; a comment is always preceded by a blank."""
    if not must and rng.random() > p:
        return []
    if rng.random() < 0.35:
        return [[" " + rng.choice(COMMENTS) + rng.choice(["", " ", "\n"]), "l"]]
    return [[rng.choice(SPACES), "l"]]


def prio(t):
    if t[0] == "infix":
        return INFIX[t[1]][0]
    if t[0] == "prefix":
        return PREFIX[t[1]][0]
    return 0


def render(rng, t, maxp, out):
    """appends fragments for term t in a context of maximal priority maxp."""
    k = t[0]
    if k == "anon":
        out.append(["_", "v"])
    elif k == "var":
        out.append([t[1], "v"])
    elif k in ("atom", "num", "str"):
        out.append([t[1], "o"])
    elif k == "cmp":
        out.append([t[1] + "(", "o"])
        for i, a in enumerate(t[2]):
            if i:
                out.extend(lay(rng))
                out.append([",", "o"])
            out.extend(lay(rng))
            render(rng, a, 999, out)
        out.extend(lay(rng))
        out.append([")", "o"])
    elif k == "list":
        out.append(["[", "o"])
        for i, a in enumerate(t[1]):
            if i:
                out.extend(lay(rng))
                out.append([",", "o"])
            out.extend(lay(rng))
            render(rng, a, 999, out)
        if t[2] is not None:
            out.extend(lay(rng))
            out.append(["|", "o"])
            out.extend(lay(rng))
            render(rng, t[2], 999, out)
        out.extend(lay(rng))
        out.append(["]", "o"])
    elif k == "curly":
        out.append(["{", "o"])
        for i, a in enumerate(t[1]):
            if i:
                out.extend(lay(rng))
                out.append([",", "o"])
            out.extend(lay(rng))
            render(rng, a, 999, out)
        out.extend(lay(rng))
        out.append(["}", "o"])
    elif k == "paren":
        out.append(["(", "o"])
        out.extend(lay(rng))
        render(rng, t[1], 1200, out)
        out.extend(lay(rng))
        out.append([")", "o"])
    elif k == "infix":
        p, ty, sym = INFIX[t[1]]
        if p > maxp:
            return render(rng, ("paren", t), 1200, out)
        lp = p if ty == "yfx" else p - 1
        rp = p if ty == "xfy" else p - 1
        render(rng, t[2], lp, out)
        tight = sym is not None and rng.random() < 0.4
        if tight and (out[-1][0][-1] in SYMCH):
            tight = False
        out.extend(lay(rng, must=not tight))
        out.append([t[1], "o"])
        mark = len(out)
        out.extend(lay(rng, must=not tight))
        render(rng, t[3], rp, out)
        if tight and len(out) > mark and (out[mark][0][0] in SYMCH or out[mark][0][0] == "("):
            # `a=\+b` would lex as one symbol token and `- (` / `=(`: keep a blank to stay in the
            # plain infix reading
            out.insert(mark, [" ", "l"])
    elif k == "prefix":
        p, ty, sym = PREFIX[t[1]]
        if p > maxp:
            return render(rng, ("paren", t), 1200, out)
        ap = p if ty == "fy" else p - 1
        out.append([t[1], "o"])
        mark = len(out)
        out.extend(lay(rng, p=0.5))
        sub = t[2]
        # a number right after a prefix minus would be a negative literal, an infix term would be
        # re-associated: keep the operand atomic-looking
        if sub[0] in ("num", "infix", "prefix", "atom"):
            sub = ("paren", sub)
        render(rng, sub, ap, out)
        # `-(` would start a compound term (arguments of priority 999), `-\\+` one symbol token
        if len(out) > mark and (out[mark][0][0] in SYMCH or out[mark][0][0] == "("):
            out.insert(mark, [" ", "l"])
    else:
        raise ValueError(k)


def gen_clause(rng, names, depth):
    t = gen_term(rng, names, depth)
    out = []
    out.extend(lay(rng, p=0.3))
    render(rng, t, 1200, out)
    out.extend(lay(rng, p=0.2))
    if out[-1][1] != "l" and out[-1][0][-1] in SYMCH:
        out.append([" ", "l"])
    out.append([".", "o"])
    return out


def frag_text(frags):
    return "".join(f[0] for f in frags)


def count_vars(frags):
    return sum(1 for f in frags if f[1] == "v")


def gen_item(rng, tier_depth):
    k = rng.choice([1, 2, 2, 3, 4, 6])
    names = rng.sample(NAMED_POOL, k)
    nclauses = rng.choice([1, 1, 1, 2, 3])
    depth = rng.choice([1, 2, 2, 3, 3, tier_depth])
    clauses = [gen_clause(rng, names, depth) for _ in range(nclauses)]
    # separator between clauses / trailing text after the last end token
    seps = [rng.choice([" ", "\n", " % X _\n", "\n/* Y */\n"]) for _ in range(nclauses - 1)]
    seps.append(rng.choice(["", "", "\n", " ", " % A\n", "\n% _\n"]))
    route = "file" if rng.random() < 0.3 else "chars"
    opts = rng.choice(["vns", "vns", "vns", "snv", "nvs", "svn", "vsn", "nsv", "v", "n", "s", "vn", "sv", "ns"])
    it = {"clauses": clauses, "seps": seps, "route": route, "opts": opts}
    for c in clauses:
        nv = count_vars(c)
        if nv > 1 and rng.random() < 0.6:
            o = list(range(nv))
            rng.shuffle(o)
        else:
            o = None
        it.setdefault("orders", []).append(o)
    return it


def special_items():
    """hand-made boundary cases the proofs single out."""
    def cl(*fr):
        return [list(f) for f in fr]
    v = lambda n: [n, "v"]
    o = lambda s: [s, "o"]
    L = lambda s: [s, "l"]
    texts = [
        cl(v("_"), o(".")),
        cl(v("X"), o(".")),
        cl(o("("), L(" "), v("_"), L(" "), o(")"), o(".")),
        cl(o("f("), v("_"), o(","), v("_"), o(")"), o(".")),
        cl(o("f("), v("_"), o(","), v("_"), o(","), v("_"), o(","), v("_"), o(")"), o(".")),
        cl(o("["), v("_"), o(","), v("_"), o(","), v("_"), o("|"), v("_"), o("]"), o(".")),
        cl(v("_"), o("+"), v("_"), o(".")),
        cl(o("f("), o("g("), v("A"), o(")"), o(","), v("B"), o(")"), o(".")),
        cl(o("f("), o("g("), v("A"), o(")"), o(","), v("B"), o(","), v("_C"), o(","), v("_"), o(","), v("A"), o(","), v("_"), o(")"), o(".")),
        cl(o("f("), v("_A"), o(","), v("_A"), o(","), v("__"), o(","), v("_1"), o(","), v("\u00c9a"), o(")"), o(".")),
        cl(o("f("), v("X"), o(","), o('"abc"'), o(","), o("'Y'"), o(","), o("0'Z"), o(","), v("Y"), o(")"), o(".")),
        cl(o("f("), o("a"), o(","), v("A"), o(","), o("aA"), o(","), v("Aa"), o(")"), o(".")),
        cl(o("foo"), o(".")),
        cl(L(" % X\n"), o("foo("), o("1"), o(")"), o(".")),
        cl(o("f("), v("_"), o(","), o("g("), v("_"), o(","), v("_"), o(")"), o(","), v("_"), o(")"), o(".")),
    ]
    out = []
    for t in texts:
        for route in ("chars", "file"):
            out.append({"clauses": [t], "seps": [""], "route": route, "opts": "vns", "orders": [None]})
    # only layout / empty text: end_of_file, three empty lists
    for txt in ["", " ", "% X\n", "/* A */ "]:
        out.append({"clauses": [[[txt, "l"]]] if txt else [[]], "seps": [""], "route": "chars", "opts": "vns",
                    "orders": [None], "eof": True})
    return out


# ------------------------------------------------------------------ rendering of lines

def pl_string(s):
    out = []
    for c in s:
        if c == "\\":
            out.append("\\\\")
        elif c == '"':
            out.append('\\"')
        elif c == "\n":
            out.append("\\n")
        elif c == "\t":
            out.append("\\t")
        else:
            out.append(c)
    return '"' + "".join(out) + '"'


def hesc(s):
    return s.replace("\\", "\\\\").replace("\n", "\\n").replace("\t", "\\t").replace("\r", "\\r")


def item_text(it):
    return "".join(frag_text(c) + s for c, s in zip(it["clauses"], it["seps"]))


def model_tokens(frags):
    toks = []
    for text, kind in frags:
        if kind == "v":
            toks.append("v:" + text)
        else:
            toks.append(kind)
    return " ".join(toks)


def make_case(cid, items, tmpdir):
    impl = ["L\t%s_h\tuser\t%s" % (cid, hesc(HELPER))]
    model = []
    for k, it in enumerate(items):
        lid = "%s_%d" % (cid, k)
        it["id"] = lid
        text = item_text(it)
        it["text"] = text
        if it["route"] == "file":
            os.makedirs(tmpdir, exist_ok=True)
            path = os.path.join(tmpdir, lid + ".pl")
            with open(path, "w", encoding="utf-8") as fh:
                fh.write(text)
            goal = "c45_file(%s, %d, %s, R)" % (pl_string(path), len(it["clauses"]), it["opts"])
        else:
            goal = "use_module(library(charsio)), c45_chars(%s, %s, R)" % (pl_string(text), it["opts"])
        it["prolog"] = goal + "."
        impl.append("Q\t%s\t1\t%s." % (lid, hesc(goal)))
        for j, c in enumerate(it["clauses"]):
            o = (it.get("orders") or [None] * len(it["clauses"]))[j]
            model.append("rv\t%s_m%d\t%s\t%s" % (lid, j, model_tokens(c), " ".join(map(str, o)) if o else "-"))
    return {"id": cid, "items": items, "impl": impl, "model": model}


def clean_item(it):
    return {k: it[k] for k in ("clauses", "seps", "route", "opts", "orders", "eof") if k in it}


# ------------------------------------------------------------------ parsing the answers

def skip_quoted(s, i):
    """s[i] is an opening quote of the harness' canonical syntax; returns the index of the closing
    quote. Escapes: `\\\\`, `\\'`, `\\"` (one character after the backslash) and `\\xHH\\` (up to the
    closing backslash)."""
    q = s[i]
    i += 1
    n = len(s)
    while i < n and s[i] != q:
        if s[i] == "\\":
            if i + 1 < n and s[i + 1] == "x":
                i = s.index("\\", i + 2)
            else:
                i += 1
        i += 1
    return i


def split_top(s):
    """split `a,b,c` at top-level commas (outside quotes and brackets)."""
    parts, depth, i, start = [], 0, 0, 0
    n = len(s)
    while i < n:
        c = s[i]
        if c in "'\"":
            i = skip_quoted(s, i)
        elif c in "([{":
            depth += 1
        elif c in ")]}":
            depth -= 1
        elif c == "," and depth == 0:
            parts.append(s[start:i])
            start = i + 1
        i += 1
    parts.append(s[start:])
    return parts


def strip_quoted(s):
    """the text with every quoted atom / string replaced by Q (so that _G inside quotes cannot match)."""
    out, i, n = [], 0, len(s)
    while i < n:
        c = s[i]
        if c in "'\"":
            i = skip_quoted(s, i)
            out.append("Q")
        else:
            out.append(c)
        i += 1
    return "".join(out)


VAR_RE = re.compile(r"_G(\d+)")
PAIR_RE = re.compile(r"'='\('((?:[^'\\]|\\.)*)',_G(\d+)\)")


def parse_r(text):
    """'r'(T,Vs,VNs,Ss) -> dict(t=[ranks], v=[ranks]|None, n=[(name,rank)]|None, s=…) with the
    variables renumbered by first occurrence inside this r(...) term; 'e'(E) -> dict(err=E)."""
    text = text.strip()
    if text.startswith("'e'(") and text.endswith(")"):
        return {"err": text[4:-1]}
    if not (text.startswith("'r'(") and text.endswith(")")):
        return {"bad": text}
    args = split_top(text[4:-1])
    if len(args) != 4:
        return {"bad": text}
    ren = {}

    def rk(g):
        g = int(g)
        if g not in ren:
            ren[g] = len(ren)
        return ren[g]

    t = [rk(m.group(1)) for m in VAR_RE.finditer(strip_quoted(args[0]))]
    res = {"t": t, "tterm": args[0]}
    for key, a in (("v", args[1]), ("n", args[2]), ("s", args[3])):
        a = a.strip()
        if VAR_RE.fullmatch(a):
            res[key] = None          # option not requested: the slot is an unbound variable
            rk(a[2:])
        elif key == "v":
            if not (a.startswith("[") and a.endswith("]")):
                return {"bad": text}
            inner = a[1:-1]
            els = split_top(inner) if inner else []
            if not all(VAR_RE.fullmatch(e) for e in els):
                return {"bad": text}
            res[key] = [rk(e[2:]) for e in els]
        else:
            if not (a.startswith("[") and a.endswith("]")):
                return {"bad": text}
            inner = a[1:-1]
            els = split_top(inner) if inner else []
            ps = []
            for e in els:
                m = PAIR_RE.fullmatch(e)
                if not m:
                    return {"bad": text}
                ps.append((m.group(1), rk(m.group(2))))
            res[key] = ps
    return res


def impl_results(text, n):
    """answer text of one Q line -> list of n per-clause texts (or None)."""
    t = text.split(" ;; ")[0].strip()      # first answer (no pool text contains " ;; ")
    if not (t.startswith("{R=") and t.endswith("}")):
        return None
    body = t[3:-1]
    if body.startswith("["):
        if not body.endswith("]"):
            return None
        parts = split_top(body[1:-1]) if body != "[]" else []
        return parts if len(parts) == n else None
    return [body]


def parse_model(text):
    m = re.fullmatch(r"t=(\S*) v=(\S*) n=(\S*) s=(\S*) spec=(\S+)", text.strip())
    if not m:
        return None
    nums = lambda s: [int(x) for x in s.split(",")] if s else []
    pairs = lambda s: [(p.rsplit(":", 1)[0], int(p.rsplit(":", 1)[1])) for p in s.split(",")] if s else []
    return {"t": nums(m.group(1)), "v": nums(m.group(2)), "n": pairs(m.group(3)), "s": pairs(m.group(4)),
            "spec": m.group(5)}


# ------------------------------------------------------------------ judge

def judge_clause(it, j, itext, mtext, stats):
    """returns None (agree) or (kind, sig_extra, detail)."""
    mo = parse_model(mtext)
    if mo is None:
        return ("disagreement", {"part": "model-output", "model": mtext}, "model driver gave no result")
    if mo["spec"] != "ok":
        return ("disagreement", {"part": "model-spec"}, "mirrored mechanism differs from the specification in the model (theorem C45_mechanism_eq_spec contradicted: model/driver defect)")
    if itext is None:
        return ("disagreement", {"part": "impl-output"}, "unparsable implementation answer")
    r = parse_r(itext)
    if "bad" in r:
        return ("disagreement", {"part": "impl-output", "impl": r["bad"][:200]}, "unparsable implementation answer")
    if it.get("eof") or (j >= 1 and it["route"] == "chars"):
        return None
    if "err" in r:
        return ("disagreement", {"part": "syntax", "impl": r["err"]},
                "the generated clause text was rejected by the reader (generator assumption broken, or a reader defect)")
    if r["t"] != mo["t"]:
        return ("violation", {"part": "term", "impl": ",".join(map(str, r["t"])), "expected": ",".join(map(str, mo["t"]))},
                "the variable pattern of the term read differs: same-named occurrences must be one variable, different names and every `_` distinct variables")
    nvars = (max(mo["t"]) + 1) if mo["t"] else 0
    if r["v"] is not None and r["v"] != mo["v"]:
        missing = [k for k in mo["v"] if k not in r["v"]]
        named = {rk for _, rk in mo["n"]}
        sub = [k for k in mo["v"] if k in r["v"]] == r["v"]
        if sub and missing and all(k not in named for k in missing) and (r["n"] in (None, mo["n"])):
            return ("violation", {"part": "variables", "defect": "anonymous-variables-missing-from-variables-list"},
                    "variables/1 omits anonymous variables of the term (%d of %d variables reported)" % (len(r["v"]), nvars))
        return ("violation", {"part": "variables", "impl": ",".join(map(str, r["v"])), "expected": ",".join(map(str, mo["v"]))},
                "variables/1 is not the list of the term's variables in first-occurrence order")
    if r["n"] is not None and r["n"] != mo["n"]:
        return ("violation", {"part": "variable_names", "impl": repr(r["n"]), "expected": repr(mo["n"])},
                "variable_names/1 is not the list of named variables with their names in first-occurrence order")
    if r["s"] is not None:
        if sorted(r["s"]) != sorted(mo["s"]):
            return ("violation", {"part": "singletons", "impl": repr(r["s"]), "expected": repr(sorted(mo["s"], key=lambda p: p[1]))},
                    "singletons/1 is not exactly the set of named variables occurring once")
        if len(r["s"]) > 1:
            stats["singleton_lists"] += 1
            if r["s"] == sorted(r["s"], key=lambda p: p[1]):
                stats["singletons_in_left_to_right_order"] += 1
    return None


def run(ctx):
    rng, tier = ctx["rng"], ctx["tier"]
    rep = diff.replay_case(ctx)
    tmpdir = os.path.join(TMP, "%d" % os.getpid())
    if rep is not None:
        cases = [make_case("rp%d" % i, [clean_item(it) for it in c["items"]], tmpdir) for i, c in enumerate(rep)]
    else:
        cases = [make_case("k%d" % i, [clean_item(it) for it in c["items"]], tmpdir)
                 for i, c in enumerate(diff.load_corpus("C45"))]
        sp = special_items()
        cases.append(make_case("sp", sp, tmpdir))
        n = 1800 if tier == "quick" else 30000
        items = [gen_item(rng, 4 if tier == "quick" else 5) for _ in range(n)]
        for i in range(0, len(items), 50):
            cases.append(make_case("g%d" % (i // 50), items[i:i + 50], tmpdir))
    t0 = time.time()
    try:
        impl, model = diff.run_cases(cases, impl_env=IMPL_ENV)
        flaky = [it for c in cases for it in c["items"] if transient(impl.get(it["id"], "missing"))]
        retried = len(flaky)
        if flaky:
            rc = [make_case("y%d" % i, [clean_item(it)], tmpdir) for i, it in enumerate(flaky[:500])]
            impl2, _ = diff.run_cases([{"id": c["id"], "impl": c["impl"]} for c in rc], impl_env=IMPL_ENV, parallel=False)
            for it, c in zip(flaky, rc):
                impl[it["id"]] = impl2.get(c["items"][0]["id"], "missing")
    finally:
        shutil.rmtree(tmpdir, ignore_errors=True)
    core.log("[C45] correspondence run: %d cases, %.1fs, %d retried" % (len(cases), time.time() - t0, retried))
    findings, agree, total = [], 0, 0
    distinct = set()
    stats = {"singleton_lists": 0, "singletons_in_left_to_right_order": 0}
    hist = {"clauses": 0, "route_file": 0, "route_chars": 0, "with_anonymous": 0, "with_repeated_name": 0,
            "with_underscore_name": 0, "with_unicode_name": 0, "with_layout_or_comment": 0, "no_variables": 0,
            "adjacent_anonymous": 0, "second_or_later_clause_of_a_stream": 0}
    nvar_hist = {}
    for c in cases:
        for it in c["items"]:
            n = len(it["clauses"])
            res = impl_results(impl.get(it["id"], "missing"), n if it["route"] == "file" else 1)
            hist["route_" + it["route"]] += 1
            for j, cl in enumerate(it["clauses"]):
                if it["route"] == "chars" and j >= 1:
                    continue
                total += 1
                hist["clauses"] += 1
                names = [f[0] for f in cl if f[1] == "v"]
                nvar_hist[len(names)] = nvar_hist.get(len(names), 0) + 1
                if "_" in names:
                    hist["with_anonymous"] += 1
                if any(a == "_" and b == "_" for a, b in zip(names, names[1:])):
                    hist["adjacent_anonymous"] += 1
                if len(set(x for x in names if x != "_")) < len([x for x in names if x != "_"]):
                    hist["with_repeated_name"] += 1
                if any(x.startswith("_") and x != "_" for x in names):
                    hist["with_underscore_name"] += 1
                if any(ord(ch) > 127 for x in names for ch in x):
                    hist["with_unicode_name"] += 1
                if any(f[1] == "l" for f in cl):
                    hist["with_layout_or_comment"] += 1
                if not names:
                    hist["no_variables"] += 1
                if j >= 1:
                    hist["second_or_later_clause_of_a_stream"] += 1
                if len(names) >= 2:
                    distinct.add(frag_text(cl))
                itext = res[j] if res is not None and j < len(res) else None
                mtext = model.get("%s_m%d" % (it["id"], j), "missing")
                v = judge_clause(it, j, itext, mtext, stats)
                if rep is not None:
                    print("replay %s clause %d: %r\n  impl  = %s\n  model = %s\n  -> %s" % (
                        it["id"], j, frag_text(cl), itext if itext is not None else impl.get(it["id"]), mtext,
                        "agree" if v is None else v[0] + " " + v[2]))
                if v is None:
                    agree += 1
                    continue
                kind, extra, detail = v
                sig = {"family": "vars"}
                sig.update(extra)
                if "defect" not in extra:
                    sig["text"] = frag_text(cl)[:120]
                mini = clean_item(it)
                mini = {"clauses": [cl], "seps": [""], "route": it["route"], "opts": it["opts"],
                        "orders": [(it.get("orders") or [None] * n)[j]]}
                case = {"items": [mini], "text": frag_text(cl), "observed": itext, "model_out": mtext,
                        "query": it["prolog"]}
                findings.append(core.Finding(kind, sig, detail, case))
    samples = [it["prolog"] for c in cases[1:4] for it in c["items"][:2]]
    return {
        "evaluations": total,
        "distinct_nontrivial": len(distinct),
        "rule": "random term trees (depth<=4 quick / 5 thorough) over 1..6 variable names drawn from a pool with plain, `_`-prefixed, "
                "digit/underscore-containing and non-ASCII upper-case names, 30% anonymous `_`, inside compounds, lists with tails, {}-terms, "
                "ISO infix/prefix operators (parenthesised by priority), next to look-alikes that must not count (quoted atoms 'X', strings "
                "\"X Y _\", 0'A char literals, 0xAB, 1.0E5, comments with variable-like text); 1..3 clauses per text; 70% through "
                "read_term_from_chars/3, 30% through read_term/3 on a file stream (every clause of the file is read); option list in "
                "every order and subset; + 34 hand-made boundary texts. non-trivial = at least two variable occurrences; distinct by clause text",
        "samples": samples,
        "traces_validated_against_impl": agree,
        "disagreements_checked": total - agree,
        "retried_after_timeout": retried,
        "histogram": hist,
        "variable_occurrences_per_clause": {str(k): v for k, v in sorted(nvar_hist.items())},
        "singleton_order": stats,
        "exhaustive": False,
        "findings": findings,
    }
