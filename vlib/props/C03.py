"""C03 — Arithmetic does not depend on how the expression reaches is/2.

Static part (translator slice E2): `extract()` regenerates lean/ScryerModel/Extracted/EvalTables.lean from the
CURRENT source (extract/evaltables.py); Props/C03.lean proves over the extracted data that the compiled and the
run-time evaluator route every functor/arity to the same arithmetic_ops function, and lifts that to both evaluator
models.

Behavioural part: every generated expression is evaluated in up to 10 contexts and all canonical outcomes (value, or the
formal term of the error) must coincide — this cross-context equality is the property's own oracle:
  c1   literal in the body of a consulted clause            c1q  literal in the (compiled) query
  c2   built at run time, passed to is/2 in a variable      c3   both sides of =:= / < / =< (literal and run-time)
  c4   inside findall/3                                     c5   body of an assertz'ed clause
  c6   call(is, X, E)      c6g  G = (X is E), call(G)       c7   compiled top functor over run-time sub-terms
  c8   compiled top functor over ALIASED clause variables (operand registers hold references)
(c1, c3, c7, c8 are consulted clauses: a top-level query is evaluated by the run-time evaluator.)
The functor list comes from the extracted table, so a functor added to the source is exercised automatically.
The model side (drv_C03) predicts, from the extracted tables, which functor/arity is reported as not evaluable, and
gives the exact integer value (C01's model) for integer-only expressions.
"""
import os
import re
import struct
import time

from .. import core, diff, arith_gen as ag
from .C04 import repo_path, load_extractor

LEVEL = "proof"
TRUSTED_BASE = [
    "extract/evaltables.py: regular-expression extraction of the two dispatch tables from src/arithmetic.rs, src/machine/dispatch.rs, src/machine/arithmetic_ops.rs (fails loudly when a pattern no longer matches; the behavioural run exercises every extracted functor in both evaluators)",
    "what each arithmetic_ops function computes is a parameter of the theorems (C01/C02's subject); here only that both evaluators reach the same function with the same arguments",
    "vlib/props/C03.py renders one expression tree as Prolog text (canonical functional notation with quoted atoms) and as drv_C03 tokens",
]
ASSUMPTIONS = [
    "an expression with two independent faults (e.g. a non-evaluable functor AND a division by zero elsewhere) may report either error depending on the context: the compiler finds non-evaluable functors before anything is evaluated (ISO 7.12: which error is reported is implementation dependent). Generated expressions have at most one fault class: non-evaluable / unbound nodes are planted in otherwise error-free integer expressions",
    "a clause whose literal arithmetic contains a non-evaluable functor does not compile; for those expressions the clause contexts c1/c5 report the error at consult/assert time (c5) or are skipped (c1: a failed consult poisons the next query of the machine, see notes/findings-misc.md)",
    "right operands of ^, **, <<, >> are small literals and their left operands literals, to bound allocation",
    "lists, strings and arity >= 3 are not generated",
]

IMPL_ENV = {"SV_TIMEOUT_MS": "20000"}


def f_of_bits(b):
    return struct.unpack(">d", struct.pack(">Q", b))[0]


def bits_of_f(f):
    return struct.unpack(">Q", struct.pack(">d", f))[0]


# ------------------------------------------------------------------ functor table (from the extracted rows)

INT_BIN = ["+", "-", "*", "//", "div", "mod", "rem", "gcd", "min", "max", "/\\", "\\/", "xor"]
GROW_BIN = ["^", "<<", ">>", "**"]
INT_UN = ["-", "+", "abs", "sign", "\\"]
TO_INT_UN = ["truncate", "round", "ceiling", "floor"]


def functor_sets():
    ev = load_extractor()
    rows = ev.meta_table(repo_path())
    un = sorted({r[0] for r in rows if r[1] == 1})
    bi = sorted({r[0] for r in rows if r[1] == 2})
    co = sorted({r[0] for r in rows if r[1] == 0})
    return un, bi, co


# ------------------------------------------------------------------ expressions
# ("i", v) | ("f", bits) | ("c", name) | ("u",) unbound | ("a", name) non-evaluable atom | (functor, args...) with
# functor a str not in the tags above: use ("app", name, [args])

SAFE_EXP = [0, 1, 2, 3, 5, 31, 32, 55, 56, 62, 63, 64, -1, -2]
FLOATS = [0.0, 1.0, -1.0, 0.5, 1.5, -2.5, 2.0, 0.1, 1.0e10, 1.0e308, 5.0e-324, 9007199254740992.0, 9007199254740994.0,
          3.141592653589793, 1.0e-300, 36028797018963968.0, -36028797018963968.0, 0.25, 100.0, 1.7976931348623157e308]


def leaf_int(rng):
    return ("i", ag.rand_leaf(rng))


def leaf_float(rng):
    return ("f", bits_of_f(rng.choice(FLOATS)))


def leaf_rat(rng):
    n = rng.choice([1, -1, 3, 7, -22, 2 ** 53 + 1, 10 ** 20 + 1, 2 ** 64 + 1])
    d = rng.choice([2, 3, 7, 10, 2 ** 60 + 1, 3 ** 40])
    return ("app", "rdiv", [("i", n), ("i", d)])


def gen(rng, depth, kind, sets):
    un, bi, co = sets
    if depth == 0 or rng.random() < 0.12:
        if kind == "int":
            return leaf_int(rng)
        r = rng.random()
        if r < 0.4:
            return leaf_int(rng)
        if r < 0.75:
            return leaf_float(rng)
        if r < 0.9:
            return leaf_rat(rng)
        return ("c", rng.choice(co))
    wild = rng.random() < 0.12          # ignore the kinds: mostly type errors
    if wild:
        if rng.random() < 0.4:
            f = rng.choice(un)
            return ("app", f, [gen(rng, depth - 1, "num", sets)])
        f = rng.choice([b for b in bi if b not in GROW_BIN])
        return ("app", f, [gen(rng, depth - 1, "num", sets), gen(rng, depth - 1, "num", sets)])
    if kind == "int":
        r = rng.random()
        if r < 0.6:
            f = rng.choice(INT_BIN)
            return ("app", f, [gen(rng, depth - 1, "int", sets), gen(rng, depth - 1, "int", sets)])
        if r < 0.72:
            f = rng.choice(["^", "<<", ">>"])
            return ("app", f, [("i", rng.choice(ag.BOUND[:30])), ("i", rng.choice(SAFE_EXP))])
        if r < 0.87:
            return ("app", rng.choice(INT_UN), [gen(rng, depth - 1, "int", sets)])
        return ("app", rng.choice(TO_INT_UN), [gen(rng, depth - 1, "num", sets)])
    # kind == "num"
    r = rng.random()
    if r < 0.25:
        return gen(rng, depth, "int", sets)
    if r < 0.55:
        f = rng.choice(["+", "-", "*", "/", "min", "max", "atan2", "rdiv"] + [b for b in bi if b not in INT_BIN + GROW_BIN + ["+", "-", "*", "/", "min", "max", "atan2", "rdiv"]])
        if f == "rdiv":
            return ("app", f, [gen(rng, depth - 1, "int", sets), gen(rng, depth - 1, "int", sets)])
        return ("app", f, [gen(rng, depth - 1, "num", sets), gen(rng, depth - 1, "num", sets)])
    if r < 0.62:
        return ("app", "**", [rng.choice([leaf_int(rng), leaf_float(rng)]) if rng.random() < 0.5 else ("i", rng.randint(-5, 5)),
                              rng.choice([("i", rng.choice(SAFE_EXP)), ("f", bits_of_f(rng.choice([0.5, 2.0, -1.0, 1.5, 0.0])))])])
    f = rng.choice([u for u in un if u not in ("\\",)])
    return ("app", f, [gen(rng, depth - 1, "num", sets)])


def gen_malformed(rng, sets):
    """exactly one faulty node inside an error-free integer expression over + - *."""
    un, bi, co = sets
    small = lambda: ("i", rng.randint(-9, 9))
    bad = rng.choice([("a", "foo"), ("app", "foo", [small()]), ("app", "foo", [small(), small()]), ("u",),
                      ("app", rng.choice(bi), [small()]), ("app", rng.choice([u for u in un if u not in ("-", "+")]), [small(), small()]),
                      ("app", rng.choice(co), [small()]), ("app", rng.choice(co), [small(), small()]),
                      ("a", rng.choice(["inf", "nan", "max_integer", "random", "cputime", "a", "[]"]))])

    def wrap(e, d):
        if d == 0:
            return e
        other = small() if rng.random() < 0.6 else ("app", rng.choice(["+", "-", "*"]), [small(), small()])
        if rng.random() < 0.25:
            return wrap(("app", rng.choice(["-", "abs", "+"]), [e]), d - 1)
        pair = [e, other] if rng.random() < 0.5 else [other, e]
        return wrap(("app", rng.choice(["+", "-", "*"]), pair), d - 1)
    return wrap(bad, rng.choice([0, 1, 1, 2, 3]))


def qatom(name):
    if name == "[]":
        return "[]"
    return "'" + name.replace("\\", "\\\\").replace("'", "\\'") + "'"


def pl(e):
    t = e[0]
    if t == "i":
        return str(e[1]) if e[1] >= 0 else "(%d)" % e[1]
    if t == "f":
        f = f_of_bits(e[1])
        s = "%.17e" % abs(f)
        return s if f >= 0 else "(-%s)" % s
    if t == "c" or t == "a":
        return qatom(e[1])
    if t == "u":
        return "Unbound"
    return "%s(%s)" % (qatom(e[1]), ",".join(pl(a) for a in e[2]))


def tok(e):
    t = e[0]
    if t == "i":
        return "n:%d" % e[1]
    if t == "f":
        return "n:f%016x" % e[1]
    if t == "c" or t == "a":
        return "a:" + e[1]
    if t == "u":
        return "u"
    return "( %s %s )" % (e[1], " ".join(tok(a) for a in e[2]))


def size(e):
    return 1 + (sum(size(a) for a in e[2]) if e[0] == "app" else 0)


def functors_of(e, acc):
    if e[0] == "app":
        acc.add((e[1], len(e[2])))
        for a in e[2]:
            functors_of(a, acc)
    elif e[0] in ("c", "a"):
        acc.add((e[1], 0))
    return acc


AG_BIN = {v: k for k, v in ag.PL_BIN.items()}
AG_BIN.update({"gcd": "gcd", "min": "min", "max": "max", "xor": "bxor"})
AG_UN = {"-": "neg", "abs": "abs", "sign": "sign", "\\": "bnot", "+": "plus"}


def to_ag(e):
    """the expression in vlib/arith_gen form when it is integer-only over C01's functors, else None."""
    if e[0] == "i":
        return e[1]
    if e[0] != "app":
        return None
    args = [to_ag(a) for a in e[2]]
    if any(a is None for a in args):
        return None
    if len(args) == 1 and e[1] in AG_UN:
        return (AG_UN[e[1]], args[0])
    if len(args) == 2 and e[1] in AG_BIN:
        return (AG_BIN[e[1]], args[0], args[1])
    return None


def negzero_intermediate(e):
    """True when a float intermediate (not the final result) of `e` is -0.0 under IEEE evaluation, None when this
    small evaluator does not cover the expression. Only used to give finding C03-1 a stable signature."""
    import math
    from fractions import Fraction
    seen = []

    def ev(x, top):
        t = x[0]
        if t == "i":
            return x[1]
        if t == "f":
            return f_of_bits(x[1])
        if t == "c":
            return {"pi": math.pi, "e": math.e, "epsilon": 2.0 ** -52}[x[1]]
        if t != "app":
            raise ValueError
        a = [ev(y, False) for y in x[2]]
        f = x[1]
        if len(a) == 2:
            u, v = a
            if f == "rdiv":
                r = Fraction(u, v)
            elif f in ("+", "-", "*"):
                if isinstance(u, float) or isinstance(v, float):
                    u, v = float(u), float(v)
                r = u + v if f == "+" else u - v if f == "-" else u * v
            elif f == "/":
                r = float(u) / float(v)
            elif f == "atan2":
                r = math.atan2(float(u), float(v))
            elif f in ("min", "max"):
                r = min(u, v) if f == "min" else max(u, v)
            elif f == "**":
                r = float(u) ** float(v)
            else:
                raise ValueError
        else:
            u = a[0]
            fl = {"sin": math.sin, "cos": math.cos, "tan": math.tan, "asin": math.asin, "acos": math.acos, "atan": math.atan,
                  "exp": math.exp, "log": math.log, "sqrt": math.sqrt, "float": float,
                  "float_integer_part": lambda z: math.copysign(float(math.trunc(z)), z),
                  "float_fractional_part": lambda z: math.copysign(z - math.trunc(z), z)}
            if f == "-":
                r = -u
            elif f == "+":
                r = u
            elif f == "abs":
                r = abs(u)
            elif f in fl:
                r = fl[f](float(u))
            else:
                raise ValueError
        if isinstance(r, float) and r == 0.0 and math.copysign(1.0, r) < 0 and not top:
            seen.append(x)
        return r
    try:
        ev(e, True)
    except Exception:
        return None
    return bool(seen)


# ------------------------------------------------------------------ cases

def hesc(s):
    return s.replace("\\", "\\\\").replace("\n", "\\n")


def make_case(i, e, clause_ok):
    cid = "e%d" % i
    E = pl(e)
    qs = []
    # +0.0 is made the first float zero this machine stores (see notes/findings/C02-2.md: the float table
    # identifies the two zeros, whichever comes first wins for the life of the machine)
    impl = ["Q\t%s_z\t1\tZ = 0.0." % cid]
    top_app = e[0] == "app"
    if clause_ok:
        # compiled contexts live in consulted clauses (a top-level query is evaluated by the run-time evaluator)
        prog = "c1_%s(X) :- X is %s.\n" % (cid, E)
        prog += "c3a_%s(X) :- %s =:= X.\nc3b_%s(X) :- %s < X.\nc3c_%s(T, X) :- T =< X.\n" % (cid, E, cid, E, cid)
        if top_app:
            vs = ["A", "B"][:len(e[2])]
            vs0 = ["A0", "B0"][:len(e[2])]
            prog += "c7_%s(X, %s) :- X is %s(%s).\n" % (cid, ", ".join(vs), qatom(e[1]), ",".join(vs))
            # aliased clause variables: the operand registers hold references that must be dereferenced
            prog += "c8_%s(X) :- %s, %s, X is %s(%s).\n" % (
                cid, ", ".join("%s = %s" % (a, b) for a, b in zip(vs0, vs)),
                ", ".join("%s = %s" % (v, pl(a)) for v, a in zip(vs, e[2])), qatom(e[1]), ",".join(vs0))
        impl.append("L\t%s_l\tuser\t%s" % (cid, hesc(prog)))
        qs.append(("c1", "catch(c1_%s(X), error(Err,_), true)." % cid))
        qs.append(("c3", "T = %s, catch(X is T, error(Err,_), X = none), "
                   "catch((c3a_%s(X) -> R1 = eq ; R1 = ne), error(E1,_), R1 = err), "
                   "catch((c3b_%s(X) -> R2 = lt ; R2 = ge), error(E2,_), R2 = err), "
                   "catch((c3c_%s(T, X) -> R3 = le ; R3 = gt), error(E3,_), R3 = err)." % (E, cid, cid, cid)))
        if top_app:
            qs.append(("c7", "%s, catch(c7_%s(X, %s), error(Err,_), true)." % (
                ", ".join("%s = %s" % (v, pl(a)) for v, a in zip(vs, e[2])), cid, ",".join(vs))))
            qs.append(("c8", "catch(c8_%s(X), error(Err,_), true)." % cid))
    else:
        qs.append(("c3", "T = %s, catch(X is T, error(Err,_), X = none), "
                   "catch((%s =:= X -> R1 = eq ; R1 = ne), error(E1,_), R1 = err), "
                   "catch((%s < X -> R2 = lt ; R2 = ge), error(E2,_), R2 = err), "
                   "catch((T =< X -> R3 = le ; R3 = gt), error(E3,_), R3 = err)." % (E, E, E)))
    qs.append(("c1q", "catch(X is %s, error(Err,_), true)." % E))
    qs.append(("c2", "T = %s, catch(X is T, error(Err,_), true)." % E))
    qs.append(("c4", "findall(o(X,Err), catch(X is %s, error(Err,_), true), [o(X,Err)])." % E))
    qs.append(("c5", "catch((assertz((c5_%s(X) :- X is %s)), c5_%s(X)), error(Err,_), true)." % (cid, E, cid)))
    qs.append(("c6", "catch(call(is, X, %s), error(Err,_), true)." % E))
    qs.append(("c6g", "G = (X is %s), catch(call(G), error(Err,_), true)." % E))
    for name, q in qs:
        impl.append("Q\t%s_%s\t2\t%s" % (cid, name, hesc(q)))
    model = ["ev\t%s\t%s" % (cid, tok(e))]
    a = to_ag(e)
    if a is not None:
        try:
            ag.ref_eval(a, [])
            model.append("arith\t%s_a\t%s" % (cid, ag.to_model(a)))
        except ag.TooBig:
            pass
        except ag.EvalErr:
            model.append("arith\t%s_a\t%s" % (cid, ag.to_model(a)))
    return {"id": cid, "expr": e, "prolog": E, "impl": impl, "model": model, "contexts": [n for n, _ in qs]}


def split_top(s):
    out, depth, cur, q = [], 0, "", None
    i = 0
    while i < len(s):
        c = s[i]
        if q:
            cur += c
            if c == "\\" and i + 1 < len(s):
                cur += s[i + 1]
                i += 1
            elif c == q:
                q = None
        elif c in "'\"":
            q = c
            cur += c
        elif c in "([":
            depth += 1
            cur += c
        elif c in ")]":
            depth -= 1
            cur += c
        elif c == "," and depth == 0:
            out.append(cur)
            cur = ""
        else:
            cur += c
        i += 1
    if cur:
        out.append(cur)
    return out


def bindings(res):
    if not (res.startswith("{") and res.endswith("}")):
        return None
    d = {}
    for part in split_top(res[1:-1]):
        k, _, v = part.partition("=")
        d[k] = v
    return d


def outcome(res, name):
    """canonical outcome of one context: ('ok', value text) | ('err', formal text) | ('other', raw)."""
    if res == "true":
        return ("other", "true")
    b = bindings(res)
    if b is None:
        return ("other", res[:200])
    if name == "c3":
        x = b.get("X")
        if x == "'none'":
            errs = {b.get("Err"), b.get("E1"), b.get("E2"), b.get("E3")}
            if len(errs) == 1 and None not in errs and b.get("R1") == b.get("R2") == b.get("R3") == "'err'":
                return ("err", b["Err"])
            return ("other", "comparison contexts raise %s" % sorted(str(x) for x in errs))
        if (b.get("R1"), b.get("R2"), b.get("R3")) == ("'eq'", "'ge'", "'le'") and "Err" not in b:
            return ("ok", x)
        return ("other", "comparison contexts: X=%s R=%s,%s,%s" % (x, b.get("R1"), b.get("R2"), b.get("R3")))
    if "Err" in b and "X" not in b:
        return ("err", b["Err"])
    if "X" in b and "Err" not in b:
        return ("ok", b["X"])
    return ("other", res[:200])


def transient(r):
    return r == "missing" or r.startswith("timeout") or r.startswith("abort") or r.startswith("skipped") or r.startswith("panic(")


_FOCUS = []     # functors whose extracted rows differ (set by extract(), used by run())
_EXTRACT_FAILED = []


def extract():
    ev = load_extractor()
    out = []
    try:
        repo = repo_path()
        ct, mt = ev.compiled_table(repo), ev.meta_table(repo)
        ev.write_if_changed(os.path.join(core.LEAN, "ScryerModel", "Extracted", "EvalTables.lean"), ev.render(ct, mt))
    except ev.ExtractError as x:
        _EXTRACT_FAILED.append(str(x))
        return [core.Finding("disagreement", {"family": "extract", "class": "evaluator-tables-not-recognised"},
                             "extract/evaltables.py no longer recognises the dispatch code: %s" % x, None)]
    if ct != mt:
        diffs = sorted({(r[0], r[1]) for r in ct if r not in mt} | {(r[0], r[1]) for r in mt if r not in ct})
        _FOCUS.extend(diffs)
        core.log("[C03] extracted tables differ for %s — generating expressions around these functors" % diffs)
    out.append(None)
    return out


def run(ctx):
    rng, tier = ctx["rng"], ctx["tier"]
    if _EXTRACT_FAILED:
        # the dispatch code is no longer what the extractor (and the generator's safety assumptions about operand
        # order and sizes) understands: reported by extract(); nothing is executed on the implementation
        return {"evaluations": 0, "distinct_nontrivial": 0, "rule": "extraction failed: " + _EXTRACT_FAILED[0], "samples": [],
                "traces_validated_against_impl": 0, "disagreements_checked": 0, "findings": []}
    sets = functor_sets()
    un, bi, co = sets
    known = {(f, 1) for f in un} | {(f, 2) for f in bi} | {(f, 0) for f in co}
    rep = diff.replay_case(ctx)
    exprs = []

    def untuple(x):
        if x[0] == "app":
            return ("app", x[1], [untuple(a) for a in x[2]])
        return tuple(x)
    if rep is not None:
        exprs = [untuple(c["expr"]) for c in rep]
    else:
        for c in diff.load_corpus("C03"):
            exprs.append(untuple(c["expr"]))
        n = 500 if tier == "quick" else 9000
        nm = 120 if tier == "quick" else 1500
        # every functor at least a few times with simple operands
        simple = [("i", 7), ("i", -3), ("f", bits_of_f(0.5)), ("f", bits_of_f(-2.5)), ("i", 2 ** 70), ("app", "rdiv", [("i", 1), ("i", 3)]), ("i", 0)]
        for f in un:
            for a in (simple if tier == "thorough" else rng.sample(simple, 3)):
                exprs.append(("app", f, [a]))
        for f in bi:
            pairs = [(a, b) for a in simple for b in simple]
            for a, b in (pairs if tier == "thorough" else rng.sample(pairs, 4)):
                if f in GROW_BIN and (b[0] != "i" or abs(b[1]) > 64):
                    b = ("i", 3)
                exprs.append(("app", f, [a, b]))
        for c in co:
            exprs.append(("c", c))
        for f, ar in _FOCUS:
            for _ in range(200):
                args = [gen(rng, 1, "num", sets) for _ in range(ar)]
                exprs.append(("app", f, args) if ar else ("c", f))
        for _ in range(n):
            exprs.append(gen(rng, rng.choice([1, 2, 2, 3, 3, 4]), rng.choice(["int", "num", "num"]), sets))
        for _ in range(nm):
            exprs.append(gen_malformed(rng, sets))
    cases = []
    for i, e in enumerate(exprs):
        fs = functors_of(e, set())
        clause_ok = fs <= known
        cases.append(make_case(i, e, clause_ok))
    t0 = time.time()
    impl, model = diff.run_cases(cases, impl_env=IMPL_ENV)
    retried = 0
    flaky = [c for c in cases if any(transient(impl.get(core.line_id(l), "missing")) for l in c["impl"])]
    if flaky:
        # a few disturbed cases are machine load (or a panic that discarded the machine): run them again, each alone
        # on a fresh machine. Many of them are a property of the tree under test: judged as they are.
        retried = min(len(flaky), 12)
        for c in flaky[:12]:
            impl.update(core.run_impl(["R\t%s_r" % c["id"]] + c["impl"], env={"SV_TIMEOUT_MS": "20000"}))
    core.log("[C03] correspondence run: %d expressions, %.1fs, %d retried" % (len(cases), time.time() - t0, retried))

    findings, agree = [], 0
    panics = {}
    negzero_instances = 0
    distinct = set()
    kinds = {"value": 0, "error": 0}
    err_kinds = {}
    functor_hits = {}
    evals = 0
    for c in cases:
        e, cid = c["expr"], c["id"]
        for fa in functors_of(e, set()):
            functor_hits["%s/%d" % fa] = functor_hits.get("%s/%d" % fa, 0) + 1
        outs = {}
        for name in c["contexts"]:
            outs[name] = outcome(impl.get("%s_%s" % (cid, name), "missing"), name)
            evals += 1
        mres = model.get(cid, "missing")
        mm = dict(kv.split("=", 1) for kv in mres.split("\t") if "=" in kv)
        if size(e) > 1:
            distinct.add(c["prolog"])
        ref = outs["c2"]
        if rep is not None:
            print("replay %s\n  model=%s arith=%s\n  impl=%s" % (c["prolog"], mres, model.get(cid + "_a"), outs))
        problems = []
        if "c1" in c["contexts"] and impl.get(cid + "_l") != "loaded":
            problems.append(("setup", "consult: %s" % impl.get(cid + "_l")))
        differing = sorted(k for k, v in outs.items() if v != ref)
        if ref[0] == "other" and ref[1].startswith("panic(") and not differing:
            # the evaluator itself panics, identically in every context: not a dependence on the context (such
            # inputs are C01/C02's findings, e.g. C02-1 floor(2.0**55))
            panics[ref[1][:90]] = panics.get(ref[1][:90], 0) + 1
            agree += 1
            continue
        if ref[0] == "other":
            problems.append(("contexts", "run-time context c2 gives no canonical outcome: %s" % (ref,)))
        elif differing:
            problems.append(("contexts", "contexts %s differ from the run-time context c2=%s: %s" % (
                differing, ref, {k: outs[k] for k in differing})))
        # model: non-evaluable prediction from the extracted tables
        mC, mM = mm.get("C", ""), mm.get("M", "")
        if mC != mM:
            problems.append(("model", "the two model evaluators differ: %s" % mres))
        pm = re.fullmatch(r"err evaluable (.*)/(\d+)", mM)
        if pm:
            want = "'type_error'('evaluable','/'(%s,%s))" % (qatom(pm.group(1)), pm.group(2))
            if ref != ("err", want):
                problems.append(("tables", "extracted tables predict %s, implementation gives %s" % (want, ref)))
        elif mM == "err inst":
            if ref != ("err", "'instantiation_error'"):
                problems.append(("tables", "model predicts instantiation_error, implementation gives %s" % (ref,)))
        elif mM.startswith("ok "):
            if ref[0] == "err" and ref[1].startswith("'type_error'('evaluable'"):
                problems.append(("tables", "every functor is in the extracted tables but the implementation reports %s" % ref[1]))
        ar = model.get(cid + "_a")
        if ar is not None:
            iv = ("ok " + ref[1]) if ref[0] == "ok" else ag.canon_impl_answer("{Err=%s}" % ref[1]) if ref[0] == "err" else "other"
            mv = " ".join(ar.split(" ")[:2]) if ar.startswith("ok") else ar
            if iv != mv:
                problems.append(("value", "integer model gives %s, implementation %s" % (mv, iv)))
        if ref[0] == "ok":
            kinds["value"] += 1
        elif ref[0] == "err":
            kinds["error"] += 1
            k = ref[1].split("(")[0] + ("(" + ref[1].split("(")[1].split(",")[0] if "(" in ref[1] else "")
            err_kinds[k] = err_kinds.get(k, 0) + 1
        if not problems:
            agree += 1
            continue
        case = {"expr": c["expr"], "prolog": c["prolog"], "outcomes": {k: list(v) for k, v in outs.items()}, "model": mres}
        top = e[1] if e[0] == "app" else e[0]
        for cls, msg in problems:
            if cls == "contexts" and negzero_intermediate(e) and all(
                    v[0] == "ok" or (k == "c3" and v[1].startswith("comparison contexts: X=")) for k, v in outs.items()):
                negzero_instances += 1
                findings.append(core.Finding("violation", {"family": "arithctx", "class": "negative-zero-intermediate"},
                                             "an intermediate result -0.0 keeps its sign in some contexts and becomes +0.0 in others (finding C03-1): " + msg, case))
            elif cls == "contexts":
                findings.append(core.Finding("violation", {"family": "arithctx", "class": "contexts-differ", "contexts": ",".join(differing),
                                                           "expr": c["prolog"][:120]},
                                             "the same expression evaluates differently depending on how it reaches the evaluator: " + msg, case))
            elif cls == "value":
                findings.append(core.Finding("disagreement", {"family": "arithctx", "class": "integer-value", "expr": c["prolog"][:120]}, msg, case))
            else:
                findings.append(core.Finding("disagreement", {"family": "arithctx", "class": cls, "top": str(top), "expr": c["prolog"][:120]}, msg, case))
    missing = sorted("%s/%d" % k for k in known if "%s/%d" % k not in functor_hits)
    return {
        "evaluations": evals,
        "expressions": len(cases),
        "distinct_nontrivial": len(distinct),
        "rule": "expression trees (depth <= 4) over every functor of the extracted table (%d unary, %d binary, %d constants) with integer (boundary-biased, C01's generator), float, rational and constant leaves, kind-directed so that most evaluate, 12%% kind-blind (type errors); every functor applied to simple operands; plus expressions with exactly one planted fault (non-evaluable atom/functor, evaluable functor at a wrong arity, unbound variable). Each expression is evaluated in up to 9 contexts. non-trivial = at least one functor; distinct by expression text" % (len(un), len(bi), len(co)),
        "samples": [c["prolog"] for c in cases[:2]] + [c["prolog"] for c in cases[-4:]],
        "traces_validated_against_impl": agree,
        "disagreements_checked": len(cases) - agree,
        "retried_after_timeout": retried,
        "outcome_kinds": kinds,
        "error_kinds_hit": err_kinds,
        "functors_never_generated": missing,
        "same_panic_in_every_context": panics,
        "known_defect_instances": {"negative-zero-intermediate": negzero_instances},
        "table_rows": len(known),
        "exhaustive": False,
        "findings": findings,
    }
