"""C46 — clp(B) decides satisfiability and counts models exactly.

One abstract *scenario* is a small sequence of clp(B) goals over Boolean expressions built from
every connective (0 1 ~ * + # =:= =\\= =< >= < > ^ +(L) *(L) card/2). From a scenario we produce
  * Prolog queries for the implementation (harness): taut/2, sat_count/2, sat/1 + findall labeling/1,
  * one token line for the Lean model driver (drv_C46: ROBDD algorithms of clpb.pl, Model/BDD.lean),
  * the truth-table answer computed here by brute force (`ref`), independent of both.
Props/C46.lean proves model = truth-table semantics for all formulas; the run compares all three.
What is compared: does sat/1 succeed, the answer of taut/2 (0, 1 or failure), the number returned
by sat_count/2, and the list of labeling/1 solutions as a multiset (exactly the satisfying
assignments, each once). The ORDER of the labeling solutions is compared only when no two
variables of the query are equal in all solutions (otherwise clp(B) has unified them, and which
index the merged variable keeps is not documented).
"""
import itertools
import re
import time

from .. import core, diff

LEVEL = "proof"
TRUSTED_BASE = [
    "vlib/props/C46.py renders one abstract formula as Prolog text (fully parenthesised), as the prefix-token line of drv_C46 (variables numbered by first occurrence = clp(B) index order) and evaluates it by brute force over all assignments (`ref`), three small independent recursive functions over the same tuple tree",
    "clpb.pl's unique table (make_node/4 with per-variable hash tables and node IDs) is modelled by structural equality of decision trees; the apply/restriction memo tables are modelled as absent (they only cache)",
    "constraint propagation (satisfiable_bdd/1: variables bound or aliased after sat/1) and the one-BDD-per-connected-component store are not modelled; they are tied only through the observable answers (labeling solutions after sat/1, taut/2 and sat_count/2 under posted constraints)",
]
ASSUMPTIONS = [
    "expressions contain no atoms (universally quantified parameters) and card/2 index lists contain non-negative integers and ranges only",
    "a variable quantified by ^ does not also occur free in the same query (sat/1 splits conjunctions into separate sat/1 goals, so `sat(X * X^F)` binds X before `X^F` is parsed and throws domain_error; ^ is outside the statement's connective list)",
    "labeling/1 is called with distinct variables that all occur in the posted constraints",
]

IMPL_ENV = {"SV_TIMEOUT_MS": "60000"}
BINOPS = ["*", "+", "#", "=:=", "=\\=", "=<", ">=", "<", ">"]
TOK = {"*": "*", "+": "+", "#": "#", "=:=": "=", "=\\=": "n", "=<": "le", ">=": "ge", "<": "lt", ">": "gt"}


def transient(r):
    return r == "missing" or r.startswith("timeout") or r.startswith("abort") or r.startswith("skipped") or r.startswith("panic")


# ------------------------------------------------------------------ formulas as tuples
# ('c',b) ('v',i) ('~',a) (op,a,b) ('^',i,a) ('+L',[..]) ('*L',[..]) ('card',[(lo,hi)|int..],[..])

def vname(i):
    return ("Q%d" % (i - 100)) if i >= 100 else ("V%d" % i)


def pl(f):
    t = f[0]
    if t == "c":
        return str(f[1])
    if t == "v":
        return vname(f[1])
    if t == "~":
        return "~(%s)" % pl(f[1])
    if t in BINOPS:
        return "(%s)%s(%s)" % (pl(f[1]), t, pl(f[2]))
    if t == "^":
        return "%s^(%s)" % (vname(f[1]), pl(f[2]))
    if t == "+L":
        return "+([%s])" % ",".join(pl(x) for x in f[1])
    if t == "*L":
        return "*([%s])" % ",".join(pl(x) for x in f[1])
    if t == "card":
        its = ",".join(str(i) if isinstance(i, int) else "%d-%d" % (i[0], i[1]) for i in f[1])
        return "card([%s],[%s])" % (its, ",".join(pl(x) for x in f[2]))
    raise ValueError(t)


def tok(f, num):
    t = f[0]
    if t == "c":
        return str(f[1])
    if t == "v":
        return "v %d" % num[f[1]]
    if t == "~":
        return "~ " + tok(f[1], num)
    if t in BINOPS:
        return "%s %s %s" % (TOK[t], tok(f[1], num), tok(f[2], num))
    if t == "^":
        return "^ %d %s" % (num[f[1]], tok(f[2], num))
    if t in ("+L", "*L"):
        return " ".join(["O" if t == "+L" else "A", str(len(f[1]))] + [tok(x, num) for x in f[1]])
    if t == "card":
        rs = []
        for i in f[1]:
            lo, hi = (i, i) if isinstance(i, int) else i
            rs += [str(lo), str(hi)]
        return " ".join(["C", str(len(f[1]))] + rs + [str(len(f[2]))] + [tok(x, num) for x in f[2]])
    raise ValueError(t)


def ev(f, env):
    t = f[0]
    if t == "c":
        return bool(f[1])
    if t == "v":
        return env[f[1]]
    if t == "~":
        return not ev(f[1], env)
    if t in BINOPS:
        a, b = ev(f[1], env), ev(f[2], env)
        return {"*": a and b, "+": a or b, "#": a != b, "=:=": a == b, "=\\=": a != b,
                "=<": (not a) or b, ">=": a or (not b), "<": (not a) and b, ">": a and (not b)}[t]
    if t == "^":
        e0, e1 = dict(env), dict(env)
        e0[f[1]] = False
        e1[f[1]] = True
        return ev(f[2], e0) or ev(f[2], e1)
    if t == "+L":
        return any(ev(x, env) for x in f[1])
    if t == "*L":
        return all(ev(x, env) for x in f[1])
    if t == "card":
        n = sum(1 for x in f[2] if ev(x, env))
        return any((n == i) if isinstance(i, int) else (i[0] <= n <= i[1]) for i in f[1])
    raise ValueError(t)


def occ(f, acc):
    """variables in clp(B) index order: first occurrence in the rewritten expression
    (sat_rewrite/2 swaps the operands of >= and >; X^F mentions X first)."""
    t = f[0]
    if t == "v":
        if f[1] not in acc:
            acc.append(f[1])
    elif t == "~":
        occ(f[1], acc)
    elif t in (">=", ">"):
        occ(f[2], acc)
        occ(f[1], acc)
    elif t in BINOPS:
        occ(f[1], acc)
        occ(f[2], acc)
    elif t == "^":
        if f[1] not in acc:
            acc.append(f[1])
        occ(f[2], acc)
    elif t in ("+L", "*L"):
        for x in f[1]:
            occ(x, acc)
    elif t == "card":
        for x in f[2]:
            occ(x, acc)
    return acc


def size(f):
    t = f[0]
    if t in ("c", "v"):
        return 1
    if t == "~":
        return 1 + size(f[1])
    if t in BINOPS:
        return 1 + size(f[1]) + size(f[2])
    if t == "^":
        return 1 + size(f[2])
    return 1 + sum(size(x) for x in f[-1])


def connectives(f, acc):
    t = f[0]
    if t not in ("c", "v"):
        acc.add(t)
    if t == "c":
        acc.add("const")
    if t == "~":
        connectives(f[1], acc)
    elif t in BINOPS:
        connectives(f[1], acc)
        connectives(f[2], acc)
    elif t == "^":
        connectives(f[2], acc)
    elif t in ("+L", "*L", "card"):
        for x in f[-1]:
            connectives(x, acc)
    return acc


def assignments(vs):
    for bits in itertools.product([False, True], repeat=len(vs)):
        yield dict(zip(vs, bits))


# ------------------------------------------------------------------ generator

def gen_fm(rng, depth, free, binders, allow_ex=True):
    """random expression; `free` = variable ids usable free, `binders` = ids reserved for ^."""
    r = rng.random()
    if depth <= 0 or r < 0.12:
        if rng.random() < 0.18:
            return ("c", rng.randint(0, 1))
        return ("v", rng.choice(free))
    r = rng.random()
    if r < 0.13:
        return ("~", gen_fm(rng, depth - 1, free, binders, allow_ex))
    if r < 0.70:
        op = rng.choice(BINOPS)
        return (op, gen_fm(rng, depth - 1, free, binders, allow_ex), gen_fm(rng, depth - 1, free, binders, allow_ex))
    if r < 0.78 and allow_ex and binders:
        q = rng.choice(binders)
        return ("^", q, gen_fm(rng, depth - 1, free + [q], [b for b in binders if b != q], allow_ex))
    if r < 0.86:
        k = rng.choice([0, 1, 2, 2, 3, 4])
        return (rng.choice(["+L", "*L"]), [gen_fm(rng, depth - 2, free, binders, allow_ex) for _ in range(k)])
    k = rng.choice([0, 1, 2, 3, 3, 4, 5])
    fs = []
    for _ in range(k):
        if rng.random() < 0.6:
            fs.append(("v", rng.choice(free)))        # plain (possibly repeated) variables
        else:
            fs.append(gen_fm(rng, depth - 2, free, binders, allow_ex))
    its = []
    for _ in range(rng.choice([0, 1, 1, 2, 3])):
        if rng.random() < 0.55:
            its.append(rng.randint(0, k + 1))
        else:
            lo = rng.randint(0, k + 1)
            its.append((lo, rng.randint(max(0, lo - 1), k + 2)))
    return ("card", its, fs)


def gen_special(rng, free, binders):
    """tautologies, contradictions and near-misses, so that taut/2 answers 0 and 1 often."""
    a = gen_fm(rng, 2, free, binders)
    b = gen_fm(rng, 2, free, binders)
    k = rng.randint(0, 11)
    vs = [("v", v) for v in rng.sample(free, min(len(free), rng.randint(1, 4)))]
    n = len(vs)
    table = [
        ("+", a, ("~", a)), ("*", a, ("~", a)), ("=:=", a, a), ("=\\=", a, a), ("#", a, a),
        ("+", ("=<", a, b), ("=<", b, a)),
        ("=:=", ("~", ("*", a, b)), ("+", ("~", a), ("~", b))),
        ("=:=", ("=<", a, b), (">=", b, a)),
        ("=:=", ("<", a, b), (">", b, a)),
        ("card", [(0, n)], vs), ("card", [], vs),
        ("=:=", ("card", [(1, n)], vs), ("+L", vs)),
    ]
    f = table[k]
    if rng.random() < 0.3:      # near miss
        f = (rng.choice(["*", "+", "#"]), f, ("v", rng.choice(free)))
    return f


def rand_pools(rng, maxv):
    nv = rng.choice([1, 2, 3, 3, 4, 4, 5, 5, 6, 6, 7, 8])
    nv = min(nv, maxv)
    free = rng.sample(range(0, 9), nv)
    nb = rng.choice([0, 0, 1, 2])
    binders = [100 + i for i in range(nb)]
    if len(free) + nb > maxv:
        binders = binders[:max(0, maxv - len(free))]
    return free, binders


def label_list(rng, fs, subset_ok=True):
    vs = []
    for f in fs:
        occ(f, vs)
    vs = [v for v in vs if v < 100]
    if subset_ok and vs and rng.random() < 0.25:
        vs = rng.sample(vs, rng.randint(0, len(vs)))
    else:
        vs = vs[:]
    rng.shuffle(vs)
    return vs


def gen_scenarios(rng, n, maxv=8):
    out = []
    for _ in range(n):
        free, binders = rand_pools(rng, maxv)
        r = rng.random()
        if r < 0.50:
            f = gen_special(rng, free, binders) if rng.random() < 0.25 else gen_fm(rng, rng.choice([1, 2, 3, 3, 4]), free, binders)
            out.append({"kind": "one", "fs": [f], "vs": label_list(rng, [f])})
        elif r < 0.78:
            k = rng.choice([2, 2, 3])
            fs = [gen_fm(rng, rng.choice([1, 2, 3]), free, binders) for _ in range(k)]
            out.append({"kind": "seq", "fs": fs, "vs": label_list(rng, fs)})
        else:
            a = gen_fm(rng, rng.choice([1, 2, 3]), free, binders)
            b = gen_special(rng, free, binders) if rng.random() < 0.2 else gen_fm(rng, rng.choice([1, 2, 3]), free, binders)
            if rng.random() < 0.3:          # consequences / contradictions of the posted constraint
                b = rng.choice([("+", a, b), ("~", a), ("*", a, b), ("=<", b, a)])
            out.append({"kind": "under", "fs": [a, b], "vs": []})
    return out


FIXED = [
    {"kind": "one", "fs": [("+", ("*", ("v", 0), ("v", 1)), ("*", ("v", 0), ("v", 2)))], "vs": [0, 1, 2]},
    {"kind": "one", "fs": [("*", ("v", 0), ("~", ("v", 0)))], "vs": [0]},
    {"kind": "one", "fs": [("^", 100, ("^", 101, ("+", ("v", 100), ("v", 101))))], "vs": []},
    {"kind": "one", "fs": [("card", [2], [("v", 0), ("v", 1), ("v", 2)])], "vs": [2, 0, 1]},
    {"kind": "one", "fs": [("card", [1, (3, 4), 7], [("v", 0), ("v", 1), ("v", 0), ("~", ("v", 2)), ("c", 1)])], "vs": [2, 1, 0]},
    {"kind": "one", "fs": [("c", 1)], "vs": []},
    {"kind": "one", "fs": [("c", 0)], "vs": []},
    {"kind": "one", "fs": [("+L", [])], "vs": []},
    {"kind": "one", "fs": [("*L", [])], "vs": []},
    {"kind": "one", "fs": [("card", [0], [])], "vs": []},
    {"kind": "one", "fs": [("#", ("#", ("#", ("v", 3), ("v", 2)), ("v", 1)), ("v", 0))], "vs": [0, 1, 2, 3]},
    {"kind": "seq", "fs": [("=<", ("v", 0), ("v", 1)), ("=<", ("v", 1), ("v", 2))], "vs": [0, 1, 2]},
    {"kind": "under", "fs": [("*", ("=<", ("v", 0), ("v", 1)), ("=<", ("v", 1), ("v", 2))), ("=<", ("v", 0), ("v", 2))], "vs": []},
    {"kind": "under", "fs": [("=<", ("v", 0), ("v", 1)), ("+L", [("c", 1), ("v", 0), ("v", 1)])], "vs": []},
]

ERRORS = [   # malformed input stream: (goal, expected error formal regex)
    ("sat(2)", r"'domain_error'\('clpb_expr',2\)"),
    ("sat(f(_))", r"'domain_error'\('clpb_expr','f'\(_G0\)\)"),
    ("sat(_+2)", r"'domain_error'\('clpb_expr','\+'\(_G0,2\)\)"),
    ("taut(3,_)", r"'domain_error'\('clpb_expr',3\)"),
    ("sat_count(_*(-1),_)", r"'domain_error'\('clpb_expr','\*'\(_G0,-1\)\)"),
    ("sat(1^_)", r"'domain_error'\('clpb_expr','\^'\(1,_G0\)\)"),
    ("labeling([_,2])", r"'domain_error'\('clpb_variable',2\)"),
    ("sat(card([1],foo))", r"'type_error'\('list','foo'\)"),
    ("sat(card(_,[_]))", r"'instantiation_error'"),
]


# ------------------------------------------------------------------ reference (truth table)

def conj_rows(fs, allv):
    return [env for env in assignments(allv) if all(ev(f, env) for f in fs)]


def free_vars(fs):
    vs = []
    for f in fs:
        occ(f, vs)
    return vs


def alias_free(sat_rows, allv):
    """no two free variables are equal in every model (clp(B) unifies such variables, also when only
    one of them is labelled, and which clp(B) index the merged variable keeps is not documented)."""
    cols = [tuple(env[v] for env in sat_rows) for v in allv if v < 100]
    nonconst = [c for c in cols if len(set(c)) > 1]
    return len(set(nonconst)) == len(nonconst)


def reference(sc):
    kind, fs = sc["kind"], sc["fs"]
    allv = free_vars(fs)
    if kind == "one":
        f = fs[0]
        sat_rows = conj_rows([f], allv)
        n, tot = len(sat_rows), 2 ** len(allv)
        taut = "1" if n == tot else ("0" if n == 0 else "f")
        rows = sorted({tuple(env[v] for v in sc["vs"]) for env in sat_rows})
        return {"sat": n > 0, "taut": taut, "count": n, "rows": rows, "alias_free": alias_free(sat_rows, allv)}
    if kind == "seq":
        sat_rows = conj_rows(fs, allv)
        rows = sorted({tuple(env[v] for v in sc["vs"]) for env in sat_rows})
        return {"sat": len(sat_rows) > 0, "rows": rows, "alias_free": alias_free(sat_rows, allv)}
    a, b = fs
    a_rows = conj_rows([a], allv)
    ab_rows = [env for env in a_rows if ev(b, env)]
    if not a_rows:
        return {"sat": False}
    taut = "0" if not ab_rows else ("1" if len(ab_rows) == len(a_rows) else "f")
    bv = free_vars([b])
    cnt = len({tuple(env[v] for v in bv) for env in ab_rows})
    return {"sat": True, "taut": taut, "count": cnt}


# ------------------------------------------------------------------ rendering a scenario

def build(sc, sid):
    kind, fs, vs = sc["kind"], sc["fs"], sc["vs"]
    order = free_vars(fs)
    num = {v: i for i, v in enumerate(order)}
    vl = "[%s]" % ",".join(vname(v) for v in vs)
    use = "Q\t%s_u\t1\tuse_module(library(clpb))." % sid
    impl = [use]
    if kind == "one":
        F = pl(fs[0])
        impl.append("Q\t%s_t\t2\tfindall(T, taut(%s,T), R)." % (sid, F))
        impl.append("Q\t%s_c\t2\tfindall(N, sat_count(%s,N), R)." % (sid, F))
        impl.append("Q\t%s_l\t2\tfindall(L, (sat(%s), findall(%s, labeling(%s), L)), R)." % (sid, F, vl, vl))
        model = ["one\t%s_m\t%s\t%s" % (sid, tok(fs[0], num), " ".join(str(num[v]) for v in vs))]
    elif kind == "seq":
        goals = ", ".join("sat(%s)" % pl(f) for f in fs)
        impl.append("Q\t%s_l\t2\tfindall(L, (%s, findall(%s, labeling(%s), L)), R)." % (sid, goals, vl, vl))
        model = ["seq\t%s_m\t%s\t%s" % (sid, " ".join(str(num[v]) for v in vs), "\t".join(tok(f, num) for f in fs))]
    else:
        A, B = pl(fs[0]), pl(fs[1])
        impl.append("Q\t%s_t\t2\tfindall(T, (sat(%s), (taut(%s,T0) -> T = t(T0) ; T = none)), R)." % (sid, A, B))
        impl.append("Q\t%s_c\t2\tfindall(N, (sat(%s), sat_count(%s,N)), R)." % (sid, A, B))
        model = ["under\t%s_m\t%s\t%s" % (sid, tok(fs[0], num), tok(fs[1], num))]
    sc = dict(sc)
    sc.update({"id": sid, "impl": impl, "model": model, "ref": reference(sc), "order": order,
               "prolog": "; ".join(l.split("\t", 3)[3] for l in impl[1:])})
    return sc


def make_case(cid, scs):
    items = [build(sc, "%s_%d" % (cid, i)) for i, sc in enumerate(scs)]
    return {"id": cid, "items": items, "impl": [l for it in items for l in it["impl"]],
            "model": [l for it in items for l in it["model"]]}


def norm(sc):
    def fm(f):
        f = list(f)
        t = f[0]
        if t in ("c", "v"):
            return (t, f[1])
        if t == "~":
            return (t, fm(f[1]))
        if t in BINOPS:
            return (t, fm(f[1]), fm(f[2]))
        if t == "^":
            return (t, f[1], fm(f[2]))
        if t in ("+L", "*L"):
            return (t, [fm(x) for x in f[1]])
        return (t, [i if isinstance(i, int) else tuple(i) for i in f[1]], [fm(x) for x in f[2]])
    return {"kind": sc["kind"], "fs": [fm(f) for f in sc["fs"]], "vs": list(sc["vs"])}


# ------------------------------------------------------------------ parsing results

def parse_R(r):
    """`{R=[...]}` -> inner text of the list, or None."""
    m = re.fullmatch(r"\{R=\[(.*)\]\}", r)
    return None if m is None else m.group(1)


def parse_rows(inner, width):
    """`[[0,1],[1,1]]` (the single element of R) -> list of tuples of bool; None if malformed."""
    if inner == "":
        return "nosat"
    if not (inner.startswith("[") and inner.endswith("]")):
        return None
    body = inner[1:-1]
    if body == "":
        return []
    if width == 0:
        parts = body.split(",")
        return [()] * len(parts) if all(p == "[]" for p in parts) else None
    rows = re.findall(r"\[([01](?:,[01])*)\]", body)
    if "[" + "],[".join(rows) + "]" != body:
        return None
    out = [tuple(x == "1" for x in r.split(",")) for r in rows]
    return out if all(len(r) == width for r in out) else None


def model_fields(m):
    return dict(kv.split("=", 1) for kv in m.split(";")) if "=" in m else {}


def model_rows(s, width):
    if s == "none":
        return []
    return [() if r == "e" else tuple(c == "1" for c in r) for r in s.split(",")]


# ------------------------------------------------------------------ judge

def judge(it, impl, model):
    """returns list of findings (empty = agree) and a dict of stats flags."""
    sid, kind, ref = it["id"], it["kind"], it["ref"]
    m = model_fields(model.get(sid + "_m", "missing"))
    flags = {}
    out = []

    def fnd(kind_, op, detail, **extra):
        sig = {"family": "clpb", "op": op, "input": it["prolog"]}
        sig.update({k: str(v) for k, v in extra.items()})
        c = {"id": sid + "x", "items": [norm(it)], "expected": str(ref), "observed": {k: impl.get(sid + k) for k in ("_t", "_c", "_l")},
             "model_out": model.get(sid + "_m")}
        out.append(core.Finding(kind_, sig, detail, c))

    width = len(it["vs"])
    # ---- model against truth table (theorems say they are equal; a difference is a model/generator bug)
    if not m:
        fnd("disagreement", "model", "model driver gave no answer", model=model.get(sid + "_m"))
        return out, flags
    if kind == "one":
        exp = {"sat": "1" if ref["sat"] else "0", "taut": ref["taut"], "count": str(ref["count"]), "spec": str(ref["count"])}
        for k, v in exp.items():
            if m.get(k) != v:
                fnd("disagreement", "model-" + k, "Lean model differs from the truth table", model=m.get(k), ref=v)
        if sorted(model_rows(m.get("lab", "none"), width)) != (ref["rows"] if ref["sat"] else []):
            fnd("disagreement", "model-labeling", "Lean model labeling differs from the truth table", model=m.get("lab"))
    elif kind == "seq":
        if m.get("sat") != ("1" if ref["sat"] else "0") or (ref["sat"] and sorted(model_rows(m.get("lab", "none"), width)) != ref["rows"]):
            fnd("disagreement", "model-seq", "Lean model differs from the truth table", model=str(m))
    else:
        if m.get("sat") != ("1" if ref["sat"] else "0") or (ref["sat"] and (m.get("taut") != ref["taut"] or m.get("count") != str(ref["count"]))):
            fnd("disagreement", "model-under", "Lean model differs from the truth table", model=str(m), ref=str(ref))
    if out:
        return out, flags

    # ---- implementation against truth table (= proved value of the model)
    if kind == "one":
        t = parse_R(impl.get(sid + "_t", "missing"))
        exp_t = "" if ref["taut"] == "f" else ref["taut"]
        flags["taut_" + ref["taut"]] = 1
        if t != exp_t:
            fnd("violation", "taut", "taut/2 answer differs from the truth table (expected %s)" % (ref["taut"],),
                impl=impl.get(sid + "_t"), expected=ref["taut"])
        c = parse_R(impl.get(sid + "_c", "missing"))
        if c != str(ref["count"]):
            fnd("violation", "sat_count", "sat_count/2 differs from the number of satisfying assignments",
                impl=impl.get(sid + "_c"), expected=ref["count"])
    if kind in ("one", "seq"):
        rows = None
        inner = parse_R(impl.get(sid + "_l", "missing"))
        if inner is not None:
            rows = parse_rows(inner, width)
        flags["sat" if ref["sat"] else "unsat"] = 1
        if rows is None:
            fnd("violation", "sat_labeling", "sat/1 + labeling/1 did not return a list of 0/1 rows", impl=impl.get(sid + "_l"))
        elif rows == "nosat":
            if ref["sat"]:
                fnd("violation", "sat", "sat/1 fails on a satisfiable expression", impl=impl.get(sid + "_l"))
        elif not ref["sat"]:
            fnd("violation", "sat", "sat/1 succeeds on an unsatisfiable expression", impl=impl.get(sid + "_l"))
        elif sorted(rows) != ref["rows"]:
            what = "duplicate solutions" if sorted(set(rows)) == ref["rows"] else "wrong solution set"
            fnd("violation", "labeling", "labeling/1 does not enumerate exactly the satisfying assignments (%s)" % what,
                impl=impl.get(sid + "_l"), expected=len(ref["rows"]))
        elif ref["alias_free"]:
            flags["order_checked"] = 1
            mrows = model_rows(m.get("lab", "none"), width)
            if rows != mrows:
                fnd("violation", "labeling-order", "labeling/1 solutions are not in index order with 0 before 1",
                    impl=impl.get(sid + "_l"), model=m.get("lab"))
    if kind == "under":
        t = parse_R(impl.get(sid + "_t", "missing"))
        c = parse_R(impl.get(sid + "_c", "missing"))
        if not ref["sat"]:
            flags["under_unsat"] = 1
            if t != "" or c != "":
                fnd("violation", "sat", "sat/1 succeeds on an unsatisfiable expression", impl=impl.get(sid + "_t"))
        else:
            flags["under_taut_" + ref["taut"]] = 1
            exp_t = "'none'" if ref["taut"] == "f" else "'t'(%s)" % ref["taut"]
            if t != exp_t:
                fnd("violation", "taut-under", "taut/2 w.r.t. a posted constraint differs from the truth table (expected %s)" % ref["taut"],
                    impl=impl.get(sid + "_t"), expected=ref["taut"])
            if c != str(ref["count"]):
                fnd("violation", "sat_count-under", "sat_count/2 w.r.t. a posted constraint differs from the truth table",
                    impl=impl.get(sid + "_c"), expected=ref["count"])
    return out, flags


def error_cases():
    lines = ["Q\te_u\t1\tuse_module(library(clpb))."]
    for i, (g, _) in enumerate(ERRORS):
        lines.append("Q\te_%d\t2\tcatch(%s, error(E,_), true)." % (i, g))
    return {"id": "errs", "items": [], "impl": lines, "model": []}


def judge_errors(impl):
    out = []
    for i, (g, rx) in enumerate(ERRORS):
        r = impl.get("e_%d" % i, "missing")
        if re.fullmatch(r"\{E=" + rx + r"\}", r) is None:
            out.append(core.Finding("violation", {"family": "clpb", "op": "error", "input": g, "impl": r},
                                    "malformed expression is not rejected with the documented error",
                                    {"id": "err%d" % i, "items": [], "goal": g}))
    return out


def nontrivial(it):
    return sum(size(f) for f in it["fs"]) >= 4 and len(it["order"]) >= 2


def run(ctx):
    rng, tier = ctx["rng"], ctx["tier"]
    rep = diff.replay_case(ctx)
    chunk = 12
    if rep is not None:
        scs = [norm(it) for c in rep for it in c.get("items", [])]
    else:
        scs = [norm(it) for c in diff.load_corpus("C46") for it in c.get("items", [])]
        scs += FIXED
        scs += gen_scenarios(rng, 600 if tier == "quick" else 8000)
    cases = [make_case("s%d" % (i // chunk), scs[i:i + chunk]) for i in range(0, len(scs), chunk)]
    errs = error_cases() if rep is None else None
    t0 = time.time()
    impl, model = diff.run_cases(cases + ([errs] if errs else []), impl_env=IMPL_ENV)
    items = [it for c in cases for it in c["items"]]
    keys = ("_t", "_c", "_l")
    flaky = [it for it in items if any(transient(impl.get(it["id"] + k, "ok")) for k in keys)
             or any(l.split("\t")[1] not in impl for l in it["impl"])]
    retried = len(flaky)
    if flaky:
        rc = [make_case("y%d" % i, [norm(it)]) for i, it in enumerate(flaky[:500])]
        impl2, _ = diff.run_cases([{"id": c["id"], "impl": c["impl"]} for c in rc], impl_env=IMPL_ENV, parallel=False)
        for it, c in zip(flaky, rc):
            nid = c["items"][0]["id"]
            for k in keys:
                if nid + k in impl2:
                    impl[it["id"] + k] = impl2[nid + k]
    core.log("[C46] correspondence run: %d scenarios, %.1fs, %d retried" % (len(items), time.time() - t0, retried))
    findings, agree, evals = [], 0, 0
    distinct = set()
    stats = {}
    conn = {}
    nvars = {}
    kinds = {}
    for it in items:
        evals += len(it["impl"]) - 1
        kinds[it["kind"]] = kinds.get(it["kind"], 0) + 1
        fs, flags = judge(it, impl, model)
        for k in flags:
            stats[k] = stats.get(k, 0) + 1
        cs = set()
        for f in it["fs"]:
            connectives(f, cs)
        for c in cs:
            conn[c] = conn.get(c, 0) + 1
        nv = len(it["order"])
        nvars[nv] = nvars.get(nv, 0) + 1
        if nontrivial(it):
            distinct.add(it["prolog"])
        if rep is not None:
            print("replay %s\n  impl  = %s\n  model = %s\n  ref   = %s\n  -> %s" % (
                it["prolog"], {k: impl.get(it["id"] + k) for k in keys if it["id"] + k in impl},
                model.get(it["id"] + "_m"), it["ref"], "agree" if not fs else [f.detail for f in fs]))
        if fs:
            findings.extend(fs)
        else:
            agree += 1
    if errs:
        ef = judge_errors(impl)
        evals += len(ERRORS)
        stats["error_stream"] = len(ERRORS) - len(ef)
        findings.extend(ef)
    return {
        "evaluations": evals,
        "distinct_nontrivial": len(distinct),
        "rule": "random scenarios over <= 8 free variables (+ <= 2 variables reserved for ^), expression depth <= 4, every connective "
                "(0 1 ~ * + # =:= =\\= =< >= < > ^ +(L) *(L) card with integer and range indices, repeated variables and nested "
                "expressions as elements); 25% of single-expression scenarios are tautology / contradiction templates or near misses. "
                "kinds: one = taut/2, sat_count/2 and sat/1+findall labeling/1 of one expression; seq = sat(F1), sat(F2)[, sat(F3)], "
                "labeling (incremental posting against the truth table of the conjunction); under = sat(A) then taut(B,T) and "
                "sat_count(B,N). non-trivial = total expression size >= 4 and >= 2 variables; distinct by query text",
        "samples": [it["prolog"] for it in items[len(FIXED):len(FIXED) + 4]] if rep is None else [it["prolog"] for it in items[:4]],
        "traces_validated_against_impl": agree,
        "disagreements_checked": len(items) - agree,
        "retried_after_timeout": retried,
        "scenario_kinds": kinds,
        "connectives_hit": conn,
        "variables_histogram": {str(k): v for k, v in sorted(nvars.items())},
        "branches_hit": stats,
        "findings": findings,
    }
